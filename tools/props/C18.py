"""C18 — script and language select the font's script / language-system records; tag part of C01 (totality)."""
import os, re, json
import vlib

MODULE = "RbModel.Props.C18"
LEVEL = "proof"


# ----------------------------------------------------------------------------------------------
# helpers

def hx(s):
    if isinstance(s, str):
        s = s.encode("utf-8")
    return "x" + s.hex()


def tg(s):
    """4 chars -> u32"""
    b = s.encode("latin-1") if isinstance(s, str) else s
    b = (b + b"    ")[:4]
    return (b[0] << 24) | (b[1] << 16) | (b[2] << 8) | b[3]


def untag(t):
    return bytes([(t >> 24) & 255, (t >> 16) & 255, (t >> 8) & 255, t & 255]).decode("latin-1")


def canon(x):
    """panic <file>:<line> <msg>  ->  panic <kind>   (the model prints the kind)"""
    if x.startswith("panic "):
        if "char boundary" in x or "out of range" in x or "byte index" in x or "out of bounds of" in x:
            return "panic slice"
        if "index out of bounds" in x:
            return "panic oob"
        if x in ("panic slice", "panic oob"):
            return x
        return "panic other:" + x[6:80]
    return x


def lang_table(shim):
    out = vlib.run_lines(shim, ["langtable"], nproc=1)[0]
    rows = []
    for item in out.split():
        h, t = item.split(":")
        rows.append((bytes.fromhex(h).decode(), int(t)))
    return rows


def complex_rules():
    import importlib, sys
    gdir = os.path.join(vlib.ROOT, "tools", "gens")
    if gdir not in sys.path:
        sys.path.insert(0, gdir)
    lang = importlib.import_module("lang")
    src = open(os.path.join(vlib.REPO, "src", "hb", "tag_table.rs"), encoding="utf-8").read()
    return lang.parse_complex(src)


def script_constants():
    src = open(os.path.join(vlib.REPO, "src", "hb", "common.rs"), encoding="utf-8").read()
    return sorted(set(re.findall(r'Script::from_bytes\(b"(....)"\)', src)))


MULTI = ["é", "ß", "€", "한", "😀", "\u0301", "ı"]
REGIONS = ["US", "cn", "HK", "mo", "TW", "md", "001", "419", "th"]
SCRIPTS4 = ["Latn", "hant", "HANS", "Cyrl", "Geok", "syre", "Syrj", "syrn", "Arab"]
VARIANTS = ["fonipa", "fonnapa", "polyton", "arevmda", "provenc", "1996", "valencia", "fonipax"]


def decorate(r, s):
    k = r.below(12)
    if k == 0: return s
    if k == 1: return s + "-" + r.choice(REGIONS)
    if k == 2: return s + "-" + r.choice(SCRIPTS4)
    if k == 3: return s + "-" + r.choice(SCRIPTS4) + "-" + r.choice(REGIONS)
    if k == 4: return s + "-" + r.choice(VARIANTS)
    if k == 5: return s.upper()
    if k == 6: return "".join(c.upper() if r.chance(1, 2) else c for c in s) + "-" + r.choice(REGIONS).lower()
    if k == 7: return s + "-x-hbot" + rand_alnum(r, r.range(0, 5))
    if k == 8: return r.choice(["zh", "ar", "ms", "en", "xx", "i", "art"]) + "-" + s + r.choice(["", "-CN", "-hant"])
    if k == 9: return s + "-" + r.choice("abtu") + "-" + rand_alnum(r, 3) + r.choice(["", "-x-foo", "-x-hbsc" + rand_alnum(r, 4)])
    if k == 10: return s + "_" + r.choice(REGIONS)
    return s + "-" + rand_alnum(r, r.range(1, 8)).lower()


def rand_alnum(r, n):
    return "".join(r.choice("abcdxyzABCDXYZ0123456789") for _ in range(n))


def rand_text(r, n, alphabet="abcdehikmnorstuxyz-"):
    return "".join(r.choice(alphabet) for _ in range(n))


def with_multibyte(r, s):
    """insert / replace a multi-byte character at a random position"""
    m = r.choice(MULTI)
    i = r.range(0, len(s))
    if r.chance(1, 3) and i < len(s):
        return s[:i] + m + s[i + 1:]
    return s[:i] + m + s[i:]


def lang_strings(r, rows, pre, branch, n_random):
    """the language strings of the `tags` stream, with a class label each"""
    out = []
    langs = sorted(set(l for l, _ in rows))
    for l in langs:
        out.append(("registry", l))
    # strings that exercise every rule of tags_from_complex_language
    for ru in pre:
        sub = bytes(ru["s2"]).decode()
        for base in ("und", "en", "zh", "", "x"):
            out.append(("complex-pre", base + sub))
            out.append(("complex-pre", base + sub + "-x-foo"))
            out.append(("complex-pre", base + sub + "x"))
    for ru in branch:
        first = chr(ru["first"])
        s1 = bytes(ru["s1"]).decode()
        s2 = bytes(ru["s2"]).decode()
        if ru["kind"] in (1, 2):
            for suf in ("", "-xx", "x", "-"):
                out.append(("complex-branch", first + s1 + suf))
            out.append(("complex-branch", first + s1[:-1]))
        else:
            for mid in ("", "hant", "xx-", "xx"):
                for suf in ("", "-yy", "z"):
                    out.append(("complex-branch", first + s1 + mid + s2 + suf))
            out.append(("complex-branch", first + s1))
            out.append(("complex-branch", first + s1[:-1] + s2))
    # private use
    for head in ("x", "en-x", "zh-hant-x", "a-b-x", "-x", "x-x", "en-a-bcd-x"):
        for kind in ("hbot", "hbsc", "hbxx"):
            for t in ("", "a", "ab", "abc", "abcd", "abcde", "AbC1", "12", "a-b", "a_b", "dflt", "DFLT", "dFlT", "é", "aé"):
                out.append(("private", f"{head}-{kind}{t}"))
                out.append(("private", f"{head}-{kind}{t}-hbsc{t[::-1]}"))
                out.append(("private", f"{head}-foo-{kind}{t}-bar"))
    # fixed oddities
    for s in ("", "-", "--", "x", "x-", "-x-", "a", "a-", "-a", "a--b", "a-x", "a-x-", "-x-x-", "xyz", "xy", "wxyz",
              "abcde-fgh", "ab-cde-f", "zh-yue", "zh-yue-hk", "ar-aao", "ms-zsm", "sgn-ase", "no-bok", "no-nyn",
              "tr@foo=bar", "en_US", "zh-min-nan", "i-lux", "i-navajo", "i-hak", "art-lojban", "ro-md", "ro-x-md"):
        out.append(("odd", s))
    alpha = "abcdefghijklmnopqrstuvwxyz"
    for _ in range(n_random):
        k = r.below(10)
        if k <= 2:
            out.append(("decorated", decorate(r, r.choice(langs))))
        elif k == 3:
            out.append(("decorated2", decorate(r, decorate(r, r.choice(langs)))))
        elif k == 4:
            out.append(("random-ascii", rand_text(r, r.range(1, 12))))
        elif k == 5:
            out.append(("random-3", "".join(r.choice(alpha) for _ in range(r.range(2, 3)))))
        elif k == 6:
            out.append(("utf8-in-registry", with_multibyte(r, decorate(r, r.choice(langs)))))
        elif k == 7:
            out.append(("utf8-random", with_multibyte(r, rand_text(r, r.range(0, 8)))))
        elif k == 8:
            ru = r.choice(branch)
            s = chr(ru["first"]) + bytes(ru["s1"]).decode() + r.choice(["", "hant-", "xx"]) + bytes(ru["s2"]).decode()
            out.append(("utf8-in-complex", with_multibyte(r, s)))
        else:
            s = with_multibyte(r, with_multibyte(r, rand_text(r, r.range(0, 6), "acr-x")))
            out.append(("utf8-two", s))
    return out


def multibyte_everywhere(rows, branch):
    """every registry language / rule string with one multi-byte char inserted at EVERY position"""
    out = []
    bases = sorted(set(l for l, _ in rows))[::7] + ["a-b", "zh-hant-hk", "en-x-hbotabcd", "x-hbscdeva", "abc-def-ghi"]
    for ru in branch[::5]:
        bases.append(chr(ru["first"]) + bytes(ru["s1"]).decode() + bytes(ru["s2"]).decode())
    for b in bases:
        for i in range(len(b) + 1):
            for m in ("é", "€"):
                out.append(("utf8-everywhere", b[:i] + m + b[i:]))
    return out


# ----------------------------------------------------------------------------------------------
# streams

def stream_tags(ctx, r, rows, pre, branch, scripts):
    cases = lang_strings(r, rows, pre, branch, ctx.budget(12000, 600000))
    cases += multibyte_everywhere(rows, branch)
    lines, cls = [], {}
    for c, s in cases:
        k = r.below(4)
        sc = "-" if k == 0 else str(tg(r.choice(scripts))) if k < 3 else str(tg(rand_script(r)))
        ln = f"tags {sc} {hx(s)}"
        lines.append(ln); cls[ln] = c
    for s in scripts:
        lines.append(f"tags {tg(s)} -"); cls[lines[-1]] = "script-constant"
    for _ in range(ctx.budget(2000, 30000)):
        lines.append(f"tags {tg(rand_script(r))} -"); cls[lines[-1]] = "script-random"

    def classify(ln, out):
        ks = [cls.get(ln, "?")]
        if out.startswith("panic"):
            ks.append("reply:" + out)
        else:
            m = re.match(r"ok s:(\S+) l:(\S+)", out)
            if m:
                ks.append("scripts:%d" % (0 if m.group(1) == "-" else m.group(1).count(",") + 1))
                ks.append("langs:%d" % (0 if m.group(2) == "-" else m.group(2).count(",") + 1))
        return ks
    return ctx.correspond("tags", lines=lines, classify=classify, canon=canon)


def rand_script(r):
    k = r.below(4)
    if k == 0:
        return "".join(r.choice("ABCDEFGHIJKLMNOPQRSTUVWXYZ") if i == 0 else r.choice("abcdefghijklmnopqrstuvwxyz") for i in range(4))
    if k == 1:
        return "".join(r.choice("BDGKMOTHLYNVbdgkmot") + r.choice("eunlyraio") + r.choice("ngjrdmyaliok") + r.choice("gaurmluioa"))
    if k == 2:
        return "".join(chr(r.range(32, 126)) for _ in range(4)).replace(" ", "_")
    return r.choice(["Beng", "Deva", "Gujr", "Guru", "Knda", "Mlym", "Orya", "Taml", "Telu", "Mymr", "Hira", "Kana", "Laoo", "Yiii", "Nkoo", "Vaii", "Zzzz", "Qaag"])


def stream_prims(ctx, r, rows, pre, branch, scripts):
    langs = sorted(set(l for l, _ in rows))
    lines = []
    n = ctx.budget(6000, 300000)
    for _ in range(n):
        k = r.below(8)
        if k <= 1:     # lang_cmp: table language against arbitrary strings
            a = r.choice(langs)
            b = r.choice([r.choice(langs), decorate(r, r.choice(langs)), rand_text(r, r.range(0, 6)), a, a + "-" + rand_text(r, 2),
                          decorate(r, a), a[:-1], a + "a",
                          with_multibyte(r, decorate(r, r.choice(langs))), with_multibyte(r, rand_text(r, r.range(0, 5)))])
            if r.chance(1, 10): a, b = b, a
            if a == "" or b == "":
                a = a or "-"; b = b or "-"
            lines.append(f"langcmp {hx(a)} {hx(b)}")
        elif k == 2:   # tags_from_language
            s = r.choice([decorate(r, r.choice(langs)), rand_text(r, r.range(1, 9)), with_multibyte(r, r.choice(langs) + "-abc")])
            lines.append(f"tagslang {hx(s)}")
        elif k == 3:   # complex
            ru = r.choice(branch)
            s = chr(ru["first"]) + bytes(ru["s1"]).decode() + r.choice(["", "-", "hant", "xx-"]) + bytes(ru["s2"]).decode() + r.choice(["", "-x", "y"])
            if r.chance(1, 4): s = with_multibyte(r, s)
            if r.chance(1, 8): s = rand_text(r, r.range(1, 9))
            if r.chance(1, 60): s = ""
            lines.append(f"complex {hx(s.lower())}")
        elif k == 4:   # private
            body = r.choice(["-hbot", "-hbsc", "-hbo", "hbot", "-HBOT"]) + r.choice(["", rand_alnum(r, r.range(1, 6)), "a-b", "dflt", "DfLt", "é1", "1é"])
            s = r.choice(["x", "", "x-foo", "é"]) + body + r.choice(["", "-hbsc" + rand_alnum(r, 3), "-hbotxy"])
            lines.append(f"private {hx(s) if not r.chance(1, 20) else '-'} {r.below(2)}")
        elif k == 5:
            lines.append(f"scripttags {tg(rand_script(r)) if not r.chance(1, 30) else '-'}")
        elif k == 6:   # shaper for the scripts with tag generations
            sc = r.choice(["Beng", "Deva", "Gujr", "Guru", "Knda", "Mlym", "Orya", "Taml", "Telu", "Mymr"])
            g = r.choice(["-", "DFLT", "latn", "dflt", "mymr", "mym2", "deva", "dev2", "dev3", "bng3", "tml2", "xyz3", "abc2", untag(tg(rand_script(r)))])
            lines.append(f"shaper {tg(sc)} {r.below(4)} {'-' if g == '-' else tg(g)}")
        else:
            lines.append(f"tagslang {hx(r.choice(langs))}")
    for s in scripts:
        lines.append(f"scripttags {tg(s)}")

    def classify(ln, out):
        t = ln.split()
        ks = [t[0]]
        if out.startswith("panic"):
            ks.append(t[0] + ":" + out)
        elif t[0] == "langcmp":
            ks.append("langcmp:" + out)
        elif t[0] in ("complex", "private"):
            ks.append(t[0] + ":" + out.split()[0])
        elif t[0] == "shaper":
            ks.append("shaper:" + out)
        return ks
    return ctx.correspond("tag-prims", lines=lines, classify=classify, canon=canon)


# ----------------------------------------------------------------------------------------------
# search on the implementation alone

def search_registry(ctx, shim, rows):
    """C18_lang_complete on the crate: every table row's language reaches its first registered tag."""
    first = {}
    for l, t in rows:
        first.setdefault(l, t)
    langs = list(first)
    outs = vlib.run_lines(shim, [f"tags - {hx(l)}" for l in langs])
    bad = 0
    for l, o in zip(langs, outs):
        want = first[l]
        m = re.match(r"ok s:\S+ l:(\S+)", o)
        got = [] if not m or m.group(1) == "-" else [int(x) for x in m.group(1).split(",")]
        ok = (got[:1] == [want]) if want != 0 else (got == [])
        if not ok:
            bad += 1
            ctx.violation(f"language \"{l}\" of the registry does not reach its registered tag '{untag(want)}': got {o}",
                          {"stage": "search", "stream": "registry-complete", "request": f"tags - {hx(l)}", "language": l,
                           "expected_first_tag": want, "observed": o})
    ctx.note_search("registry-complete", len(langs), len(langs),
                    rule="every distinct language of OPEN_TYPE_LANGUAGES through tags(): the first language tag must be "
                         "the tag of its first table row (no tag when that row's tag is null)")



SUBTAG_SUFFIXES = ["-419", "-001", "-029", "-150", "-ZZ", "-QM", "-Qaax", "-Qaax-419", "-ZZ-x-priv", "-419-x-a", "-1994", "-Qaax-ZZ-1994"]


def search_bcp47(ctx, shim, rows):
    """BCP 47 structure: region (2 letters / 3 digits), script (4 letters), variant and private-use subtags that no rule
    of the registry mentions do not change which language the string names: tags(L + suffix) = tags(L)."""
    first = {}
    for l, t in rows:
        first.setdefault(l, t)
    langs = [l for l in first if "-" not in l]
    reqs = [(l, sfx) for l in langs for sfx in SUBTAG_SUFFIXES]
    base = dict(zip(langs, vlib.run_lines(shim, [f"tags - {hx(l)}" for l in langs])))
    outs = vlib.run_lines(shim, [f"tags - {hx(l + sfx)}" for l, sfx in reqs])
    bad = {}
    lt = lambda o: (re.match(r"ok s:\S+ l:(\S+)", o) or [None, o])[1]
    for (l, sfx), o in zip(reqs, outs):
        if lt(o) != lt(base[l]):
            bad.setdefault(sfx, []).append((l, o))
    for sfx, lst in sorted(bad.items()):
        l, o = lst[0]
        ctx.violation(f"language \"{l}{sfx}\" does not select the tags of \"{l}\" ({len(lst)} languages with the subtags \"{sfx}\"): "
                      f"got {o}, \"{l}\" alone gives {base[l]}",
                      {"stage": "search", "stream": "bcp47-subtags", "request": f"tags - {hx(l + sfx)}", "language": l + sfx,
                       "base_language": l, "expected": base[l], "observed": o, "count": len(lst)})
    ctx.note_search("bcp47-subtags", len(reqs), len(reqs),
                    rule="every language of OPEN_TYPE_LANGUAGES followed by region / script / variant / private-use subtags "
                         "that no registry rule mentions (UN M.49 codes, private-use region and script codes): same language tags "
                         "as the bare language")

def wellknown_pairs():
    """the hand-checked pairs of `C18_wellknown` (single source: Props/C18.lean)"""
    src = open(os.path.join(vlib.LEAN, "RbModel", "Props", "C18.lean"), encoding="utf-8").read()
    m = re.search(r"def wellknown : List \(String × String\) := \[(.*?)\]\n", src, flags=re.S)
    return re.findall(r'\("([^"]*)", "([^"]{4})"\)', m.group(1)) if m else []


def search_wellknown(ctx, shim):
    pairs = wellknown_pairs()
    outs = vlib.run_lines(shim, [f"tags - {hx(l)}" for l, _ in pairs], nproc=1)
    for (l, t), o in zip(pairs, outs):
        m = re.match(r"ok s:\S+ l:(\S+)", o)
        got = [] if not m or m.group(1) == "-" else [int(x) for x in m.group(1).split(",")]
        if got[:1] != [tg(t)]:
            ctx.violation(f"well-known language \"{l}\" does not map to '{t}': got {o}",
                          {"stage": "search", "stream": "wellknown", "request": f"tags - {hx(l)}", "language": l,
                           "expected_first_tag": tg(t), "observed": o})
    ctx.note_search("wellknown", len(pairs), len(pairs),
                    rule="the hand-checked BCP 47 -> OpenType pairs of C18_wellknown through tags() of the crate")


GENERATIONS = {"Beng": "bng", "Deva": "dev", "Gujr": "gjr", "Guru": "gur", "Knda": "knd", "Mlym": "mlm", "Orya": "ory",
               "Taml": "tml", "Telu": "tel"}
OLD_EXCEPTIONS = {"Hira": "kana", "Laoo": "lao ", "Yiii": "yi  ", "Nkoo": "nko ", "Vaii": "vai "}


def search_script_tags(ctx, shim, scripts):
    """C18_script_tags on the crate, against a spec written from the OpenType script-tag registry"""
    lines = [f"tags {tg(s)} -" for s in scripts]
    outs = vlib.run_lines(shim, lines, nproc=1)
    for s, ln, o in zip(scripts, lines, outs):
        old = OLD_EXCEPTIONS.get(s, s[0].lower() + s[1:])
        if s in GENERATIONS:
            want = [GENERATIONS[s] + "3", GENERATIONS[s] + "2", old]
        elif s == "Mymr":
            want = ["mym2", "mymr"]
        else:
            want = [old]
        exp = "ok s:" + ",".join(str(tg(x)) for x in want) + " l:-"
        if o != exp:
            ctx.violation(f"script {s} must yield the script tags {want}: got {o}",
                          {"stage": "search", "stream": "script-tags", "request": ln, "script": s, "expected": exp,
                           "observed": o})
    ctx.note_search("script-tags", len(lines), len(lines),
                    rule="every script constant of common.rs through tags(): xxx3, xxx2, old tag for the nine Indic scripts, "
                         "mym2, mymr for Myanmar, the lower-cased ISO 15924 tag (5 registry exceptions) otherwise")


def search_total(ctx, shim, r, rows, branch, n):
    """C01_tag_total on the crate: no panic for any valid UTF-8 language string / any script."""
    langs = sorted(set(l for l, _ in rows))
    fixed = ["a-é", "raé", "cabé", "é", "aé", "a-€", "zh-é", "é-zh", "x-hboté", "en-x-hbscé", "ab-cdé"]
    strs = list(fixed)
    for _ in range(n):
        k = r.below(4)
        if k == 0: s = with_multibyte(r, decorate(r, r.choice(langs)))
        elif k == 1: s = with_multibyte(r, with_multibyte(r, rand_text(r, r.range(0, 7), "acr-xhbo")))
        elif k == 2:
            ru = r.choice(branch)
            s = with_multibyte(r, chr(ru["first"]) + bytes(ru["s1"]).decode() + bytes(ru["s2"]).decode())
        else: s = "".join(r.choice(MULTI + list("ab-x")) for _ in range(r.range(1, 6)))
        strs.append(s)
    lines = [f"tags {tg('Latn')} {hx(s)}" for s in strs]
    outs = vlib.run_lines(shim, lines)
    seen = set()
    npanic = 0
    for s, ln, o in zip(strs, lines, outs):
        if o.startswith("panic") or o.startswith("abort") or o == "timeout":
            npanic += 1
            m = re.match(r"panic (\S+?):(\d+) ", o)
            site = (os.path.basename(m.group(1)) + ":" + m.group(2)) if m else o[:40]
            if site in seen:
                continue
            seen.add(site)
            # smallest input for this site among the ones found
            cands = [x for x, y in zip(strs, outs) if y.startswith("panic") and site.split(":")[0] in y and (":" + site.split(":")[1] + " ") in y]
            named = [x for x in fixed if x in cands]
            s0 = named[0] if named else min(cands, key=lambda x: (len(x.encode()), x))
            ctx.violation(f"tags_from_script_and_language panics on the valid UTF-8 language \"{s0}\" at {site}",
                          {"stage": "search", "stream": "tag-total", "request": f"tags {tg('Latn')} {hx(s0)}",
                           "language": s0, "panic_site": site, "observed": o})
    ctx.note_search("tag-total", len(lines), len(set(lines)), panics=npanic,
                    rule="valid UTF-8 language strings with multi-byte characters (registry/rule strings with an inserted "
                         "character, random mixes) through tags(); any panic is a violation, reported once per panic site "
                         "with the shortest input found")


# ----------------------------------------------------------------------------------------------
# fonts: one feature per (script record, langsys) that names the record

PROBE_A, PROBE_B, PROBE_C, PROBE_D = 1, 2, 3, 4     # GSUB regular / GSUB required / GPOS regular / GPOS required
BASE = 5                                           # naming glyph of GSUB feature i = BASE + i
TEXT = "e000:0,e001:1,e002:2,e003:3"
REG_TAG = {0: "ccmp", 1: "dist"}


def rand_langsys(r, tag, feats, table, want_req, extra_reg=True):
    """allocate the features of one langsys in `feats` (list of feature tags of the table); returns the abstract langsys"""
    ls = {"tag": tag, "req": None, "feats": []}
    if extra_reg:
        ls["feats"].append(len(feats)); feats.append(REG_TAG[table])
    if r.chance(1, 6):                       # a second feature with another tag in front (find_language_feature must skip it)
        ls["feats"].insert(0, len(feats)); feats.append("zzz0")
    if want_req:
        ls["req"] = len(feats); feats.append(r.choice(["rqd0", "rqd1", REG_TAG[table]]))
        if r.chance(1, 12):
            ls["req"] = len(feats) + r.range(0, 3)      # dangling required index
    return ls


def rand_table(r, table, script_universe, lang_universe, present_scripts=None, sort=True):
    feats = []
    scripts = []
    tags = present_scripts if present_scripts is not None else [t for t in script_universe if r.chance(1, 2)]
    for t in tags:
        sc = {"tag": t, "dflt": None, "langs": []}
        if r.chance(3, 4):
            sc["dflt"] = rand_langsys(r, tg("dflt"), feats, table, r.chance(1, 3), extra_reg=r.chance(5, 6))
        for lt in lang_universe:
            if r.chance(2, 5):
                sc["langs"].append(rand_langsys(r, lt, feats, table, r.chance(1, 3), extra_reg=r.chance(5, 6)))
        if sort:
            sc["langs"].sort(key=lambda l: l["tag"])
        else:
            sc["langs"] = r.shuffle(sc["langs"])
        scripts.append(sc)
    if sort:
        scripts.sort(key=lambda x: x["tag"])
    else:
        scripts = r.shuffle(scripts)
        if scripts and r.chance(1, 3):
            scripts.append(dict(scripts[0]))                 # duplicate tag
    return {"scripts": scripts, "feats": feats}


def conv_scripts(tb):
    """ScriptList of a fontbuild recipe from the abstract table. Language systems that carry the same "share" key inside
    one script record are serialised ONCE and referenced by several LangSys offsets (DefaultLangSys included)."""
    import fontbuild
    out = []
    for sc in tb["scripts"]:
        shared = {}
        def ls(l):
            d = {"tag": untag(l["tag"]), "required": l["req"], "features": list(l["feats"])}
            if l.get("share") is None:
                return d
            key = l["share"]
            if key not in shared:
                shared[key] = fontbuild._langsys(d).build()
            return {"tag": d["tag"], "raw_bytes": shared[key]}      # the same bytes object: one copy, one offset
        out.append({"tag": untag(sc["tag"]), "default": None if sc["dflt"] is None else ls(sc["dflt"]),
                    "langs": [ls(l) for l in sc["langs"]]})
    return out


def feature_lookups(tb, i):
    """lookup indices of feature record i: its own lookup i, plus whatever dangling lookup indices `malform` put around it"""
    return list(tb.get("flk", {}).get(i, [i]))


# ----------------------------------------------------------------------------------------------
# malformed-but-accepted layout tables: what subsetters, font editors and hand-made fonts really leave behind. Nothing in a
# LangSys forces its indices to point into the FeatureList, nothing in a Feature forces its lookup indices to point into
# the LookupList, nothing stops two LangSys offsets from pointing to one table. OpenType consumers skip what dangles.

def dangling_value(r, n):
    """an index >= n (n = FeatureCount / LookupCount): just past the end, far past, the largest ones"""
    return r.choice([n, n, n + 1, n + r.range(2, 40), 2 * n + 3, 0x7FFF, 0xFFFE, 0xFFFF])


def malform_indices(r, f, n, allow_ffff=True):
    """an index array with dangling entries at the FIRST position, in the MIDDLE, at the LAST position, at several of
    them; duplicated entries; entries naming records of other language systems. Order of the original entries kept."""
    f = list(f)
    def dv():
        v = dangling_value(r, n)
        return v if (allow_ffff or v != 0xFFFF) else n
    k = r.below(10)
    if k in (0, 3, 5, 6):
        f.insert(0, dv())                                  # first
    if k == 5:
        f.insert(0, dv())                                  # two in front
    if k in (1, 6):
        pos = r.range(1, len(f) - 1) if len(f) >= 2 else len(f)
        f.insert(pos, dv())                                # middle (between two entries when there are two)
    if k in (2, 3, 6):
        f.append(dv())                                     # last
    if k == 4:                                             # one before every entry
        g = []
        for x in f:
            g += [dv(), x]
        f = g
    if f and r.chance(1, 4):
        f.insert(r.range(0, len(f)), r.choice(f))          # duplicate
    if n and r.chance(1, 6):
        f.insert(r.range(0, len(f)), r.below(n))           # some other existing record
    return f


def all_langsys(tb):
    for sc in tb["scripts"]:
        if sc["dflt"] is not None:
            yield sc["dflt"]
        for l in sc["langs"]:
            yield l


def malform_table(r, tb, records=True):
    """in place; returns the list of malformation kinds applied (for the distribution)"""
    import copy
    kinds = set()
    n = len(tb["feats"])
    # language systems: index arrays, required index
    for ls in all_langsys(tb):
        if r.chance(3, 4):
            before = list(ls["feats"])
            ls["feats"] = malform_indices(r, ls["feats"], n)
            if any(x >= n for x in ls["feats"]):
                kinds.add("dangling-feature-index")
                real = [i for i, x in enumerate(ls["feats"]) if x < n]
                dang = [i for i, x in enumerate(ls["feats"]) if x >= n]
                if real and dang[0] < real[-1]:
                    kinds.add("dangling-before-valid")
            if len(set(ls["feats"])) < len(ls["feats"]):
                kinds.add("duplicate-feature-index")
        if ls["req"] is None and r.chance(1, 8):
            v = dangling_value(r, n)
            ls["req"] = None if v == 0xFFFF else v          # 0xFFFF is "no required feature"
            kinds.add("required-dangling" if ls["req"] is not None else "required-ffff")
    # LangSys tables shared by several records of one script (DefaultLangSys too)
    nshare = 0
    for sc in tb["scripts"]:
        group = ([sc["dflt"]] if sc["dflt"] is not None else []) + sc["langs"]
        if len(group) >= 2 and r.chance(1, 3):
            a, b = r.sample(group, 2)
            key = f"s{nshare}"; nshare += 1
            a["share"] = key
            b["share"] = key
            b["feats"] = list(a["feats"]); b["req"] = a["req"]
            kinds.add("shared-langsys")
            if len(group) >= 3 and r.chance(1, 2):
                c3 = r.choice([g for g in group if g is not a and g is not b])
                c3["share"] = key; c3["feats"] = list(a["feats"]); c3["req"] = a["req"]
    # feature records whose lookup index array dangles
    flk = {}
    for i in range(n):
        if r.chance(1, 3):
            flk[i] = malform_indices(r, [i], n)             # LookupCount = FeatureCount: one lookup per feature record
            flk[i] = [x for x in flk[i] if x >= n or x == i]   # only dangling entries and duplicates of its own lookup
            if any(x >= n for x in flk[i]):
                kinds.add("dangling-lookup-index")
    if flk:
        tb["flk"] = flk
    # default language systems missing
    if r.chance(1, 8):
        for sc in tb["scripts"]:
            if sc["langs"]:
                sc["dflt"] = None
        kinds.add("default-langsys-missing")
    # records out of order / duplicated (with DIFFERENT content, so that the binary search is visible)
    if records and tb["scripts"] and r.chance(1, 4):
        pool = [copy.deepcopy(l) for l in all_langsys(tb)]
        for sc in tb["scripts"]:
            if sc["langs"] and r.chance(1, 2):
                d = copy.deepcopy(r.choice(pool)); d["tag"] = r.choice(sc["langs"])["tag"]; d.pop("share", None)
                sc["langs"].insert(r.range(0, len(sc["langs"])), d)
                kinds.add("duplicate-langsys-record")
            if len(sc["langs"]) >= 2 and r.chance(1, 2):
                sc["langs"] = r.shuffle(sc["langs"])
                kinds.add("unsorted-langsys-records")
        if r.chance(1, 2):
            d = copy.deepcopy(r.choice(tb["scripts"])); d["tag"] = r.choice(tb["scripts"])["tag"]
            tb["scripts"].insert(r.range(0, len(tb["scripts"])), d)
            kinds.add("duplicate-script-record")
        if len(tb["scripts"]) >= 2 and r.chance(1, 2):
            tb["scripts"] = r.shuffle(tb["scripts"])
            kinds.add("unsorted-script-records")
    return sorted(kinds)


def abstract(tb):
    if tb is None:
        return "-"
    def ls(l):
        return f"{l['tag']}.{'-' if l['req'] is None else l['req']}.{'_'.join(map(str, l['feats']))}"
    parts = ["_".join(str(tg(f)) for f in tb["feats"])]
    for sc in tb["scripts"]:
        parts.append(f"{sc['tag']}:{'-' if sc['dflt'] is None else ls(sc['dflt'])}:{'+'.join(ls(l) for l in sc['langs'])}")
    return "|".join(parts)


def recipe_of(gsub, gpos):
    n = BASE + max(len(gsub["feats"]) if gsub else 0, 1) + 1
    rec = {"num_glyphs": n, "cmap": "pua"}
    def conv(tb, table):
        out = {"raw": True, "scripts": conv_scripts(tb), "features": [], "lookups": []}
        for i, ft in enumerate(tb["feats"]):
            out["features"].append({"tag": ft, "lookups": feature_lookups(tb, i)})
            req = ft.startswith("rqd")
            if table == 0:
                out["lookups"].append({"type": 1, "subtables": [{"format": 2, "coverage": [PROBE_B if req else PROBE_A],
                                                                 "subst": [BASE + i]}]})
            else:
                out["lookups"].append({"type": 1, "subtables": [{"format": 1, "coverage": [PROBE_D if req else PROBE_C],
                                                                 "value": {"xAdvance": 10 + i}}]})
        return out
    if gsub is not None:
        rec["gsub"] = conv(gsub, 0)
    if gpos is not None:
        rec["gpos"] = conv(gpos, 1)
    return rec


def expected_glyphs(gsub, gpos, sel):
    """what shape() must output for TEXT given the per-table selection `sel` = [(si, li, req)|None, ...] (model)."""
    out = {"A": PROBE_A, "B": PROBE_B, "C": 500, "D": 500}
    for table, tb in ((0, gsub), (1, gpos)):
        if tb is None or sel[table] is None:
            continue
        si, li, req = sel[table]
        sc = tb["scripts"][si]
        sys = sc["dflt"] if li is None else sc["langs"][li]
        reg = None
        if sys is not None:
            for fi in sys["feats"]:
                if fi < len(tb["feats"]) and tb["feats"][fi] == REG_TAG[table]:
                    reg = fi; break
        # the required feature is applied whatever its tag, in stage 0 (before every other feature: stage 0 holds only
        # 'rvrn') unless its tag is one the shaper knows — then in that feature's stage, where lookups run in index order
        hits = []
        if req is not None and req < len(tb["feats"]):
            hits.append(req)
        if reg is not None and reg not in hits:
            hits.append(reg)
        if req is not None and req < len(tb["feats"]) and tb["feats"][req] == REG_TAG[table]:
            hits.sort()
        for fi in hits:
            isreq = tb["feats"][fi].startswith("rqd")
            if table == 0:
                k = "B" if isreq else "A"
                if out[k] in (PROBE_A, PROBE_B):
                    out[k] = BASE + fi
            else:
                k = "D" if isreq else "C"
                out[k] += 10 + fi
    return out


def parse_sel(tok):
    """found,si,chosen,li,req -> (si, li, reqidx) | None"""
    f = tok.split(",")
    if f[1] == "-":
        return None
    return (int(f[1]), None if f[3] == "-" else int(f[3]), None if f[4] == "-" else int(f[4].split(":")[0]))


SEL_SCRIPTS = ["Deva", "Beng", "Mymr", "Latn", "Arab", "Thai", "Hira", "Laoo", "Cyrl", "Khmr", "Taml", "Zzzz"]
SEL_LANGS = ["-", "en", "ml", "zh-Hant-HK", "x-hbotabcd", "mr", "xyz", "zh-Hant-MO", "zzj", "de-x-hbscdflt", "x-hbsclatn-hbotENG"]
MODELLED_SHAPER = {"Deva", "Beng", "Taml", "Mymr"}


def tag_lists(shim, scripts, langs):
    lines = [f"tags {tg(s)} {'-' if l == '-' else hx(l)}" for s in scripts for l in langs]
    outs = vlib.run_lines(shim, lines, nproc=1)
    res = {}
    k = 0
    for s in scripts:
        for l in langs:
            m = re.match(r"ok s:(\S+) l:(\S+)", outs[k]); k += 1
            res[(s, l)] = ([] if not m or m.group(1) == "-" else [int(x) for x in m.group(1).split(",")],
                           [] if not m or m.group(2) == "-" else [int(x) for x in m.group(2).split(",")])
    return res


def select_cases(ctx, r, shim):
    """(gsub, gpos, script, lang, script tags, lang tags) with fonts covering every present/absent combination of the
    candidate script tags, DFLT, dflt, latn (exhaustively for each script), langsys and required features at random."""
    import fontbuild
    tl = tag_lists(shim, SEL_SCRIPTS, SEL_LANGS)
    cases = []
    per_subset = ctx.budget(1, 16)
    for s in SEL_SCRIPTS:
        st0 = tl[(s, "-")][0]
        universe = list(dict.fromkeys(st0 + [tg("DFLT"), tg("dflt"), tg("latn")]))
        for mask in range(1 << len(universe)):
            present = [t for i, t in enumerate(universe) if mask >> i & 1]
            for _ in range(per_subset):
                l = r.choice(SEL_LANGS)
                st, lt = tl[(s, l)]
                lang_universe = list(dict.fromkeys(lt + [tg("dflt"), tg("AAA "), tg("ZZZ ")]))
                noise = [tg("aaaa"), tg("zzzz")] if r.chance(1, 4) else []
                gsub = rand_table(r, 0, universe, lang_universe, present_scripts=present + noise)
                k = r.below(4)
                gpos = None if k == 0 else rand_table(r, 1, universe, lang_universe)
                if r.chance(1, 10):
                    gsub, gpos = None, rand_table(r, 1, universe, lang_universe, present_scripts=present)
                cases.append({"gsub": gsub, "gpos": gpos, "script": s, "lang": l, "st": st, "lt": lt, "kind": "sorted"})
    # malformed: unsorted / duplicate records (the binary search of ttf-parser is modelled as the loop it is)
    for _ in range(ctx.budget(150, 8000)):
        s = r.choice(SEL_SCRIPTS); l = r.choice(SEL_LANGS)
        st, lt = tl[(s, l)]
        universe = list(dict.fromkeys(tl[(s, "-")][0] + [tg("DFLT"), tg("dflt"), tg("latn"), tg("aaaa"), tg("zzzz")]))
        lang_universe = list(dict.fromkeys(lt + [tg("dflt"), tg("AAA "), tg("ZZZ ")]))
        gsub = rand_table(r, 0, universe, lang_universe, sort=False)
        gpos = rand_table(r, 1, universe, lang_universe, sort=False) if r.chance(1, 2) else None
        cases.append({"gsub": gsub, "gpos": gpos, "script": s, "lang": l, "st": st, "lt": lt, "kind": "unsorted"})
    # malformed but accepted: dangling / duplicated feature indices at every position of a language system's array, dangling
    # required and lookup indices, LangSys tables shared between records, default language systems missing, DFLT only;
    # GSUB and GPOS independently (records stay sorted here: the select-shape search runs on these fonts too)
    rm = ctx.rng("select-malformed")
    for _ in range(ctx.budget(500, 12000)):
        s = rm.choice(SEL_SCRIPTS); l = rm.choice(SEL_LANGS)
        st, lt = tl[(s, l)]
        universe = list(dict.fromkeys(tl[(s, "-")][0] + [tg("DFLT"), tg("dflt"), tg("latn")]))
        present = [t for t in universe if rm.chance(1, 2)] or [tg("DFLT")]
        if rm.chance(1, 6):
            present = [tg("DFLT")]
        lang_universe = list(dict.fromkeys(lt + [tg("dflt"), tg("AAA "), tg("ZZZ ")]))
        gsub = rand_table(rm, 0, universe, lang_universe, present_scripts=present)
        gpos = None if rm.chance(1, 3) else rand_table(rm, 1, universe, lang_universe,
                                                       present_scripts=present if rm.chance(1, 2) else None)
        if rm.chance(1, 10):
            gsub, gpos = None, rand_table(rm, 1, universe, lang_universe, present_scripts=present)
        mal = []
        for tb, name in ((gsub, "gsub"), (gpos, "gpos")):
            if tb is not None and rm.chance(3, 4):
                mal += [f"{name}:{k}" for k in malform_table(rm, tb, records=False)]
        cases.append({"gsub": gsub, "gpos": gpos, "script": s, "lang": l, "st": st, "lt": lt, "kind": "malformed", "mal": mal})
    for c in cases:
        c["hex"] = fontbuild.build(recipe_of(c["gsub"], c["gpos"])).hex()
        c["abs"] = abstract(c["gsub"]) + "/" + abstract(c["gpos"])
    return cases


def stream_select(ctx, r, cases):
    lines, kind, malk = [], {}, {}
    jl = lambda v: "-" if not v else ",".join(map(str, v))
    for c in cases:
        for t in (0, 1):
            st, lt = c["st"], c["lt"]
            if r.chance(1, 5):
                st = r.shuffle(st + [tg("DFLT")])[: r.range(0, 4)]
            if r.chance(1, 5):
                lt = r.shuffle(lt + [tg("dflt"), tg("AAA ")])[: r.range(0, 3)]
            ln = f"tagsel {c['hex']} {c['abs']} {t} {jl(st)} {jl(lt)}"
            lines.append(ln); kind[ln] = c["kind"]
        tb = c["gsub"]
        if tb and tb["scripts"] and r.chance(1, 2):
            si = r.below(len(tb["scripts"]) + 1)
            nl = len(tb["scripts"][si]["langs"]) if si < len(tb["scripts"]) else 0
            li = "-" if r.chance(1, 2) else str(r.below(nl + 1))
            ln = f"tagfeat {c['hex']} {c['abs']} 0 {si} {li} {tg(r.choice(['ccmp', 'zzz0', 'rqd0', 'none']))}"
            lines.append(ln); kind[ln] = c["kind"]
        ln = f"tagplan {c['hex']} {c['abs']} {r.below(2)} {tg(c['script'])} {'-' if c['lang'] == '-' else hx(c['lang'])}"
        lines.append(ln); kind[ln] = c["kind"] + ":" + ("shaper" if c["script"] in MODELLED_SHAPER else "noshaper")
        for k in c.get("mal", []):
            malk.setdefault(ln, []).append(k)

    def canon_sel(x):
        x = canon(x)
        return x

    def classify(ln, out):
        t = ln.split()
        ks = [t[0], t[0] + ":" + kind[ln].split(":")[0]]
        if t[0] == "tagsel":
            if out in ("notable", "nosel") or out.startswith("panic"):
                ks.append("tagsel:" + out)
            else:
                f = out.split()
                ks.append("tagsel:found" + f[0])
                ks.append("tagsel:lang" + ("-" if f[3] == "-" else "+"))
                ks.append("tagsel:req" + ("-" if f[4] == "-" else "+"))
        if t[0] == "tagplan":
            ks.append("shaper:" + out.split()[0])
            ks += ["malformed:" + k for k in malk.get(ln, [])]
        return ks

    # the model only knows the shapers of the scripts with several tag generations
    def canon_plan(x):
        x = canon(x)
        f = x.split()
        if len(f) == 3 and f[0] not in ("default", "indic", "use", "myanmar", "panic"):
            return "other " + " ".join(f[1:])
        return x
    dis = []
    plan = [l for l in lines if l.startswith("tagplan") and kind[l].endswith("noshaper")]
    rest = [l for l in lines if not (l.startswith("tagplan") and kind[l].endswith("noshaper"))]
    dis += ctx.correspond("tag-select", lines=rest, classify=classify, canon=canon)
    # scripts whose shaper the model does not know: compare the selections only
    def canon_noshaper(x):
        x = canon(x)
        f = x.split()
        return "* " + " ".join(f[1:]) if len(f) == 3 else x
    dis += ctx.correspond("tag-select", lines=plan, classify=classify, canon=canon_noshaper)
    return dis


def search_shape(ctx, cases):
    """end to end: shape() substitutes / positions the probes according to the records the model selects"""
    shim = vlib.build_harness()
    model = vlib.build_model()
    good = [c for c in cases if c["kind"] in ("sorted", "malformed")]
    plan_lines = [f"tagplan {c['hex']} {c['abs']} 0 {tg(c['script'])} {'-' if c['lang'] == '-' else hx(c['lang'])}" for c in good]
    plans = vlib.run_lines(model, plan_lines)
    groups = []
    for i, c in enumerate(good):
        lang = "-" if c["lang"] == "-" else hx(c["lang"])
        groups.append([f"font f{i} {c['hex']}", f"shape f{i} l {c['script']} {lang} 0 0 - - - {TEXT}", f"fontdrop f{i}"])
    outs = vlib.run_groups(shim, groups)
    nontriv = 0
    bad = 0
    dist = {}
    for c, p, o in zip(good, plans, outs):
        f = p.split()
        if len(f) != 3 or p.startswith("panic"):
            continue
        sel = [parse_sel(f[1]), parse_sel(f[2])]
        exp = expected_glyphs(c["gsub"], c["gpos"], sel)
        m = o[1].split()
        if len(m) != 6 or m[0] != "ok":
            got = None
        else:
            g = [x.split(":") for x in m[2:]]
            got = {"A": int(g[0][0]), "B": int(g[1][0]), "C": int(g[2][3]), "D": int(g[3][3])}
        key = ("gsub:" + ("none" if sel[0] is None else ("lang" if sel[0][1] is not None else "dflt") + ("+req" if sel[0][2] is not None else "")))
        dist[key] = dist.get(key, 0) + 1
        for k in selected_malformations(c, sel):
            dist[k] = dist.get(k, 0) + 1
        if exp != {"A": PROBE_A, "B": PROBE_B, "C": 500, "D": 500}:
            nontriv += 1
        if got != exp:
            bad += 1
            if bad <= 3:
                ctx.violation(f"shape() does not apply the features of the selected script/langsys records: script {c['script']} "
                              f"language {c['lang']}: expected {exp}, got {got}",
                              {"stage": "search", "stream": "select-shape", "font_hex": c["hex"], "abstract": c["abs"],
                               "script": c["script"], "lang": c["lang"], "model_selection": p, "expected": exp,
                               "observed": o[1], "malformations": c.get("mal", []),
                               "selected_language_systems": describe_selected(c, sel)})
    ctx.note_search("select-shape", len(good), nontriv, distribution=dist, mismatches=bad,
                    rule="synthetic fonts (fontbuild) with one single-substitution (GSUB) / single-adjustment (GPOS) feature per "
                         "(script record, langsys) naming the record, every present/absent combination of the candidate script "
                         "tags + DFLT/dflt/latn per script, random langsys / required-feature layout; shape() of 4 probe glyphs "
                         "must show exactly the features of the records the model selects; plus fonts with malformed-but-accepted "
                         "tables (dangling / duplicated feature indices at the first, a middle, the last position of the "
                         "language system's array, dangling required and lookup indices, shared LangSys tables, missing default "
                         "language systems, DFLT only; GSUB and GPOS independently): exactly the EXISTING listed features take "
                         "part; non-trivial = some probe changes")


# ----------------------------------------------------------------------------------------------
# ISO 15924 code -> Script (Script::from_iso15924_tag / Script::from_str): letter case and variant codes

# variant code -> the script it is a variant of.  Written from the ISO 15924 code list (the same rows as
# lean/RbModel/Spec/ScriptAlias.lean), NOT read from the crate.
ISO_VARIANTS = {"Qaai": "Zinh", "Qaac": "Copt", "Aran": "Arab", "Cyrs": "Cyrl", "Geok": "Geor", "Hans": "Hani", "Hant": "Hani",
                "Jamo": "Hang", "Latf": "Latn", "Latg": "Latn", "Syre": "Syrc", "Syrj": "Syrc", "Syrn": "Syrc"}


def case_patterns(code):
    """the 16 spellings of a four-letter code"""
    return ["".join(ch.upper() if m >> i & 1 else ch.lower() for i, ch in enumerate(code)) for m in range(16)]


def rand_case(r, code, canonical_share=8):
    """a spelling of `code`; the canonical one (one capital, three small letters) only once in `canonical_share`"""
    if r.chance(1, canonical_share):
        return code
    return r.choice([p for p in case_patterns(code) if p != code])


def iso_expected(code):
    """what a well-formed four-letter code (any case) must select: the parent of a variant code, else itself"""
    t = code[0].upper() + code[1:].lower()
    return ISO_VARIANTS.get(t, t)


def iso_reference(t):
    """hb_script_from_iso15924_tag as HarfBuzz documents it, in python (None = rejected): the null tag is invalid; the case is
    adjusted to one capital + three small letters; a variant code is its parent; a tag that then looks like a script code
    (first byte 0x40..0x5F, the others 0x60..0x7F) is that script; anything else is Zzzz"""
    if t == 0:
        return None
    b = [(t >> 24) & 0xDF, (t >> 16) & 0xDF | 0x20, (t >> 8) & 0xDF | 0x20, t & 0xDF | 0x20]
    adj = (b[0] << 24) | (b[1] << 16) | (b[2] << 8) | b[3]
    for v, parent in ISO_VARIANTS.items():
        if adj == tg(v):
            return tg(parent)
    if 0x40 <= b[0] <= 0x5F and all(0x60 <= x <= 0x7F for x in b[1:]):
        return adj
    return tg("Zzzz")


def str_reference(bs):
    """Script::from_str: the empty string is an error, else the first four bytes padded with spaces as the tag"""
    if not bs:
        return None
    bs = (bs + b"    ")[:4]
    return iso_reference(tg(bs))


def script_iso_lines(r, scripts, n_random):
    """requests for the script-iso stream with their class: every script constant of the crate and every variant code in all
    16 letter-case spellings; the same with one byte pushed just outside the letters; garbage; strings of every length"""
    lines, cls = [], {}
    def add(ln, c):
        lines.append(ln); cls.setdefault(ln, c)
    codes = list(scripts) + [c for c in ISO_VARIANTS if c not in scripts]
    for c in codes:
        kind = "variant" if c in ISO_VARIANTS else "constant"
        for p in case_patterns(c):
            add(f"scriptiso {tg(p)}", kind + (":canonical" if p == c else ":other-case"))
            add(f"scriptstr {hx(p)}", "str-" + kind + (":canonical" if p == c else ":other-case"))
    edge = [0x00, 0x1F, 0x20, 0x2D, 0x30, 0x39, 0x40, 0x41, 0x5A, 0x5B, 0x5F, 0x60, 0x61, 0x7A, 0x7B, 0x7F, 0x80, 0xC1, 0xE1, 0xFF]
    for c in codes:
        for _ in range(2):
            b = bytearray(rand_case(r, c, 4).encode())
            b[r.below(4)] = r.choice(edge)
            add(f"scriptiso {tg(bytes(b))}", "one-byte-off")
    for t in (0, 1, 0x20202020, 0x00202020, 0xFFFFFFFF, 0x41414141, 0x61616161, 0x5A7A7A7A, 0x40606060, 0x5B7B7B7B, 0xDFDFDFDF):
        add(f"scriptiso {t}", "edge")
    for _ in range(n_random):
        k = r.below(4)
        if k == 0:
            add(f"scriptiso {r.below(1 << 32)}", "random-u32")
        elif k == 1:
            add(f"scriptiso {tg(bytes(r.choice(edge + list(range(0x41, 0x5B)) + list(range(0x61, 0x7B))) for _ in range(4)))}", "random-bytes")
        elif k == 2:
            c = rand_case(r, r.choice(codes), 4)
            s = r.choice([c[:r.below(4)], c + rand_alnum(r, r.range(1, 4)), c[:r.range(1, 3)] + r.choice(MULTI), r.choice(MULTI) + c,
                          c + "-" + r.choice(REGIONS), " " + c, c[:3] + " ", c[:2], rand_text(r, r.range(0, 6)), c[:3] + r.choice(MULTI)])
            add(f"scriptstr {hx(s)}", "str-cut-or-long" if s else "str-empty")
        else:
            c = r.choice(list(ISO_VARIANTS))
            add(f"scriptstr {hx(rand_case(r, c, 16))}", "str-variant:other-case")
    add("scriptstr x", "str-empty")
    return lines, cls


def stream_script_iso(ctx, r, scripts):
    lines, cls = script_iso_lines(r, scripts, ctx.budget(4000, 200000))

    def classify(ln, out):
        ks = [cls.get(ln, "?")]
        if out in ("none", "err"):
            ks.append("reply:" + out)
        elif out.isdigit():
            ks.append("reply:Zzzz" if int(out) == tg("Zzzz") else "reply:script")
        return ks
    return ctx.correspond("script-iso", lines=lines, classify=classify, canon=canon)


def search_script_garbage(ctx, shim, r, scripts, n):
    """every request class of the script-iso stream (one byte just outside the letters, edge tags, random tags, strings of every
    length with multi-byte characters) judged by the python reference of the documented behaviour"""
    lines, cls = script_iso_lines(r, scripts, n)
    outs = vlib.run_lines(shim, lines)
    bad, shown, dist = 0, set(), {}
    for ln, o in zip(lines, outs):
        t = ln.split()
        if t[0] == "scriptiso":
            want = iso_reference(int(t[1]))
            call = f"Script::from_iso15924_tag(Tag(0x{int(t[1]):08X}))"
            wants = "none" if want is None else str(want)
        else:
            bs = bytes.fromhex(t[1][1:])
            want = str_reference(bs)
            call = f"Script::from_str({bs.decode('utf-8')!r})"
            wants = "err" if want is None else str(want)
        k = cls.get(ln, "?").split(":")[0]
        dist[k] = dist.get(k, 0) + 1
        if o != wants:
            bad += 1
            if len(shown) < 3 and k not in shown:
                shown.add(k)
                ctx.violation(f"{call} gives {untag(int(o)) if o.isdigit() else o!r}, expected "
                              f"{untag(int(wants)) if wants.isdigit() else wants!r} (null tag invalid; case adjusted; variant code "
                              f"-> parent; a tag of four letter-like bytes is itself, anything else Zzzz)",
                              {"stage": "search", "stream": "script-reference", "request": ln, "call": call, "expected": wants,
                               "observed": o})
    ctx.note_search("script-reference", len(lines), len(lines), mismatches=bad, distribution=dist,
                    rule="the requests of the script-iso stream (all codes in 16 spellings, one byte pushed just outside the letter "
                         "ranges, edge and random tags, cut / long / multi-byte strings, the empty string) judged by a python "
                         "transcription of hb_script_from_iso15924_tag's documented behaviour and of Tag::from_bytes_lossy")


def search_script_case(ctx, shim, scripts):
    """oracle on the public API alone: a four-letter script code selects the same Script in every letter case; a variant
    code selects the script it is a variant of (table written from ISO 15924)"""
    reqs = []
    for c in list(scripts) + [c for c in ISO_VARIANTS if c not in scripts]:
        for p in case_patterns(c):
            reqs.append((f"scriptiso {tg(p)}", p, f"Script::from_iso15924_tag(Tag::from_bytes(b\"{p}\"))"))
            reqs.append((f"scriptstr {hx(p)}", p, f"Script::from_str(\"{p}\")"))
    outs = vlib.run_lines(shim, [q[0] for q in reqs], nproc=1)
    bad = 0
    shown = set()
    for (ln, p, call), o in zip(reqs, outs):
        want = iso_expected(p)
        if o != str(tg(want)):
            bad += 1
            key = (want, ln.split()[0])
            if len(shown) < 4 and key not in shown:
                shown.add(key)
                got = untag(int(o)) if o.isdigit() else o
                ctx.violation(f"{call} gives the script '{got}', expected '{want}' (script codes are case-insensitive"
                              + (f"; '{p[0].upper() + p[1:].lower()}' is a variant code of '{want}'" if want.lower() != p.lower() else "") + ")",
                              {"stage": "search", "stream": "script-case", "request": ln, "call": call, "expected": str(tg(want)),
                               "expected_script": want, "observed": o})
    ctx.note_search("script-case", len(reqs), len(reqs), mismatches=bad, variant_codes=len(ISO_VARIANTS),
                    rule="Script::from_iso15924_tag and Script::from_str on every script constant of the crate and every ISO 15924 "
                         "variant code (Qaai Qaac Aran Cyrs Geok Hans Hant Jamo Latf Latg Syre Syrj Syrn; parent table written from "
                         "the standard) in all 16 letter-case spellings: the constant itself resp. the variant's parent")


ALIAS_EXTRA = ["Deva", "Thai", "Mymr", "Nkoo"]      # plain scripts, for the case-insensitivity half alone


def alias_cases(ctx, r, shim):
    """fonts with script records for the PARENT of a variant code (and the fall-backs, and sometimes a record named like the
    variant code itself), requests that spell the script as the variant code / the parent / a plain script in a random
    letter case.  `script` = the spelling handed to the API, `parent` = the script that must be selected."""
    import fontbuild
    codes = list(ISO_VARIANTS) + sorted(set(ISO_VARIANTS.values())) + ALIAS_EXTRA
    parents = sorted(set(iso_expected(c) for c in codes))
    tl = tag_lists(shim, parents, SEL_LANGS)
    cases = []
    for c in codes:
        parent = iso_expected(c)
        own = tl[(parent, "-")][0]
        for _ in range(ctx.budget(8, 200)):
            l = r.choice(SEL_LANGS)
            st, lt = tl[(parent, l)]
            # a record named like the request's own spelling must never be looked for: sometimes the font has one
            noise = [tg(c.lower())] if c != parent and r.chance(1, 3) else []
            universe = list(dict.fromkeys(own + [tg("DFLT"), tg("dflt"), tg("latn")]))
            present = [t for t in own if r.chance(4, 5)] + [t for t in universe if t not in own and r.chance(2, 3)]
            present = list(dict.fromkeys(present + noise)) or [own[0]]
            lang_universe = list(dict.fromkeys(lt + [tg("dflt"), tg("AAA "), tg("ZZZ ")]))
            gsub = rand_table(r, 0, universe, lang_universe, present_scripts=present)
            gpos = None if r.chance(1, 3) else rand_table(r, 1, universe, lang_universe, present_scripts=present if r.chance(1, 2) else None)
            if r.chance(1, 10):
                gsub, gpos = None, rand_table(r, 1, universe, lang_universe, present_scripts=present)
            cases.append({"gsub": gsub, "gpos": gpos, "script": rand_case(r, c), "code": c, "parent": parent, "lang": l,
                          "own_present": any(t in present for t in own), "noise": bool(noise)})
    for c in cases:
        c["hex"] = fontbuild.build(recipe_of(c["gsub"], c["gpos"])).hex()
        c["abs"] = abstract(c["gsub"]) + "/" + abstract(c["gpos"])
    return cases


def stream_alias_plan(ctx, cases):
    """the builder's selection for requests that spell the script as a variant code / in another letter case: model
    (from_iso15924_tag model, then the selection model) against the crate; the shaper name is compared only where the model
    knows the script's shaper"""
    lines = [f"tagplan {c['hex']} {c['abs']} 0 {tg(c['script'])} {'-' if c['lang'] == '-' else hx(c['lang'])}" for c in cases]
    kind = {ln: ("variant" if c["code"] != c["parent"] else "plain") + (":canonical" if c["script"] == c["code"] else ":other-case")
            for ln, c in zip(lines, cases)}

    def canon_noshaper(x):
        x = canon(x)
        f = x.split()
        return "* " + " ".join(f[1:]) if len(f) == 3 else x
    return ctx.correspond("tag-select", lines=lines, classify=lambda ln, out: ["tagplan-spelled", "tagplan-spelled:" + kind[ln]],
                          canon=canon_noshaper)


def alias_shape_got(reply):
    m = reply.split()
    if len(m) != 6 or m[0] != "ok":
        return None
    g = [x.split(":") for x in m[2:]]
    return {"A": int(g[0][0]), "B": int(g[1][0]), "C": int(g[2][3]), "D": int(g[3][3])}


def search_alias_shape(ctx, cases):
    """shape() with the script spelled as a variant code / in another letter case must apply the features of the records the
    PARENT script selects (selection computed by the model for the parent's canonical code, glyphs from the recipe)"""
    shim = vlib.build_harness()
    model = vlib.build_model()
    lg = lambda c: "-" if c["lang"] == "-" else hx(c["lang"])
    plans = vlib.run_lines(model, [f"tagplan {c['hex']} {c['abs']} 0 {tg(c['parent'])} {lg(c)}" for c in cases])
    groups = [[f"font g{i} {c['hex']}", f"shape g{i} l {c['script']} {lg(c)} 0 0 - - - {TEXT}", f"fontdrop g{i}"]
              for i, c in enumerate(cases)]
    outs = vlib.run_groups(shim, groups)
    bad, nontriv, judged = 0, 0, 0
    dist, shown = {}, set()
    for c, p, o in zip(cases, plans, outs):
        f = p.split()
        if len(f) != 3 or p.startswith("panic"):
            continue
        judged += 1
        sel = [parse_sel(f[1]), parse_sel(f[2])]
        exp = expected_glyphs(c["gsub"], c["gpos"], sel)
        got = alias_shape_got(o[1])
        kind = ("variant" if c["code"] != c["parent"] else "plain") + (":canonical" if c["script"] == c["code"] else ":other-case")
        dist[kind] = dist.get(kind, 0) + 1
        if c["noise"]:
            dist["font has a record named like the variant code"] = dist.get("font has a record named like the variant code", 0) + 1
        if exp != {"A": PROBE_A, "B": PROBE_B, "C": 500, "D": 500} and c["own_present"]:
            nontriv += 1
        if got != exp:
            bad += 1
            if len(shown) < 3 and c["code"] not in shown:
                shown.add(c["code"])
                ctx.violation(f"shape() with the script given as '{c['script']}' ("
                              + (f"ISO 15924 variant code of '{c['parent']}'" if c["code"] != c["parent"] else f"'{c['parent']}' in another letter case")
                              + f") language {c['lang']} does not apply the features of the records script '{c['parent']}' selects: "
                              f"expected {exp}, got {got}",
                              {"stage": "search", "stream": "alias-shape", "font_hex": c["hex"], "abstract": c["abs"],
                               "script": c["script"], "parent": c["parent"], "lang": c["lang"], "model_selection_for_parent": p,
                               "expected": exp, "observed": o[1]})
    ctx.note_search("alias-shape", len(cases), nontriv, distribution=dist, mismatches=bad, judged=judged,
                    rule="select-shape fonts (one naming feature per script record x language system, GSUB and GPOS) with records "
                         "for the OpenType tags of the PARENT script of an ISO 15924 variant code, the fall-backs DFLT / dflt / latn "
                         "and, one time in three, a record named like the variant code itself; the request spells the script as the "
                         "variant code, as its parent, or as a plain script, in a random one of the 16 letter-case spellings "
                         "(canonical 1/8); shape() of the 4 probe glyphs must show exactly the features of the records the parent "
                         "script selects (selection by the model for the parent's canonical code, expected glyphs from the recipe); "
                         "non-trivial = some probe changes and the font has a record of the parent's own tag")


# ----------------------------------------------------------------------------------------------
# fonts whose FeatureList holds SEVERAL records with one tag (one per language system, shared ones, records no
# language system lists), as pan-CJK fonts do for 'vert' / 'locl'; every direction; the features each direction enables

# tag -> who enables it (ot_shape.rs collect_features, common part run for every shaper):
#   "all" every direction, "h" horizontal, "v" vertical, "l"/"r" that direction, "never"; rtlm is not global: it is applied
#   to every character of a backward run that was not replaced by its mirror image through cmap — all of the probe text
MULTI_GSUB = ["vert", "ccmp", "locl", "ltra", "ltrm", "rtla", "rtlm", "clig", "zzz0", "rqd0"]
MULTI_GPOS = ["vert", "abvm", "mark", "dist", "zzz0", "rqd0"]
MULTI_TAGS = {0: MULTI_GSUB, 1: MULTI_GPOS}
ENABLED = {"vert": "v", "ccmp": "all", "locl": "all", "abvm": "all", "mark": "all", "ltra": "l", "ltrm": "l", "rtla": "r",
           "rtlm": "r", "clig": "h", "dist": "h", "zzz0": "never"}
SHAPER_INDEPENDENT = {"vert", "ccmp", "locl", "abvm", "mark", "ltra", "ltrm", "rtla", "rtlm", "zzz0"}
DEFAULT_SHAPER_SCRIPTS = {"Latn", "Cyrl", "Hira", "Hani", "Zzzz"}     # hb_ot_shape_complex_categorize: default shaper
MULTI_SCRIPTS = ["Hani", "Hira", "Latn", "Cyrl", "Zzzz", "Deva", "Arab", "Mymr", "Thai", "Khmr", "Hang", "Taml"]
MULTI_LANGS = ["-", "ja", "ko", "zh-Hans", "zh-Hant-HK", "en", "mr", "x-hbotabcd", "xyz"]
G_GSUB0 = 1                                        # GSUB probe of MULTI_GSUB[k] = G_GSUB0 + k
G_GPOS0 = G_GSUB0 + len(MULTI_GSUB)                # GPOS probe of MULTI_GPOS[k] = G_GPOS0 + k
G_REF = G_GPOS0 + len(MULTI_GPOS)                  # never touched: the reference for offsets
G_NAME0 = G_REF + 1                                # naming glyph of GSUB feature i = G_NAME0 + i
DIRS = "lrtb"


def enabled_in(tag, d, default_shaper):
    """True / False / None (= depends on the shaper, not checked)"""
    e = ENABLED[tag]
    if e == "all":
        return True
    if e == "never":
        return False
    if e in ("l", "r"):
        return d == e
    if e == "v":
        return d in "tb"
    if e == "h":
        # shapers add some of the horizontal features on their own in every direction (Arabic: clig, Indic: dist)
        return (d in "lr") if default_shaper else (True if d in "lr" else None)
    raise ValueError(e)


def rand_table_multi(r, table, script_tags, lang_universe, small=False):
    """abstract table in the format of rand_table; feature records are created per language system, so tags repeat.
    small: two or three tags only ('vert' always among them) — short fonts for readable replays"""
    pool = [t for t in MULTI_TAGS[table] if t != "rqd0"]
    if small:
        pool = ["vert"] + r.sample([t for t in pool if t != "vert"], r.range(1, 2))
    recs = []                                      # tag of record i (creation order)
    by_tag = {}
    def new(tag):
        recs.append(tag); by_tag.setdefault(tag, []).append(len(recs) - 1)
        return len(recs) - 1
    def langsys(tag):
        ls = {"tag": tag, "req": None, "feats": []}
        for t in pool:
            k = r.below(20)
            if k < 10:
                ls["feats"].append(new(t))                       # its own record
            elif k < 13 and by_tag.get(t):
                ls["feats"].append(r.choice(by_tag[t]))          # a record shared with another language system
            elif k < 14:
                a = new(t); b = new(t)                           # two records of one tag in one language system
                ls["feats"] += r.shuffle([a, b])
            if r.chance(1, 5):
                new(t)                                           # a record no language system lists
        if r.chance(1, 3):
            ls["feats"] = r.shuffle(ls["feats"])
        if r.chance(1, 8 if small else 4):
            ls["req"] = new("rqd0")
        return ls
    scripts = []
    for st in script_tags:
        sc = {"tag": st, "dflt": None, "langs": []}
        if r.chance(3, 4):
            sc["dflt"] = langsys(tg("dflt"))
        for lt in lang_universe:
            if r.chance(1, 3 if small else 2):
                sc["langs"].append(langsys(lt))
        sc["langs"].sort(key=lambda l: l["tag"])
        scripts.append(sc)
    scripts.sort(key=lambda x: x["tag"])
    # the FeatureList: "listed alphabetically by feature tag" (stable, so creation order inside a tag) — or as created
    order = list(range(len(recs)))
    sorted_list = not r.chance(1, 5)
    if sorted_list:
        order.sort(key=lambda i: tg(recs[i]))
    elif r.chance(1, 2):
        order = r.shuffle(order)
    pos = {old: new_ for new_, old in enumerate(order)}
    for sc in scripts:
        for ls in ([sc["dflt"]] if sc["dflt"] else []) + sc["langs"]:
            ls["feats"] = [pos[i] for i in ls["feats"]]
            if ls["req"] is not None:
                ls["req"] = pos[ls["req"]]
    feats = [recs[i] for i in order]
    return {"scripts": scripts, "feats": feats, "sorted": all(tg(a) <= tg(b) for a, b in zip(feats, feats[1:]))}


def recipe_multi(gsub, gpos):
    n = G_NAME0 + (len(gsub["feats"]) if gsub else 0) + 1
    rec = {"num_glyphs": n, "cmap": "pua"}
    def conv(tb, table):
        out = {"raw": True, "scripts": conv_scripts(tb), "features": [], "lookups": []}
        for i, ft in enumerate(tb["feats"]):
            out["features"].append({"tag": ft, "lookups": feature_lookups(tb, i)})
            k = MULTI_TAGS[table].index(ft)
            if table == 0:
                out["lookups"].append({"type": 1, "subtables": [{"format": 2, "coverage": [G_GSUB0 + k], "subst": [G_NAME0 + i]}]})
            else:
                out["lookups"].append({"type": 1, "subtables": [{"format": 1, "coverage": [G_GPOS0 + k],
                                                                 "value": {"xPlacement": 10 + i}}]})
        return out
    if gsub is not None:
        rec["gsub"] = conv(gsub, 0)
    if gpos is not None:
        rec["gpos"] = conv(gpos, 1)
    return rec


MULTI_TEXT = ",".join(f"{0xE000 + g - 1:x}:{g}" for g in range(G_GSUB0, G_REF + 1))     # cluster = glyph id of the probe


def selected_sys(tb, sel):
    if tb is None or sel is None:
        return None
    si, li, _ = sel
    sc = tb["scripts"][si]
    return sc["dflt"] if li is None else sc["langs"][li]


def selected_malformations(c, sel):
    """which malformations sit in the language systems the case SELECTS (distribution keys)"""
    ks = []
    for name, tb, se in (("gsub", c["gsub"], sel[0]), ("gpos", c["gpos"], sel[1])):
        sys = selected_sys(tb, se)
        if sys is None:
            continue
        n = len(tb["feats"])
        f = sys["feats"]
        dang = [i for i, x in enumerate(f) if x >= n]
        real = [i for i, x in enumerate(f) if x < n]
        if dang:
            ks.append(f"selected:{name}:dangling-feature-index")
            if dang[0] == 0:
                ks.append(f"selected:{name}:dangling-first")
            if dang[-1] == len(f) - 1:
                ks.append(f"selected:{name}:dangling-last")
            if any(0 < i < len(f) - 1 for i in dang):
                ks.append(f"selected:{name}:dangling-middle")
            if real and dang[0] < real[-1]:
                ks.append(f"selected:{name}:dangling-before-valid")
        if len(set(f)) < len(f):
            ks.append(f"selected:{name}:duplicate-feature-index")
        if sys.get("share") is not None:
            ks.append(f"selected:{name}:shared-langsys")
        if sys["req"] is not None and sys["req"] >= n:
            ks.append(f"selected:{name}:required-dangling")
        if any(any(x >= n for x in tb.get("flk", {}).get(i, [])) for i in f if i < n):
            ks.append(f"selected:{name}:dangling-lookup-index")
    return ks


def describe_selected(c, sel):
    """the selected language systems in words, for the replay"""
    out = {}
    for name, tb, se in (("gsub", c["gsub"], sel[0]), ("gpos", c["gpos"], sel[1])):
        sys = selected_sys(tb, se)
        if sys is None:
            out[name] = None
            continue
        n = len(tb["feats"])
        out[name] = {"feature_count": n, "langsys_tag": untag(sys["tag"]), "required": sys["req"],
                     "feature_indices": list(sys["feats"]),
                     "their_tags": [tb["feats"][i] if i < n else "DANGLING" for i in sys["feats"]],
                     "lookup_indices_of_listed_features": {str(i): feature_lookups(tb, i) for i in sys["feats"] if i < n}}
    return out


def expected_multi(gsub, gpos, sel, d, default_shaper):
    """(table, tag) -> index of the feature record shape() must apply | None (none) | "?" (not checked).
    From the OpenType / HarfBuzz rule, not from the crate: the record the SELECTED language system lists under the tag
    (first listed); only 'vert', only when no table's language system lists it: the first 'vert' of the FeatureList."""
    tbs = (gsub, gpos)
    exp = {}
    for table in (0, 1):
        for tag in MULTI_TAGS[table]:
            exp[(table, tag)] = None
    for tag in sorted(set(MULTI_GSUB + MULTI_GPOS)):
        if tag == "rqd0":
            for table in (0, 1):
                tb = tbs[table]
                if tb is not None and sel[table] is not None and sel[table][2] is not None and sel[table][2] < len(tb["feats"]):
                    exp[(table, tag)] = sel[table][2]
            continue
        en = enabled_in(tag, d, default_shaper)
        if en is None:
            for table in (0, 1):
                if tag in MULTI_TAGS[table]:
                    exp[(table, tag)] = "?"
            continue
        if not en:
            continue
        listed = {}
        for table in (0, 1):
            sys = selected_sys(tbs[table], sel[table])
            listed[table] = None
            if sys is not None:
                for fi in sys["feats"]:
                    if fi < len(tbs[table]["feats"]) and tbs[table]["feats"][fi] == tag:
                        listed[table] = fi; break
        if tag == "vert" and listed[0] is None and listed[1] is None:
            for table in (0, 1):
                tb = tbs[table]
                if tb is not None and tag in tb["feats"]:
                    # an unsorted FeatureList breaks the table's contract ("listed alphabetically by feature tag"; the
                    # crate binary searches it, HarfBuzz scans it): some 'vert' record or none, not checked
                    listed[table] = tb["feats"].index(tag) if tb["sorted"] else "?"
        for table in (0, 1):
            if tag in MULTI_TAGS[table]:
                exp[(table, tag)] = listed[table]
    return exp


def observed_multi(reply, gsub, gpos):
    """shape reply -> (table, tag) -> applied record index | None ; or a string describing a malformed reply"""
    m = reply.split()
    if len(m) < 2 or m[0] != "ok":
        return "no output: " + reply[:80]
    by_cluster = {}
    for x in m[2:]:
        f = x.split(":")
        by_cluster.setdefault(int(f[1]), []).append((int(f[0]), int(f[5])))
    if sorted(by_cluster) != list(range(G_GSUB0, G_REF + 1)) or any(len(v) != 1 for v in by_cluster.values()):
        return "glyph count / clusters changed"
    ref_gid, ref_xo = by_cluster[G_REF][0]
    if ref_gid != G_REF:
        return "reference glyph substituted"
    got = {}
    for k, tag in enumerate(MULTI_GSUB):
        gid, xo = by_cluster[G_GSUB0 + k][0]
        if gid == G_GSUB0 + k:
            got[(0, tag)] = None
        else:
            i = gid - G_NAME0
            if gsub is None or not (0 <= i < len(gsub["feats"])) or gsub["feats"][i] != tag:
                return f"GSUB probe of '{tag}' became glyph {gid}"
            got[(0, tag)] = i
        if xo != ref_xo:
            return f"GSUB probe of '{tag}' was moved"
    for k, tag in enumerate(MULTI_GPOS):
        gid, xo = by_cluster[G_GPOS0 + k][0]
        if gid != G_GPOS0 + k:
            return f"GPOS probe of '{tag}' was substituted"
        if xo == ref_xo:
            got[(1, tag)] = None
        else:
            i = xo - ref_xo - 10
            if gpos is None or not (0 <= i < len(gpos["feats"])) or gpos["feats"][i] != tag:
                return f"GPOS probe of '{tag}' moved by {xo - ref_xo}"
            got[(1, tag)] = i
    return got


def multi_cases(ctx, r, shim):
    import fontbuild
    tl = tag_lists(shim, MULTI_SCRIPTS, MULTI_LANGS)
    cases = []
    for n in range(ctx.budget(1600, 40000)):
        s = r.choice(MULTI_SCRIPTS); l = r.choice(MULTI_LANGS)
        st, lt = tl[(s, l)]
        small = r.chance(1, 2)
        universe = list(dict.fromkeys(tl[(s, "-")][0] + [tg("DFLT"), tg("latn")]))
        if small:
            universe = universe[:1] + [tg("DFLT")]
        present = [t for t in universe if r.chance(1, 2)] or [r.choice(universe)]
        lang_universe = list(dict.fromkeys(lt + [tg("JAN "), tg("KOR "), tg("ZHS "), tg("AAA ")]))
        if small:
            lang_universe = lang_universe[:3]
        gsub = rand_table_multi(r, 0, present, lang_universe, small)
        gpos = (rand_table_multi(r, 1, [t for t in universe if r.chance(1, 2)], lang_universe, small)
                if r.chance(1, 4 if small else 2) else None)
        if r.chance(1, 12):
            gsub, gpos = None, rand_table_multi(r, 1, present, lang_universe, small)
        c = {"gsub": gsub, "gpos": gpos, "script": s, "lang": l, "st": st, "lt": lt, "kind": "multi",
             "dir": DIRS[n % 4]}
        c["hex"] = fontbuild.build(recipe_multi(gsub, gpos)).hex()
        c["abs"] = abstract(gsub) + "/" + abstract(gpos)
        cases.append(c)
    # the same kinds of fonts, malformed but accepted (see malform_table), GSUB and GPOS independently; here also with
    # script / language-system records out of order or duplicated (the selection is the model's, tied by tag-select)
    rm = ctx.rng("multi-malformed")
    for n in range(ctx.budget(900, 20000)):
        s = rm.choice(MULTI_SCRIPTS); l = rm.choice(MULTI_LANGS)
        st, lt = tl[(s, l)]
        small = rm.chance(1, 2)
        universe = list(dict.fromkeys(tl[(s, "-")][0] + [tg("DFLT"), tg("latn")]))
        if small:
            universe = universe[:1] + [tg("DFLT")]
        present = [t for t in universe if rm.chance(1, 2)] or [rm.choice(universe)]
        if rm.chance(1, 6):
            present = [tg("DFLT")]
        lang_universe = list(dict.fromkeys(lt + [tg("JAN "), tg("KOR "), tg("ZHS "), tg("AAA ")]))
        if small:
            lang_universe = lang_universe[:3]
        gsub = rand_table_multi(rm, 0, present, lang_universe, small)
        gpos = (rand_table_multi(rm, 1, [t for t in universe if rm.chance(1, 2)] or [tg("DFLT")], lang_universe, small)
                if rm.chance(1, 3 if small else 2) else None)
        if rm.chance(1, 10):
            gsub, gpos = None, rand_table_multi(rm, 1, present, lang_universe, small)
        mal = []
        for tb, name in ((gsub, "gsub"), (gpos, "gpos")):
            if tb is not None and rm.chance(4, 5):
                mal += [f"{name}:{k}" for k in malform_table(rm, tb, records=True)]
        c = {"gsub": gsub, "gpos": gpos, "script": s, "lang": l, "st": st, "lt": lt, "kind": "multi",
             "dir": DIRS[n % 4], "mal": mal}
        c["hex"] = fontbuild.build(recipe_multi(gsub, gpos)).hex()
        c["abs"] = abstract(gsub) + "/" + abstract(gpos)
        cases.append(c)
    return cases


def multi_check(c, plan_line, reply):
    """-> (expected, observed, list of differing (table, tag)) ; expected None when the model gave no selection"""
    f = plan_line.split()
    if len(f) != 3 or plan_line.startswith("panic"):
        return None, None, []
    sel = [parse_sel(f[1]), parse_sel(f[2])]
    exp = expected_multi(c["gsub"], c["gpos"], sel, c["dir"], c["script"] in DEFAULT_SHAPER_SCRIPTS)
    got = observed_multi(reply, c["gsub"], c["gpos"])
    if isinstance(got, str):
        return exp, got, ["malformed"]
    diff = []
    for k in sorted(exp):
        e = exp[k]
        if e == "?":
            continue
        if got[k] != e:
            diff.append(k)
    return exp, got, diff


def show_multi(m):
    if not isinstance(m, dict):
        return str(m)
    return " ".join(f"{'GSUB' if t == 0 else 'GPOS'}.{tag}={'-' if v is None else v}" for (t, tag), v in sorted(m.items())
                    if v is not None)


def stream_resolve(ctx, r, cases, mcases):
    """tag-select correspondence, continued: find_language_feature on the multi-record fonts, and the feature indices
    of the compiled plan (ShapePlan::new, all four directions) against Tag.planFeatures = Map's compiler over the
    records Tag selects. Returns the requests with their cases (the resolve-plan search judges the crate's replies)."""
    lines, kind, reqs = [], {}, []
    for c in mcases:
        tb = c["gsub"] if c["gsub"] is not None else c["gpos"]
        t = 0 if c["gsub"] is not None else 1
        if tb["scripts"]:
            for _ in range(2):
                si = r.below(len(tb["scripts"]))
                nl = len(tb["scripts"][si]["langs"])
                li = "-" if (nl == 0 or r.chance(1, 3)) else str(r.below(nl))
                tag = r.choice(MULTI_TAGS[t])
                ln = f"tagfeat {c['hex']} {c['abs']} {t} {si} {li} {tg(tag)}"
                lines.append(ln); kind[ln] = "multi" + ("+malformed" if c.get("mal") else "")
                reqs.append({"line": ln, "cmd": "tagfeat", "case": c, "t": t, "si": si,
                             "li": None if li == "-" else int(li), "tag": tag})
    # every tag of every language system of the malformed single-record fonts, both tables
    for c in cases:
        if c["kind"] != "malformed":
            continue
        for t, tb in ((0, c["gsub"]), (1, c["gpos"])):
            if tb is None or not tb["scripts"] or not r.chance(1, 2):
                continue
            si = r.below(len(tb["scripts"]))
            nl = len(tb["scripts"][si]["langs"])
            li = "-" if (nl == 0 or r.chance(1, 3)) else str(r.below(nl))
            tag = r.choice([REG_TAG[t], REG_TAG[t], "zzz0", "rqd0", "none"])
            ln = f"tagfeat {c['hex']} {c['abs']} {t} {si} {li} {tg(tag)}"
            lines.append(ln); kind[ln] = "single+malformed"
            reqs.append({"line": ln, "cmd": "tagfeat", "case": c, "t": t, "si": si,
                         "li": None if li == "-" else int(li), "tag": tag})
    every = sorted(set(MULTI_GSUB + MULTI_GPOS + ["ccmp", "dist", "zzz0", "rqd0", "rqd1", "liga", "kern", "rvrn", "frac", "none"]))
    for c in mcases + [c for c in cases if c["kind"] in ("sorted", "malformed")]:
        multi = c["kind"] == "multi"
        d = DIRS.index(c["dir"]) if multi else r.below(4)
        # the model knows the feature list of a shaper without features of its own; under the other shapers only the
        # tags every shaper leaves as ot_shape.rs registers them
        default = c["script"] in DEFAULT_SHAPER_SCRIPTS
        tags = every if default else sorted(SHAPER_INDEPENDENT)
        ln = (f"tagresolve {c['hex']} {c['abs']} {d} {tg(c['script'])} {'-' if c['lang'] == '-' else hx(c['lang'])} "
              + ",".join(str(tg(t)) for t in tags))
        lines.append(ln)
        kind[ln] = (("multi" if multi else "single") + ("+malformed" if c.get("mal") else "") + ":"
                    + ("default-shaper" if default else "other-shaper"))
        reqs.append({"line": ln, "cmd": "tagresolve", "case": c, "d": d, "tags": tags, "default": default})

    vert = tg("vert")
    def classify(ln, out):
        t = ln.split()
        ks = [t[0], t[0] + ":" + kind[ln]]
        if t[0] == "tagfeat":
            ks.append("tagfeat:" + ("found" if out not in ("-", "notable") else out))
        if t[0] == "tagresolve" and not out.startswith("panic"):
            ks.append("tagresolve:dir" + t[3])
            tags = t[6].split(",")
            o = out.split()
            if len(o) == len(tags):
                n = sum(1 for x in o if x not in ("x", "-/-"))
                ks.append("tagresolve:resolved" + (str(n) if n < 4 else "4+"))
                if str(vert) in tags:
                    ks.append("tagresolve:vert=" + ("x" if o[tags.index(str(vert))] == "x" else "index"))
        return ks
    ctx.correspond("tag-select", lines=lines, classify=classify, canon=canon)
    return reqs


# ----------------------------------------------------------------------------------------------
# the crate's find_language_feature / compiled plan judged from the recipe (no model involved except for the selection)

def first_listed(tb, sys, tag):
    """OpenType / HarfBuzz (hb_ot_layout_language_find_feature): the first index the language system lists whose feature
    record EXISTS and carries the tag; indices past the FeatureList are passed over"""
    if tb is None or sys is None:
        return None
    for fi in sys["feats"]:
        if fi < len(tb["feats"]) and tb["feats"][fi] == tag:
            return fi
    return None


def expected_tagfeat(q):
    c = q["case"]
    tb = c["gsub"] if q["t"] == 0 else c["gpos"]
    if tb is None:
        return ["notable"]
    if q["si"] >= len(tb["scripts"]):
        return ["-"]
    sc = tb["scripts"][q["si"]]
    sys = sc["dflt"] if q["li"] is None else (sc["langs"][q["li"]] if q["li"] < len(sc["langs"]) else None)
    fi = first_listed(tb, sys, q["tag"])
    return ["-" if fi is None else str(fi)]


def expected_tagresolve(q, plan_line):
    """per requested tag: list of acceptable replies | None (not judged)"""
    c = q["case"]
    f = plan_line.split()
    if len(f) != 3 or plan_line.startswith("panic"):
        return None
    sel = [parse_sel(f[1]), parse_sel(f[2])]
    tbs = (c["gsub"], c["gpos"])
    d = DIRS[q["d"]]
    exp = []
    for tag in q["tags"]:
        if tag not in ENABLED:
            exp.append(None); continue
        en = enabled_in(tag, d, q["default"])
        if not en:                        # not registered in this direction, or up to the shaper: not judged here
            exp.append(None); continue
        l = [first_listed(tbs[t], selected_sys(tbs[t], sel[t]), tag) for t in (0, 1)]
        if l == [None, None]:
            if tag == "vert":             # the global search
                g = []
                for tb in tbs:
                    if tb is None or tag not in tb["feats"]:
                        g.append(None)
                    elif tb.get("sorted", all(tg(a) <= tg(b) for a, b in zip(tb["feats"], tb["feats"][1:]))):
                        g.append(tb["feats"].index(tag))
                    else:
                        g = None; break
                if g is None:
                    exp.append(None); continue
                l = g
            if l == [None, None]:
                exp.append(["x", "-/-"]); continue
        exp.append(["/".join("-" if x is None else str(x) for x in l)])
    return exp


def judge_tagresolve(exp, reply):
    """-> indices of the requested tags whose reply is not acceptable"""
    o = reply.split()
    if exp is None:
        return []
    if len(o) != len(exp):
        return list(range(len(exp)))
    return [i for i, (e, x) in enumerate(zip(exp, o)) if e is not None and x not in e]


def search_resolve_plan(ctx, reqs):
    """find_language_feature and the compiled plan's feature indices on the generated fonts, judged from the recipe:
    exactly the existing listed features (first listed first) — whatever dangles or is duplicated around them"""
    shim = vlib.build_harness()
    model = vlib.build_model()
    res = [q for q in reqs if q["cmd"] == "tagresolve"]
    plan_lines = [f"tagplan {q['case']['hex']} {q['case']['abs']} {q['d']} {tg(q['case']['script'])} "
                  f"{'-' if q['case']['lang'] == '-' else hx(q['case']['lang'])}" for q in res]
    plans = dict(zip((id(q) for q in res), vlib.run_lines(model, plan_lines)))
    outs = vlib.run_lines(shim, [q["line"] for q in reqs])
    dist = {}
    def bump(k):
        dist[k] = dist.get(k, 0) + 1
    failing = {"tagfeat": [], "tagresolve": []}
    nontriv = 0
    for q, o in zip(reqs, outs):
        c = q["case"]
        if q["cmd"] == "tagfeat":
            exp = expected_tagfeat(q)
            bump("tagfeat:" + ("found" if exp[0] not in ("-", "notable") else "not-found") + ("+malformed" if c.get("mal") else ""))
            if exp[0] not in ("-", "notable"):
                nontriv += 1
            if o not in exp:
                failing["tagfeat"].append((len(c["hex"]), len(failing["tagfeat"]), q, o, exp, None))
        else:
            p = plans[id(q)]
            exp = expected_tagresolve(q, p)
            if exp is None:
                bump("tagresolve:no-selection"); continue
            sel = [parse_sel(x) for x in p.split()[1:]]
            bump("tagresolve" + ("+malformed" if c.get("mal") else ""))
            for k in selected_malformations(c, sel):
                bump(k)
            if any(e is not None and e != ["x", "-/-"] for e in exp):
                nontriv += 1
            badtags = judge_tagresolve(exp, o)
            if badtags:
                failing["tagresolve"].append((len(c["hex"]), len(failing["tagresolve"]), q, o, exp, (p, sel, badtags)))
    for cmd in ("tagfeat", "tagresolve"):
        for _, _, q, o, exp, extra in sorted(failing[cmd], key=lambda x: x[:2])[:1]:     # the smallest font of each kind
            c = q["case"]
            if cmd == "tagfeat":
                tb = c["gsub"] if q["t"] == 0 else c["gpos"]
                sc = tb["scripts"][q["si"]]
                sys = sc["dflt"] if q["li"] is None else sc["langs"][q["li"]]
                n = len(tb["feats"])
                ctx.violation(f"find_language_feature({'GSUB' if q['t'] == 0 else 'GPOS'}, script record {q['si']}, language system "
                              f"{'default' if q['li'] is None else q['li']}, '{q['tag']}') = {o}, expected {exp[0]}: the language "
                              f"system lists {sys['feats'] if sys else None} (FeatureCount {n}: "
                              f"{[tb['feats'][i] if i < n else 'DANGLING' for i in (sys['feats'] if sys else [])]})",
                              {"stage": "search", "stream": "resolve-plan", "request": q["line"], "expected": exp, "observed": o,
                               "feature_list": tb["feats"], "langsys_feature_indices": sys["feats"] if sys else None,
                               "malformations": c.get("mal", [])})
            else:
                p, sel, badtags = extra
                what = ", ".join(f"'{q['tags'][i]}': plan has {o.split()[i] if i < len(o.split()) else '?'} (GSUB/GPOS record), expected {' or '.join(exp[i])}"
                                 for i in badtags[:4])
                ctx.violation(f"the compiled plan does not point to the feature records the selected language systems list: script "
                              f"{c['script']} language {c['lang']} direction {DIRS[q['d']]}: {what}",
                              {"stage": "search", "stream": "resolve-plan", "request": q["line"], "expected": exp, "observed": o,
                               "model_selection": p, "selected_language_systems": describe_selected(c, sel),
                               "feature_list": {"gsub": c["gsub"]["feats"] if c["gsub"] else None,
                                                "gpos": c["gpos"]["feats"] if c["gpos"] else None},
                               "malformations": c.get("mal", [])})
    ctx.note_search("resolve-plan", len(reqs), nontriv, distribution=dist,
                    mismatches={k: len(v) for k, v in failing.items()},
                    rule="the tagfeat / tagresolve requests of the tag-select stream, the crate's replies judged from the recipe alone: "
                         "find_language_feature returns the first index the language system lists whose feature record exists and "
                         "carries the tag (indices past the FeatureList are passed over, wherever they stand); every feature map of "
                         "the compiled plan (ShapePlan::new, four directions, 12 scripts x 9 languages) whose tag the direction "
                         "enables points to exactly those records in GSUB and in GPOS, 'vert' to the first FeatureList record when "
                         "no selected language system lists one; fonts: the select-shape and resolve-shape fonts incl. the malformed "
                         "ones (dangling / duplicated feature indices first / middle / last, dangling required and lookup indices, "
                         "shared LangSys tables, unsorted and duplicated records, missing default language systems, DFLT only); "
                         "non-trivial = some record expected")


def search_resolve_shape(ctx, cases):
    """end to end over the multi-record fonts, all four directions: per tag, shape() applies the record the selected
    language system lists; a record it does not list only for 'vert' when no language system lists one"""
    shim = vlib.build_harness()
    model = vlib.build_model()
    plan_lines = [f"tagplan {c['hex']} {c['abs']} {DIRS.index(c['dir'])} {tg(c['script'])} {'-' if c['lang'] == '-' else hx(c['lang'])}"
                  for c in cases]
    plans = vlib.run_lines(model, plan_lines)
    groups = []
    for i, c in enumerate(cases):
        lang = "-" if c["lang"] == "-" else hx(c["lang"])
        groups.append([f"font m{i} {c['hex']}", f"shape m{i} {c['dir']} {c['script']} {lang} 0 0 - - - {MULTI_TEXT}", f"fontdrop m{i}"])
    outs = vlib.run_groups(shim, groups)
    dist = {}
    bad = 0
    nontriv = 0
    failing = []
    def bump(k):
        dist[k] = dist.get(k, 0) + 1
    for c, p, o in zip(cases, plans, outs):
        exp, got, diff = multi_check(c, p, o[1])
        if exp is None:
            bump("no-selection"); continue
        bump("dir:" + c["dir"])
        vert = [exp[(t, "vert")] for t in (0, 1)]
        if c["dir"] in "tb":
            sel = [parse_sel(x) for x in p.split()[1:]]
            sysl = [selected_sys(tb, s_) for tb, s_ in zip((c["gsub"], c["gpos"]), sel)]
            listed = any(sy is not None and any(fi < len(tb["feats"]) and tb["feats"][fi] == "vert" for fi in sy["feats"])
                         for tb, sy in zip((c["gsub"], c["gpos"]), sysl) if tb is not None)
            nrec = sum(tb["feats"].count("vert") for tb in (c["gsub"], c["gpos"]) if tb is not None)
            bump("vert:" + ("listed" if listed else ("global" if any(v is not None for v in vert) else "absent"))
                 + (":several-records" if nrec > 1 else ""))
        if any(v not in (None, "?") for v in exp.values()):
            nontriv += 1
        if c.get("mal"):
            bump("malformed")
            for k in c["mal"]:
                bump("font:" + k)
            for k in selected_malformations(c, [parse_sel(x) for x in p.split()[1:]]):
                bump(k)
        if diff:
            bad += 1
            failing.append((len(c["hex"]), len(failing), c, p, o, exp, got, diff))
    # the smallest failing fonts are reported
    for _, _, c, p, o, exp, got, diff in sorted(failing, key=lambda x: x[:2])[:3]:
        what = ", ".join(f"{'GSUB' if k[0] == 0 else 'GPOS'} '{k[1]}': expected record {exp[k]}, applied {got[k] if isinstance(got, dict) else got}"
                         for k in diff if k != "malformed") or str(got)
        ctx.violation(f"shape() does not apply the feature records of the selected language system: script {c['script']} "
                      f"language {c['lang']} direction {c['dir']}: {what}",
                      {"stage": "search", "stream": "resolve-shape", "font_hex": c["hex"], "abstract": c["abs"],
                       "script": c["script"], "lang": c["lang"], "dir": c["dir"], "model_selection": p,
                       "feature_list": {"gsub": c["gsub"]["feats"] if c["gsub"] else None,
                                        "gpos": c["gpos"]["feats"] if c["gpos"] else None},
                       "sorted": [c["gsub"]["sorted"] if c["gsub"] else None, c["gpos"]["sorted"] if c["gpos"] else None],
                       "expected": show_multi(exp), "observed_records": show_multi(got),
                       "differs": [list(k) if k != "malformed" else k for k in diff], "observed": o[1],
                       "malformations": c.get("mal", []),
                       "selected_language_systems": describe_selected(c, [parse_sel(x) for x in p.split()[1:]])})
    ctx.note_search("resolve-shape", len(cases), nontriv, distribution=dist, mismatches=bad,
                    rule="synthetic fonts whose FeatureList holds several records per tag (one per language system, shared "
                         "records, two of one tag in one language system, records no language system lists; sorted by tag, "
                         "1/5 unsorted), each record substituting (GSUB) / moving (GPOS) the probe glyph of its tag in a way that "
                         "names the record; shape() in the four directions under 12 scripts x 9 languages; per tag that the "
                         "direction enables the applied record must be the first one the selected language system lists, for "
                         "'vert' (vertical) the first record of the FeatureList when no table's language system lists one, "
                         "nothing for tags the direction does not enable; the required feature always; plus the same fonts "
                         "malformed but accepted (dangling / duplicated feature indices at the first, a middle, the last position "
                         "of a language system's array, dangling required and lookup indices, LangSys tables shared between "
                         "records, script / language-system records unsorted or duplicated, default language systems missing, "
                         "DFLT only; GSUB and GPOS independently): exactly the EXISTING listed records take part, whatever "
                         "stands before them; non-trivial = some record expected")


# ----------------------------------------------------------------------------------------------

def run(ctx):
    ctx.assumptions += [
        "the theorems are about the Lean model of tag.rs / tag_table.rs / LayoutTableExt / hb_ot_map_builder_t::new; the "
        "model is tied to the crate by the tags / tag-prims / tag-select streams (str slicing panics compared by kind)",
        "the language table is the one compiled into the crate (hook dump); tags_from_complex_language is transcribed "
        "from the Rust source as a decision list; the registry content itself is taken as shipped except for the "
        "hand-checked pairs of C18_wellknown",
        "Rust's str::find / starts_with / match_indices / binary_search_by are modelled (first match, non-overlapping "
        "matches, the rustc 1.95 loop), ttf-parser's record lists are abstract lists of records",
        "feature-record resolution: Tag.planFeatures = C14's model of collect_feature_maps (Map.lean) over the records "
        "Tag.lean selects; the feature list of the plan is the one of a shaper without features of its own "
        "(Map.planBuilder), so under the other shapers the tagresolve stream compares only the tags every shaper leaves as "
        "ot_shape.rs registers them; FeatureLists that are not sorted by tag are outside the global-search oracle of "
        "resolve-shape (the crate binary searches them, HarfBuzz scans them)",
    ]
    ctx.regen()
    ctx.prove(MODULE)
    shim = vlib.build_harness()
    rows = lang_table(shim)
    pre, branch = complex_rules()
    scripts = script_constants()
    stream_tags(ctx, ctx.rng("tags"), rows, pre, branch, scripts)
    stream_prims(ctx, ctx.rng("prims"), rows, pre, branch, scripts)
    stream_script_iso(ctx, ctx.rng("script-iso"), scripts)
    cases = select_cases(ctx, ctx.rng("select-fonts"), shim)
    mcases = multi_cases(ctx, ctx.rng("multi-fonts"), shim)
    stream_select(ctx, ctx.rng("select"), cases)
    reqs = stream_resolve(ctx, ctx.rng("resolve"), cases, mcases)
    search_registry(ctx, shim, rows)
    search_wellknown(ctx, shim)
    search_bcp47(ctx, shim, rows)
    search_script_tags(ctx, shim, scripts)
    search_total(ctx, shim, ctx.rng("total"), rows, branch, ctx.budget(4000, 300000))
    search_script_case(ctx, shim, scripts)
    search_script_garbage(ctx, shim, ctx.rng("script-garbage"), scripts, ctx.budget(4000, 200000))
    search_shape(ctx, cases)
    acases = alias_cases(ctx, ctx.rng("alias-fonts"), shim)
    stream_alias_plan(ctx, acases)
    search_alias_shape(ctx, acases)
    search_resolve_shape(ctx, mcases)
    search_resolve_plan(ctx, reqs)


def replay(ctx, rp):
    shim = vlib.build_harness()
    if rp.get("stream") == "select-shape":
        lang = "-" if rp["lang"] == "-" else hx(rp["lang"])
        o = vlib.run_groups(shim, [[f"font f {rp['font_hex']}", f"shape f l {rp['script']} {lang} 0 0 - - - {TEXT}"]], nproc=1)[0]
        print("impl    :", o[1]); print("expected:", rp["expected"], "(selection by the model:", rp["model_selection"], ")")
        m = o[1].split()
        if len(m) != 6 or m[0] != "ok":
            return 1
        g = [x.split(":") for x in m[2:]]
        got = {"A": int(g[0][0]), "B": int(g[1][0]), "C": int(g[2][3]), "D": int(g[3][3])}
        return 0 if got == rp["expected"] else 1
    if rp.get("stream") == "alias-shape":
        lang = "-" if rp["lang"] == "-" else hx(rp["lang"])
        o = vlib.run_groups(shim, [[f"font f {rp['font_hex']}", f"shape f l {rp['script']} {lang} 0 0 - - - {TEXT}",
                                    f"shape f l {rp['parent']} {lang} 0 0 - - - {TEXT}"]], nproc=1)[0]
        print(f"script '{rp['script']}':", o[1]); print(f"script '{rp['parent']}':", o[2])
        print("expected:", rp["expected"], "(selection by the model for the parent:", rp["model_selection_for_parent"], ")")
        return 0 if alias_shape_got(o[1]) == rp["expected"] else 1
    if rp.get("stream") in ("script-case", "script-reference"):
        a = vlib.run_lines(shim, [rp["request"]], nproc=1)[0]
        print(rp["call"], "->", a, f"('{untag(int(a))}')" if a.isdigit() else "", "expected", rp["expected"],
              f"('{rp['expected_script']}')" if "expected_script" in rp else "")
        return 0 if a == rp["expected"] else 1
    if rp.get("stream") == "resolve-shape":
        lang = "-" if rp["lang"] == "-" else hx(rp["lang"])
        o = vlib.run_groups(shim, [[f"font f {rp['font_hex']}", f"shape f {rp['dir']} {rp['script']} {lang} 0 0 - - - {MULTI_TEXT}"]], nproc=1)[0]
        fl = rp["feature_list"]
        tb = [None if fl[k] is None else {"feats": fl[k]} for k in ("gsub", "gpos")]
        got = observed_multi(o[1], tb[0], tb[1])
        print("impl    :", o[1])
        print("applied :", show_multi(got))
        print("expected:", rp["expected"], "(selection by the model:", rp["model_selection"], ")")
        if not isinstance(got, dict):
            return 1
        # the records named in `expected` and nothing else, except where the oracle does not decide ('?')
        exp = {}
        for item in rp["expected"].split():
            k, v = item.split("=")
            exp[k] = v
        for (t, tag), v in got.items():
            k = f"{'GSUB' if t == 0 else 'GPOS'}.{tag}"
            e = exp.get(k)
            if e == "?":
                continue
            if (e is None) != (v is None) or (e is not None and int(e) != v):
                return 1
        return 0
    if rp.get("stream") == "resolve-plan":
        a = vlib.run_lines(shim, [rp["request"]], nproc=1)[0]
        print("impl    :", a)
        print("expected:", rp["expected"])
        if rp["request"].startswith("tagfeat"):
            return 0 if a in rp["expected"] else 1
        return 1 if judge_tagresolve(rp["expected"], a) else 0
    if "request" in rp:
        a = vlib.run_lines(shim, [rp["request"]], nproc=1)[0]
        print("impl :", a)
        if rp.get("stream") in ("script-tags",):
            return 0 if a == rp["expected"] else 1
        if rp.get("stream") == "select-shape":
            pass
        if rp.get("stream") in ("registry-complete", "wellknown"):
            m = re.match(r"ok s:\S+ l:(\S+)", a)
            got = [] if not m or m.group(1) == "-" else [int(x) for x in m.group(1).split(",")]
            want = rp["expected_first_tag"]
            return 0 if ((got[:1] == [want]) if want else got == []) else 1
        if rp.get("stream") == "tag-total":
            return 1 if a.startswith("panic") else 0
        model = vlib.build_model()
        b = vlib.run_lines(model, [rp["request"]], nproc=1)[0]
        print("model:", b)
        return 0 if canon(a) == canon(b) else 1
    print(rp)
    return 1
