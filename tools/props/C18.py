"""C18 — script and language select the font's script / language-system records; tag part of C01 (totality)."""
import os, re, json
import vlib

MODULE = "RbModel.Props.C18"
LEVEL = "proof"


# ----------------------------------------------------------------------------------------------
# helpers

def hx(s):
    if isinstance(s, str):
        s = s.encode("utf-8")
    return "x" + s.hex()


def tg(s):
    """4 chars -> u32"""
    b = s.encode("latin-1") if isinstance(s, str) else s
    b = (b + b"    ")[:4]
    return (b[0] << 24) | (b[1] << 16) | (b[2] << 8) | b[3]


def untag(t):
    return bytes([(t >> 24) & 255, (t >> 16) & 255, (t >> 8) & 255, t & 255]).decode("latin-1")


def canon(x):
    """panic <file>:<line> <msg>  ->  panic <kind>   (the model prints the kind)"""
    if x.startswith("panic "):
        if "char boundary" in x or "out of range" in x or "byte index" in x or "out of bounds of" in x:
            return "panic slice"
        if "index out of bounds" in x:
            return "panic oob"
        if x in ("panic slice", "panic oob"):
            return x
        return "panic other:" + x[6:80]
    return x


def lang_table(shim):
    out = vlib.run_lines(shim, ["langtable"], nproc=1)[0]
    rows = []
    for item in out.split():
        h, t = item.split(":")
        rows.append((bytes.fromhex(h).decode(), int(t)))
    return rows


def complex_rules():
    import importlib, sys
    gdir = os.path.join(vlib.ROOT, "tools", "gens")
    if gdir not in sys.path:
        sys.path.insert(0, gdir)
    lang = importlib.import_module("lang")
    src = open(os.path.join(vlib.REPO, "src", "hb", "tag_table.rs"), encoding="utf-8").read()
    return lang.parse_complex(src)


def script_constants():
    src = open(os.path.join(vlib.REPO, "src", "hb", "common.rs"), encoding="utf-8").read()
    return sorted(set(re.findall(r'Script::from_bytes\(b"(....)"\)', src)))


MULTI = ["é", "ß", "€", "한", "😀", "\u0301", "ı"]
REGIONS = ["US", "cn", "HK", "mo", "TW", "md", "001", "419", "th"]
SCRIPTS4 = ["Latn", "hant", "HANS", "Cyrl", "Geok", "syre", "Syrj", "syrn", "Arab"]
VARIANTS = ["fonipa", "fonnapa", "polyton", "arevmda", "provenc", "1996", "valencia", "fonipax"]


def decorate(r, s):
    k = r.below(12)
    if k == 0: return s
    if k == 1: return s + "-" + r.choice(REGIONS)
    if k == 2: return s + "-" + r.choice(SCRIPTS4)
    if k == 3: return s + "-" + r.choice(SCRIPTS4) + "-" + r.choice(REGIONS)
    if k == 4: return s + "-" + r.choice(VARIANTS)
    if k == 5: return s.upper()
    if k == 6: return "".join(c.upper() if r.chance(1, 2) else c for c in s) + "-" + r.choice(REGIONS).lower()
    if k == 7: return s + "-x-hbot" + rand_alnum(r, r.range(0, 5))
    if k == 8: return r.choice(["zh", "ar", "ms", "en", "xx", "i", "art"]) + "-" + s + r.choice(["", "-CN", "-hant"])
    if k == 9: return s + "-" + r.choice("abtu") + "-" + rand_alnum(r, 3) + r.choice(["", "-x-foo", "-x-hbsc" + rand_alnum(r, 4)])
    if k == 10: return s + "_" + r.choice(REGIONS)
    return s + "-" + rand_alnum(r, r.range(1, 8)).lower()


def rand_alnum(r, n):
    return "".join(r.choice("abcdxyzABCDXYZ0123456789") for _ in range(n))


def rand_text(r, n, alphabet="abcdehikmnorstuxyz-"):
    return "".join(r.choice(alphabet) for _ in range(n))


def with_multibyte(r, s):
    """insert / replace a multi-byte character at a random position"""
    m = r.choice(MULTI)
    i = r.range(0, len(s))
    if r.chance(1, 3) and i < len(s):
        return s[:i] + m + s[i + 1:]
    return s[:i] + m + s[i:]


def lang_strings(r, rows, pre, branch, n_random):
    """the language strings of the `tags` stream, with a class label each"""
    out = []
    langs = sorted(set(l for l, _ in rows))
    for l in langs:
        out.append(("registry", l))
    # strings that exercise every rule of tags_from_complex_language
    for ru in pre:
        sub = bytes(ru["s2"]).decode()
        for base in ("und", "en", "zh", "", "x"):
            out.append(("complex-pre", base + sub))
            out.append(("complex-pre", base + sub + "-x-foo"))
            out.append(("complex-pre", base + sub + "x"))
    for ru in branch:
        first = chr(ru["first"])
        s1 = bytes(ru["s1"]).decode()
        s2 = bytes(ru["s2"]).decode()
        if ru["kind"] in (1, 2):
            for suf in ("", "-xx", "x", "-"):
                out.append(("complex-branch", first + s1 + suf))
            out.append(("complex-branch", first + s1[:-1]))
        else:
            for mid in ("", "hant", "xx-", "xx"):
                for suf in ("", "-yy", "z"):
                    out.append(("complex-branch", first + s1 + mid + s2 + suf))
            out.append(("complex-branch", first + s1))
            out.append(("complex-branch", first + s1[:-1] + s2))
    # private use
    for head in ("x", "en-x", "zh-hant-x", "a-b-x", "-x", "x-x", "en-a-bcd-x"):
        for kind in ("hbot", "hbsc", "hbxx"):
            for t in ("", "a", "ab", "abc", "abcd", "abcde", "AbC1", "12", "a-b", "a_b", "dflt", "DFLT", "dFlT", "é", "aé"):
                out.append(("private", f"{head}-{kind}{t}"))
                out.append(("private", f"{head}-{kind}{t}-hbsc{t[::-1]}"))
                out.append(("private", f"{head}-foo-{kind}{t}-bar"))
    # fixed oddities
    for s in ("", "-", "--", "x", "x-", "-x-", "a", "a-", "-a", "a--b", "a-x", "a-x-", "-x-x-", "xyz", "xy", "wxyz",
              "abcde-fgh", "ab-cde-f", "zh-yue", "zh-yue-hk", "ar-aao", "ms-zsm", "sgn-ase", "no-bok", "no-nyn",
              "tr@foo=bar", "en_US", "zh-min-nan", "i-lux", "i-navajo", "i-hak", "art-lojban", "ro-md", "ro-x-md"):
        out.append(("odd", s))
    alpha = "abcdefghijklmnopqrstuvwxyz"
    for _ in range(n_random):
        k = r.below(10)
        if k <= 2:
            out.append(("decorated", decorate(r, r.choice(langs))))
        elif k == 3:
            out.append(("decorated2", decorate(r, decorate(r, r.choice(langs)))))
        elif k == 4:
            out.append(("random-ascii", rand_text(r, r.range(1, 12))))
        elif k == 5:
            out.append(("random-3", "".join(r.choice(alpha) for _ in range(r.range(2, 3)))))
        elif k == 6:
            out.append(("utf8-in-registry", with_multibyte(r, decorate(r, r.choice(langs)))))
        elif k == 7:
            out.append(("utf8-random", with_multibyte(r, rand_text(r, r.range(0, 8)))))
        elif k == 8:
            ru = r.choice(branch)
            s = chr(ru["first"]) + bytes(ru["s1"]).decode() + r.choice(["", "hant-", "xx"]) + bytes(ru["s2"]).decode()
            out.append(("utf8-in-complex", with_multibyte(r, s)))
        else:
            s = with_multibyte(r, with_multibyte(r, rand_text(r, r.range(0, 6), "acr-x")))
            out.append(("utf8-two", s))
    return out


def multibyte_everywhere(rows, branch):
    """every registry language / rule string with one multi-byte char inserted at EVERY position"""
    out = []
    bases = sorted(set(l for l, _ in rows))[::7] + ["a-b", "zh-hant-hk", "en-x-hbotabcd", "x-hbscdeva", "abc-def-ghi"]
    for ru in branch[::5]:
        bases.append(chr(ru["first"]) + bytes(ru["s1"]).decode() + bytes(ru["s2"]).decode())
    for b in bases:
        for i in range(len(b) + 1):
            for m in ("é", "€"):
                out.append(("utf8-everywhere", b[:i] + m + b[i:]))
    return out


# ----------------------------------------------------------------------------------------------
# streams

def stream_tags(ctx, r, rows, pre, branch, scripts):
    cases = lang_strings(r, rows, pre, branch, ctx.budget(12000, 250000))
    cases += multibyte_everywhere(rows, branch)
    lines, cls = [], {}
    for c, s in cases:
        k = r.below(4)
        sc = "-" if k == 0 else str(tg(r.choice(scripts))) if k < 3 else str(tg(rand_script(r)))
        ln = f"tags {sc} {hx(s)}"
        lines.append(ln); cls[ln] = c
    for s in scripts:
        lines.append(f"tags {tg(s)} -"); cls[lines[-1]] = "script-constant"
    for _ in range(ctx.budget(2000, 30000)):
        lines.append(f"tags {tg(rand_script(r))} -"); cls[lines[-1]] = "script-random"

    def classify(ln, out):
        ks = [cls.get(ln, "?")]
        if out.startswith("panic"):
            ks.append("reply:" + out)
        else:
            m = re.match(r"ok s:(\S+) l:(\S+)", out)
            if m:
                ks.append("scripts:%d" % (0 if m.group(1) == "-" else m.group(1).count(",") + 1))
                ks.append("langs:%d" % (0 if m.group(2) == "-" else m.group(2).count(",") + 1))
        return ks
    return ctx.correspond("tags", lines=lines, classify=classify, canon=canon)


def rand_script(r):
    k = r.below(4)
    if k == 0:
        return "".join(r.choice("ABCDEFGHIJKLMNOPQRSTUVWXYZ") if i == 0 else r.choice("abcdefghijklmnopqrstuvwxyz") for i in range(4))
    if k == 1:
        return "".join(r.choice("BDGKMOTHLYNVbdgkmot") + r.choice("eunlyraio") + r.choice("ngjrdmyaliok") + r.choice("gaurmluioa"))
    if k == 2:
        return "".join(chr(r.range(32, 126)) for _ in range(4)).replace(" ", "_")
    return r.choice(["Beng", "Deva", "Gujr", "Guru", "Knda", "Mlym", "Orya", "Taml", "Telu", "Mymr", "Hira", "Kana", "Laoo", "Yiii", "Nkoo", "Vaii", "Zzzz", "Qaag"])


def stream_prims(ctx, r, rows, pre, branch, scripts):
    langs = sorted(set(l for l, _ in rows))
    lines = []
    n = ctx.budget(6000, 120000)
    for _ in range(n):
        k = r.below(8)
        if k <= 1:     # lang_cmp: table language against arbitrary strings
            a = r.choice(langs)
            b = r.choice([r.choice(langs), decorate(r, r.choice(langs)), rand_text(r, r.range(0, 6)),
                          with_multibyte(r, decorate(r, r.choice(langs))), with_multibyte(r, rand_text(r, r.range(0, 5)))])
            if r.chance(1, 10): a, b = b, a
            if a == "" or b == "":
                a = a or "-"; b = b or "-"
            lines.append(f"langcmp {hx(a)} {hx(b)}")
        elif k == 2:   # tags_from_language
            s = r.choice([decorate(r, r.choice(langs)), rand_text(r, r.range(1, 9)), with_multibyte(r, r.choice(langs) + "-abc")])
            lines.append(f"tagslang {hx(s)}")
        elif k == 3:   # complex
            ru = r.choice(branch)
            s = chr(ru["first"]) + bytes(ru["s1"]).decode() + r.choice(["", "-", "hant", "xx-"]) + bytes(ru["s2"]).decode() + r.choice(["", "-x", "y"])
            if r.chance(1, 4): s = with_multibyte(r, s)
            if r.chance(1, 8): s = rand_text(r, r.range(1, 9))
            lines.append(f"complex {hx(s.lower())}")
        elif k == 4:   # private
            body = r.choice(["-hbot", "-hbsc", "-hbo", "hbot", "-HBOT"]) + r.choice(["", rand_alnum(r, r.range(1, 6)), "a-b", "dflt", "DfLt", "é1", "1é"])
            s = r.choice(["x", "", "x-foo", "é"]) + body + r.choice(["", "-hbsc" + rand_alnum(r, 3), "-hbotxy"])
            lines.append(f"private {hx(s) if not r.chance(1, 20) else '-'} {r.below(2)}")
        elif k == 5:
            lines.append(f"scripttags {tg(rand_script(r)) if not r.chance(1, 30) else '-'}")
        elif k == 6:   # shaper for the scripts with tag generations
            sc = r.choice(["Beng", "Deva", "Gujr", "Guru", "Knda", "Mlym", "Orya", "Taml", "Telu", "Mymr"])
            g = r.choice(["-", "DFLT", "latn", "dflt", "mymr", "mym2", "deva", "dev2", "dev3", "bng3", "tml2", "xyz3", "abc2", untag(tg(rand_script(r)))])
            lines.append(f"shaper {tg(sc)} {r.below(4)} {'-' if g == '-' else tg(g)}")
        else:
            lines.append(f"tagslang {hx(r.choice(langs))}")
    for s in scripts:
        lines.append(f"scripttags {tg(s)}")

    def classify(ln, out):
        t = ln.split()
        ks = [t[0]]
        if out.startswith("panic"):
            ks.append(t[0] + ":" + out)
        elif t[0] == "langcmp":
            ks.append("langcmp:" + out)
        elif t[0] in ("complex", "private"):
            ks.append(t[0] + ":" + out.split()[0])
        elif t[0] == "shaper":
            ks.append("shaper:" + out)
        return ks
    return ctx.correspond("tag-prims", lines=lines, classify=classify, canon=canon)


# ----------------------------------------------------------------------------------------------
# search on the implementation alone

def search_registry(ctx, shim, rows):
    """C18_lang_complete on the crate: every table row's language reaches its first registered tag."""
    first = {}
    for l, t in rows:
        first.setdefault(l, t)
    langs = list(first)
    outs = vlib.run_lines(shim, [f"tags - {hx(l)}" for l in langs])
    bad = 0
    for l, o in zip(langs, outs):
        want = first[l]
        m = re.match(r"ok s:\S+ l:(\S+)", o)
        got = [] if not m or m.group(1) == "-" else [int(x) for x in m.group(1).split(",")]
        ok = (got[:1] == [want]) if want != 0 else (got == [])
        if not ok:
            bad += 1
            ctx.violation(f"language \"{l}\" of the registry does not reach its registered tag '{untag(want)}': got {o}",
                          {"stage": "search", "stream": "registry-complete", "request": f"tags - {hx(l)}", "language": l,
                           "expected_first_tag": want, "observed": o})
    ctx.note_search("registry-complete", len(langs), len(langs),
                    rule="every distinct language of OPEN_TYPE_LANGUAGES through tags(): the first language tag must be "
                         "the tag of its first table row (no tag when that row's tag is null)")


def search_total(ctx, shim, r, rows, branch, n):
    """C01_tag_total on the crate: no panic for any valid UTF-8 language string / any script."""
    langs = sorted(set(l for l, _ in rows))
    fixed = ["a-é", "raé", "cabé", "é", "aé", "a-€", "zh-é", "é-zh", "x-hboté", "en-x-hbscé", "ab-cdé"]
    strs = list(fixed)
    for _ in range(n):
        k = r.below(4)
        if k == 0: s = with_multibyte(r, decorate(r, r.choice(langs)))
        elif k == 1: s = with_multibyte(r, with_multibyte(r, rand_text(r, r.range(0, 7), "acr-xhbo")))
        elif k == 2:
            ru = r.choice(branch)
            s = with_multibyte(r, chr(ru["first"]) + bytes(ru["s1"]).decode() + bytes(ru["s2"]).decode())
        else: s = "".join(r.choice(MULTI + list("ab-x")) for _ in range(r.range(1, 6)))
        strs.append(s)
    lines = [f"tags {tg('Latn')} {hx(s)}" for s in strs]
    outs = vlib.run_lines(shim, lines)
    seen = set()
    npanic = 0
    for s, ln, o in zip(strs, lines, outs):
        if o.startswith("panic") or o.startswith("abort") or o == "timeout":
            npanic += 1
            m = re.match(r"panic (\S+?):(\d+) ", o)
            site = (os.path.basename(m.group(1)) + ":" + m.group(2)) if m else o[:40]
            if site in seen:
                continue
            seen.add(site)
            # smallest input for this site among the ones found
            cands = [x for x, y in zip(strs, outs) if y.startswith("panic") and site.split(":")[0] in y and (":" + site.split(":")[1] + " ") in y]
            named = [x for x in fixed if x in cands]
            s0 = named[0] if named else min(cands, key=lambda x: (len(x.encode()), x))
            ctx.violation(f"tags_from_script_and_language panics on the valid UTF-8 language \"{s0}\" at {site}",
                          {"stage": "search", "stream": "tag-total", "request": f"tags {tg('Latn')} {hx(s0)}",
                           "language": s0, "panic_site": site, "observed": o})
    ctx.note_search("tag-total", len(lines), len(set(lines)), panics=npanic,
                    rule="valid UTF-8 language strings with multi-byte characters (registry/rule strings with an inserted "
                         "character, random mixes) through tags(); any panic is a violation, reported once per panic site "
                         "with the shortest input found")


# ----------------------------------------------------------------------------------------------

def run(ctx):
    ctx.assumptions += [
        "the theorems are about the Lean model of tag.rs / tag_table.rs / LayoutTableExt / hb_ot_map_builder_t::new; the "
        "model is tied to the crate by the tags / tag-prims / tag-select streams (str slicing panics compared by kind)",
        "the language table is the one compiled into the crate (hook dump); tags_from_complex_language is transcribed "
        "from the Rust source as a decision list; the registry content itself is taken as shipped except for the "
        "hand-checked pairs of C18_wellknown",
        "Rust's str::find / starts_with / match_indices / binary_search_by are modelled (first match, non-overlapping "
        "matches, the rustc 1.95 loop), ttf-parser's record lists are abstract lists of records",
    ]
    ctx.regen()
    ctx.prove(MODULE)
    shim = vlib.build_harness()
    rows = lang_table(shim)
    pre, branch = complex_rules()
    scripts = script_constants()
    stream_tags(ctx, ctx.rng("tags"), rows, pre, branch, scripts)
    stream_prims(ctx, ctx.rng("prims"), rows, pre, branch, scripts)
    search_registry(ctx, shim, rows)
    search_total(ctx, shim, ctx.rng("total"), rows, branch, ctx.budget(4000, 100000))


def replay(ctx, rp):
    shim = vlib.build_harness()
    if "request" in rp:
        a = vlib.run_lines(shim, [rp["request"]], nproc=1)[0]
        print("impl :", a)
        if rp.get("stream") == "registry-complete":
            m = re.match(r"ok s:\S+ l:(\S+)", a)
            got = [] if not m or m.group(1) == "-" else [int(x) for x in m.group(1).split(",")]
            want = rp["expected_first_tag"]
            return 0 if ((got[:1] == [want]) if want else got == []) else 1
        if rp.get("stream") == "tag-total":
            return 1 if a.startswith("panic") else 0
        model = vlib.build_model()
        b = vlib.run_lines(model, [rp["request"]], nproc=1)[0]
        print("model:", b)
        return 0 if canon(a) == canon(b) else 1
    print(rp)
    return 1
