"""C16 — without layout tables, glyphs and positions are the font's cmap and metrics; axis discipline."""
import vlib, corpus
import fontbuild
import _pipeline as P
import _lattice as L

MODULE = "RbModel.Props.C16"
LEVEL = "proof"

LETTERS = [0x41, 0x42, 0x61, 0x62, 0xE000, 0xE001, 0x4E00, 0x5D0, 0x30, 0x31, 0x39, 0x2E, 0x2C]
MIRROR = [0x28, 0x29, 0x3C, 0x3E, 0x5B, 0x5D, 0xAB, 0xBB, 0x2039, 0x203A]
VERT = [0x2013, 0x2014, 0x2025, 0x2026, 0x3001, 0x3002, 0x3008, 0x3009, 0xFE32, 0xFE31, 0xFE30, 0xFE19, 0xFE11,
        0xFE12, 0xFE3F, 0xFE40]
SPACES = [0x20, 0xA0, 0x2000, 0x2001, 0x2003, 0x2004, 0x2005, 0x2006, 0x2007, 0x2008, 0x2009, 0x200A, 0x202F, 0x205F,
          0x3000, 0x1680, 0x2011, 0x2010]
CONT = [0x1F1E6, 0x1F1E7, 0x1F1FF, 0x1F3FB, 0x1F3FF, 0x1F468, 0x1F469, 0xA9, 0xFF9E, 0x200D]
MARKS0 = [0x902, 0x903, 0x20DD, 0x93F, 0x1A55]          # marks with ccc 0 that are not default-ignorable
DI = [0xAD, 0x34F, 0x200B, 0x200C, 0xFE0F, 0xFEFF, 0xE0020, 0xE0100, 0x2060]
MAC = [0xC4, 0xE9, 0x2020, 0x2260, 0xF8FF, 0x2C7, 0x100C4]


def cmap_lines(r, n):
    # the alphabet carries the boundary code points of the lookup code (P.CMAP_EDGES) besides ordinary letters, so that
    # randomly composed fonts too have direct / U+F0xx mappings next to every constant
    alpha = LETTERS[:8] + [0x20, 0xC4, 0x2020, 0x1F600, 0xF041, 0xE9] + [c for c in P.CMAP_EDGES if c <= 0xFFFF]
    lines = []
    for _ in range(n):
        rec = P.rand_recipe(r, alpha, outlines=True)
        ft = P.font_tokens(rec)
        cps = alpha + P.CMAP_EDGES + [0x100C4, r.below(0x110000)]
        lines.append(f"pl cmap {ft} {','.join(map(str, cps))}")
        gids = list(range(0, rec['ng'] + 3)) + [255, 256, 32767, 32768, 65535]
        lines.append(f"pl metrics {ft} {','.join(map(str, gids))}")
    return lines


def cmap_family_lines(r, n):
    """`pl cmap` on the cmap family (P.cmap_family_recipe): every code point of U+0000..U+0101 and U+F000..U+F101 plus
    the boundary values of every constant of the lookup code, on fonts with a Windows Symbol subtable alone / among other
    subtables in every order / MacRoman / neither"""
    lines = []
    cps = ",".join(map(str, P.CMAP_DOMAIN + [c for c in P.CMAP_EDGES if c not in P.CMAP_DOMAIN]))
    for _ in range(n):
        _, rec = P.cmap_family_recipe(r)
        lines.append(f"pl cmap {P.font_tokens(rec)} {cps}")
    return lines


def classify_cmap(ln, out):
    t = ln.split()
    ks = [t[1]]
    if t[1] == "cmap":
        rec = t[3]
        subs = rec.split(";")[-1][1:]
        ks.append("subtables:" + ("0" if subs == "-" else str(len(subs.split("/")))))
        ks.append("best:" + out.split()[0])
        if subs != "-":
            ids = [s.split(",")[0] for s in subs.split("/")]
            if out.split()[0] != "-":
                ch = int(out.split()[0])
                ks.append("chosen:" + ids[ch])
                if ids[ch] == "3.0":
                    # which of the symbol cases the request exercises (direct / aliased / unmapped, at the bound)
                    m = dict(x.split("=") for x in subs.split("/")[ch].split(",")[1:])
                    ks.append("symbol:position-" + str(ch) + "-of-" + str(len(ids)))
                    for c in t[4].split(","):
                        c = int(c)
                        if c in (0xFE, 0xFF, 0x100):
                            st = ("direct" if str(c) in m else "") + ("+F0xx" if str(0xF000 + c) in m else "")
                            ks.append(f"symbol:U+{c:04X}:{st or 'unmapped'}")
    return ks


def shape_lines(r, chars, n):
    lines = []
    pool = LETTERS + MIRROR + VERT + SPACES + CONT + MARKS0 + DI + MAC
    pool = [c for c in pool if chars.in_scope(c)]
    for _ in range(n):
        kind = r.below(6)
        alpha = [c for c in pool if r.chance(3, 4)] + [0x25CC, 0x20]
        rec = P.rand_recipe(r, alpha, allow_mac=(kind == 0), allow_symbol=(kind == 1), extra_missing=r.below(2))
        ft = P.font_tokens(rec)
        for _ in range(4):
            k = r.range(0, 9)
            m = r.below(5)
            if m == 0: src = LETTERS
            elif m == 1: src = LETTERS + MIRROR + VERT
            elif m == 2: src = LETTERS + SPACES
            elif m == 3: src = LETTERS + CONT + MARKS0 + DI
            else: src = pool
            src = [c for c in src if chars.in_scope(c)]
            text = [r.choice(src) for _ in range(k)]
            m = r.below(4)
            if m == 0: cl = list(range(len(text)))
            elif m == 1: cl = [5 * i + 2 for i in range(len(text))]
            elif m == 2:
                cl, c = [], 0
                for _ in text:
                    cl.append(c); c += r.below(2)
            else: cl = [r.below(6) for _ in text]
            flags = r.choice([0, 0, 0, 1, 3, 4, 8, 17, 1 | 8])
            lines.append(P.shape_line(chars, ft, r.choice("lrtb"), r.choice(list(P.SCRIPTS)), flags, r.below(3),
                                      text, cl, npre=r.choice([0, 0, 1])))
    return lines


def shape_family_lines(r, chars, n):
    """`pl shape` (public shape()) on the cmap family: texts over the in-scope characters of U+0000..U+0101 and
    U+F000..U+F101, every second character drawn from the boundary code points"""
    dom = [c for c in P.CMAP_DOMAIN if chars.in_scope(c)]
    edges = [c for c in P.CMAP_EDGES if c in dom]
    lines = []
    for _ in range(n):
        _, rec = P.cmap_family_recipe(r)
        ft = P.font_tokens(rec)
        for _ in range(3):
            text = [r.choice(edges) if r.chance(1, 2) else r.choice(dom) for _ in range(r.range(1, 8))]
            cl = [2 * i + 1 for i in range(len(text))]
            lines.append(P.shape_line(chars, ft, r.choice("lrtb"), r.choice(list(P.SCRIPTS)), r.choice([0, 0, 1, 8]),
                                      r.below(3), text, cl))
    return lines


def classify_shape(ln, out):
    t = ln.split()
    ks = ["dir:" + t[4], "script:" + t[5], "level:" + t[8]]
    rec = t[3]
    f = dict((x[0], x[1:]) for x in rec.split(";"))
    ks.append("hmtx:" + ("no" if f["h"] == "-" else "yes"))
    ks.append("vmtx:" + ("no" if f["v"] == "-" else "yes"))
    ks.append("VORG:" + ("no" if f["o"] == "-" else "yes"))
    ids = [] if f["c"] == "-" else [tuple(int(v) for v in x.split(",")[0].split(".")) for x in f["c"].split("/")]
    chosen = next((pe for pe in P.PREF if pe in ids), None)
    ks.append("cmap:" + ("none" if chosen is None else f"{chosen[0]}.{chosen[1]}-of-{len(ids)}"))
    if chosen == (3, 0) and t[10] != "-":
        low = [int(x.split(".")[0]) for x in t[10].split(",")]
        if any(c <= 0xFF for c in low): ks.append("symbol:text-has-latin1")
        if any(c in (0xFE, 0x100, 0xF0FF, 0xF100) for c in low): ks.append("symbol:text-at-alias-bound")
    if out.startswith("ok"):
        n_in = 0 if t[10] == "-" else len(t[10].split(","))
        n_out = int(out.split()[1])
        ks.append("len:" + ("same" if n_in == n_out else "shorter" if n_out < n_in else "longer"))
    else:
        ks.append("reply:" + out.split()[0])
    return ks


# ----------------------------------------------------------------------------------------------
# search: C16_default as an executable statement on the implementation (python, from the recipe)

def fb_semantics(fmt, pairs):
    """what ttf-parser returns for a subtable written by tools/fontbuild.py (format 4 there is delta-only)"""
    d = dict(pairs)
    if fmt == 0:
        return {c: g & 0xFF for c, g in d.items() if g & 0xFF}
    if fmt == 6:
        return {c: d.get(c, 0) for c in range(min(d), max(d) + 1)}
    if fmt == 4:
        d = {c: g for c, g in d.items() if c <= 0xFFFF}
        d.setdefault(0xFFFF, 0)
    return d


def fb_recipe(rec):
    r = dict(num_glyphs=rec["ng"], upem=rec["upem"], ascender=rec["asc"], descender=rec["desc"],
             advances=rec["hadv"],
             cmap_subtables=[dict(platform=p, encoding=e, format=fmt, map=dict(pairs)) for p, e, fmt, pairs in rec["subs"]])
    if rec["vadv"] is not None:
        r["vadvances"] = rec["vadv"]
        if rec.get("vsb"): r["tsbs"] = rec["vsb"]
    if rec.get("bbox") is not None:
        r["extents"] = {g: list(bb) for g, bb in rec["bbox"].items()}
    if rec["vorg"] is not None: r["vorg"] = {"default": rec["vorg"][0], "glyphs": rec["vorg"][1]}
    return r


def py_font(rec, sem=None):
    sem = sem or P.sub_semantics
    subs = [(p, e, sem(fmt, pairs)) for p, e, fmt, pairs in rec["subs"]]
    best = None
    for pe in P.PREF:
        for i, (p, e, _) in enumerate(subs):
            if (p, e) == pe:
                best = i; break
        if best is not None: break
    ng = rec["ng"]

    def metric(advs, g):
        if g >= max(len(advs), ng): return 0
        return advs[g] if g < len(advs) else advs[-1]

    def nominal(c):
        if best is None: return None
        p, e, m = subs[best]
        if p == 1 and c > 0x7F:
            # Macintosh Roman subtable: indexed by the MacRoman byte (CPython's codec, independent of face.rs's table)
            try: c = chr(c).encode("mac_roman")[0]
            except (UnicodeEncodeError, ValueError): c = 0
        g = m.get(c)
        if g is None and (p, e) == (3, 0) and c <= 0xFF:
            g = m.get(0xF000 + c)
        return g

    def hadv(g): return metric(rec["hadv"], g) if rec["hadv"] is not None else rec["upem"]
    def vadv(g): return -(metric(rec["vadv"], g)) if rec["vadv"] is not None else -(rec["asc"] - rec["desc"])
    def vorg(g):
        # VORG; else, for an outline font, from the glyph's bounding box: with vmtx top = yMax + top side bearing, without
        # it the box is centred in the line (ascender - descender), rounding DOWN; else the ascender
        if rec["vorg"] is not None:
            d, recs = rec["vorg"]; return recs.get(g, d)
        if rec.get("bbox") is not None and g <= 0xFFFF:
            bb = rec["bbox"].get(g) if g < ng else None
            ymax, height = (bb[3], bb[1] - bb[3]) if bb is not None else (0, 0)
            if rec["vadv"] is not None:
                vsb = rec.get("vsb") or []
                return ymax + (vsb[g] if g < len(vsb) and g < max(len(rec["vadv"]), ng) else 0)
            return ymax + ((rec["asc"] - rec["desc"]) + height) // 2
        return rec["asc"]
    return nominal, hadv, vadv, vorg


def default_search(ctx, shim, chars, r, n):
    letters = [c for c in LETTERS if chars.in_scope(c)]
    lines, exp = [], []
    for _ in range(n):
        rec = P.rand_recipe(r, letters, allow_mac=False, allow_symbol=r.chance(1, 6), outlines=True)
        # every other font is serialised by the shared tools/fontbuild.py instead of this core's own builder
        use_fb = r.chance(1, 2)
        if use_fb:
            for i, (p_, e_, fmt_, pairs_) in enumerate(rec["subs"]):
                if fmt_ == 4:   # fontbuild's format 4 cannot hold U+FFFF mappings of its own
                    rec["subs"][i] = (p_, e_, fmt_, [(c, g) for c, g in pairs_ if c < 0xFFFF])
            nominal, hadv, vadv, vorg = py_font(rec, fb_semantics)
            ft = fontbuild.hexfont(fb_recipe(rec)) + " -"
        else:
            nominal, hadv, vadv, vorg = py_font(rec)
            ft = P.font_tokens(rec)
        have = [c for c in letters if nominal(c) is not None]
        if not have:
            continue
        for d in "lrtb":
            text = [r.choice(have) for _ in range(r.range(1, 8))]
            cl = [3 * i for i in range(len(text))]
            lines.append(P.shape_line(chars, ft, d, r.choice(list(P.SCRIPTS)), r.choice([0, 1, 8]), r.below(3), text, cl))
            want = []
            for c, k in zip(text, cl):
                g = nominal(c)
                if d in "lr": want.append((g, k, hadv(g), 0, 0, 0))
                else: want.append((g, k, 0, vadv(g), -(hadv(g) // 2), -vorg(g)))
            if d in "rb": want = want[::-1]
            exp.append(want)
    outs = vlib.run_lines(shim, lines)
    for ln, o, want in zip(lines, outs, exp):
        got = P.parse_out(o)
        if got != want:
            ctx.violation(f"glyphs/positions differ from the font's cmap and metrics: got {o[:200]} expected {want}",
                          {"stage": "search", "stream": "default-metrics", "request": ln, "reply": o,
                           "expected": [list(x) for x in want]})
            break
    ctx.note_search("default-metrics", len(lines), len(set(lines)),
                    rule="shape() on generated cmap/hmtx(/vmtx/VORG/glyf bounding boxes) fonts, letters and digits that have glyphs, 4 "
                         "directions; expected = cmap glyph, input cluster, hmtx advance / -(vmtx or asc-desc), offsets "
                         "0 / (-hadv/2, -origin), reversed for RTL and BTT — computed from the recipe in python")


def mac_encodable(c):
    if c <= 0x7F: return True
    try: chr(c).encode("mac_roman"); return True
    except (UnicodeEncodeError, ValueError): return False


def cmap_family_search(ctx, shim, chars, r, nfonts):
    """C16_default as an executable statement on the cmap family (P.cmap_family_recipe), through the GENERIC public-API
    `shape` command (no model scope in the way: precomposed letters such as U+00FF included).  Expected glyph = what the
    font's preferred subtable assigns per the recipe — preference order, Windows Symbol alias U+0000..U+00FF -> U+F000+c
    when not mapped directly, MacRoman byte for a Macintosh subtable — computed in python from the OpenType / HarfBuzz
    rules with their documented constants, never from the crate."""
    dom = [c for c in P.CMAP_DOMAIN if chars.p.get(c) and not chars.p[c]["di"] and not chars.is_mark(c)]
    groups, meta = [], []
    modes = {}
    for f in range(nfonts):
        mode, rec = P.cmap_family_recipe(r, outlines=True)
        use_fb = r.chance(1, 2)
        if use_fb:
            for i, (p_, e_, fmt_, pairs_) in enumerate(rec["subs"]):
                if fmt_ == 4:
                    rec["subs"][i] = (p_, e_, fmt_, [(c, g) for c, g in pairs_ if c < 0xFFFF])
            nominal, hadv, vadv, vorg = py_font(rec, fb_semantics)
            hexf = fontbuild.hexfont(fb_recipe(rec))
        else:
            nominal, hadv, vadv, vorg = py_font(rec)
            hexf = P.build_font(rec).hex()
        chosen = None
        for pe in P.PREF:
            if any((p_, e_) == pe for p_, e_, _, _ in rec["subs"]):
                chosen = pe; break
        have = [c for c in dom if nominal(c) is not None and (chosen != (1, 0) or mac_encodable(c))]
        # characters WITHOUT a glyph per the rules are rendered as .notdef (glyph 0, its metrics).  Asked only where
        # nothing else can step in: no space fallback; a canonical decomposition (the precomposed Latin letters) always
        # ends in a combining mark, which no font of the family maps — except through a MacRoman subtable, where every
        # unmappable character is looked up as byte 0: Macintosh fonts are left out of this part
        missing = [c for c in dom if nominal(c) is None and chars.p[c]["sf"] == 0 and chosen != (1, 0)]
        if not have and not missing:
            continue
        edges = [c for c in P.CMAP_EDGES if c in have]
        medges = [c for c in P.CMAP_EDGES if c in missing]
        modes[mode] = modes.get(mode, 0) + 1
        lines, ms = [f"font S{f} {hexf}"], []
        for d in "lrtb":
            for _ in range(2):
                text = []
                for _ in range(r.range(1, 8)):
                    if missing and (not have or r.chance(1, 4)):
                        text.append(r.choice(medges) if medges and r.chance(1, 2) else r.choice(missing))
                    else:
                        text.append(r.choice(edges) if edges and r.chance(1, 2) else r.choice(have))
                cl = [3 * i for i in range(len(text))]
                t = ",".join(f"{c:x}:{k}" for c, k in zip(text, cl))
                lines.append(f"shape S{f} {d} {r.choice(list(P.SCRIPTS))} - {r.choice([0, 1, 8])} {r.below(3)} - - - {t}")
                want, shown = [], []
                for c, k in zip(text, cl):
                    cc = c
                    if d in "rb":
                        m = chars.p[cc]["mir"]
                        if m and nominal(m) is not None: cc = m
                    if d in "tb":
                        v = chars.p[cc]["vert"]
                        if v and nominal(v) is not None: cc = v
                    g = nominal(cc) or 0
                    shown.append(cc)
                    if d in "lr": want.append((g, k, hadv(g), 0, 0, 0))
                    else: want.append((g, k, 0, vadv(g), -(hadv(g) // 2), -vorg(g)))
                if d in "rb": want, shown = want[::-1], shown[::-1]
                ms.append((d, text, shown, want))
        lines.append(f"fontdrop S{f}")
        groups.append(lines)
        meta.append((mode, chosen, [(p_, e_, fmt_) for p_, e_, fmt_, _ in rec["subs"]], "fontbuild" if use_fb else "own", ms))
    outs = vlib.run_groups(shim, groups, timeout=900)
    total = reported = 0
    per_dir = {d: 0 for d in "lrtb"}
    aliased = 0
    for (mode, chosen, subs, builder, ms), o, g in zip(meta, outs, groups):
        if o[0] != "ok":
            ctx.violation(f"generated cmap-family font rejected: {o[0]}",
                          {"stage": "search", "stream": "default-metrics", "generator": "cmap-family", "font_line": g[0][:400]})
            continue
        for (d, text, shown, want), reply, req in zip(ms, o[1:], g[1:]):
            total += 1; per_dir[d] += 1
            if chosen == (3, 0) and any(c <= 0xFF for c in shown): aliased += 1
            t = reply.split()
            got = None
            if t and t[0] == "ok":
                got = []
                for x in t[2:]:
                    gid, cl, fl, xa, ya, xo, yo = (int(v) for v in x.split(":"))
                    got.append((gid, cl, xa, ya, xo, yo))
            if got != want and reported < 3:
                reported += 1
                bad = next((i for i, (a, b) in enumerate(zip(got or [], want)) if a != b), 0)
                cp = shown[bad] if bad < len(shown) else None
                ctx.violation(
                    f"glyphs/positions differ from the font's cmap and metrics: cmap subtables {subs} (chosen {chosen}), "
                    f"direction {d}, text {[hex(c) for c in text]}: output glyph {bad} "
                    f"(U+{cp:04X}) got {got[bad] if got and bad < len(got) else reply[:80]} expected {want[bad]}",
                    {"stage": "search", "stream": "default-metrics", "generator": "cmap-family", "mode": mode,
                     "subtables": [list(x) for x in subs], "chosen": list(chosen) if chosen else None, "builder": builder,
                     "direction": d, "text": [f"U+{c:04X}" for c in text], "codepoint": f"U+{cp:04X}" if cp is not None else None,
                     "font_line": g[0], "request": req, "reply": reply[:2000], "expected": [list(x) for x in want]})
    ctx.note_search("default-metrics-cmap-family", total, aliased, fonts_per_mode=modes, shaped_per_direction=per_dir,
                    rule="shape() (generic public-API request) on generated fonts whose cmap has a Windows Symbol (3,0) subtable "
                         "alone / together with 3/1, 3/10, 0/x, 1/0 and unlisted subtables in every order / a MacRoman subtable / "
                         "neither; formats 4, 12 (0, 6 for MacRoman); each code point of U+0000..U+0101 mapped directly, only at "
                         "U+F000+c, at both (different glyphs) or nowhere; texts over the characters of U+0000..U+0101 and "
                         "U+F000..U+F101 (non-marks, non-default-ignorables; precomposed letters included), three out of four with a glyph "
                         "per the rules, one without (expected .notdef; not on MacRoman fonts, not for fallback spaces), every second "
                         "one a boundary value of a constant of the lookup code; 4 directions; "
                         "expected = glyph of the preferred subtable (symbol alias for c <= U+00FF without direct mapping, "
                         "MacRoman byte via python's codec), input cluster, hmtx advance / -(vmtx or asc-desc), offsets "
                         "0 / (-hadv/2, -origin), reversed for RTL and BTT; non-trivial = a symbol font shaped a character "
                         "<= U+00FF")


# ----------------------------------------------------------------------------------------------
# search: shared monitors over the repository's own fixtures

def monitor_line(o, horizontal):
    """axis discipline and 16-bit glyph ids on one reply of the `shape` command"""
    t = o.split()
    if not t or t[0] != "ok":
        return None, 0
    bad = None
    for g in t[2:]:
        gid, cl, fl, xa, ya, xo, yo = (int(x) for x in g.split(":"))
        if gid > 0xFFFF:
            bad = f"glyph id {gid} > 0xFFFF"
        if horizontal and ya != 0:
            bad = f"horizontal run with y_advance {ya} (glyph {gid}, cluster {cl})"
        if not horizontal and xa != 0:
            bad = f"vertical run with x_advance {xa} (glyph {gid}, cluster {cl})"
    return bad, len(t) - 2


def corpus_monitors(ctx, shim, r, ncases):
    cases = r.shuffle(corpus.load())[:ncases]
    groups, meta = [], []
    for fid, reg, cs in corpus.font_groups(cases):
        lines = [reg]
        ms = []
        for c in cs:
            native = c.dir
            for d in ["l", "r", "t", "b"]:
                for variant in range(2):
                    text = c.text
                    if variant == 1:
                        t = list(c.text)
                        text = "".join(r.shuffle(t)[: r.range(1, max(1, len(t)))])
                    lines.append(c.shape_line(fid, text=text, dir=d, flags=r.choice([c.flags, 0, 3, 8]),
                                              level=r.below(3)))
                    ms.append((c.name, d))
        groups.append(lines); meta.append(ms)
    outs = vlib.run_groups(shim, groups, timeout=1500)
    total = glyphs = 0
    per_dir = {"l": 0, "r": 0, "t": 0, "b": 0}
    reported = 0
    for ms, o, g in zip(meta, outs, groups):
        for (name, d), reply, req in zip(ms, o[1:], g[1:]):
            total += 1
            bad, n = monitor_line(reply, d in "lr")
            glyphs += n
            if n: per_dir[d] += 1
            if reply.startswith(("panic", "abort", "timeout")):
                # crashes belong to C01; note them, do not attribute to C16
                ctx.cov.setdefault("corpus_crashes_seen", []).append({"case": name, "dir": d, "reply": reply[:120]})
                continue
            if bad and reported < 3:
                reported += 1
                ctx.violation(f"{bad} — corpus case {name}, direction {d}",
                              {"stage": "search", "stream": "axis-gid16", "font_line": g[0], "request": req,
                               "reply": reply[:2000], "what": bad})
    ctx.note_search("axis-gid16-corpus", total, sum(per_dir.values()), glyphs=glyphs, shaped_per_direction=per_dir,
                    rule="every fixture of tests/shaping (font, text, options) re-shaped in all 4 directions, original "
                         "and shuffled/shortened text, random flags/levels; monitors: horizontal => y_advance = 0, "
                         "vertical => x_advance = 0, glyph id <= 0xFFFF; non-trivial = at least one glyph returned")


import _gposdev as GD
import _kerx as KX

TAGHEX = lambda t: t.encode().hex()


def _kern_table(r, gl):
    """an OpenType-flavour `kern` table (format 0, 1-2 subtables, horizontal / vertical / cross-stream)"""
    import struct
    out = struct.pack(">HH", 0, 0)
    subs = []
    for _ in range(r.range(1, 2)):
        pairs = sorted({(r.choice(gl), r.choice(gl)) for _ in range(r.range(1, 12))})
        body = struct.pack(">HHHH", len(pairs), 0, 0, 0) + b"".join(struct.pack(">HHh", a, b, r.range(-300, 300) or 9) for a, b in pairs)
        cov = (1 if r.chance(3, 4) else 0) | (4 if r.chance(1, 5) else 0)
        subs.append(struct.pack(">HHBB", 0, 6 + len(body), 0, cov) + body)
    return struct.pack(">HH", 0, len(subs)) + b"".join(subs)


def gpos_axis_search(ctx, shim, r, nfonts, ntexts):
    """the second sentence of the property on GENERATED fonts: every positioning mechanism the crate has for OpenType
    fonts — SinglePos / PairPos records with all eight value-format bits (hinting Device tables live at the request's
    ppem, VariationIndex tables live at non-default coordinates), cursive and mark attachment, kern / kerx tables — in all
    four directions; every glyph of every result must keep the off-axis advance 0 and a 16-bit glyph id."""
    groups, meta = [], []
    for f in range(nfonts):
        rec, facts = GD.rand_gpos_font(r, KX, _kern_table)
        lines = [f"font G{f} {fontbuild.hexfont(rec)}"]
        ms = []
        for _ in range(ntexts):
            n = r.range(1, 7)
            text = [r.choice(GD.F_BASES + GD.F_BASES + GD.F_MARKS) for _ in range(n)]
            d = r.choice("lrtb")
            feats = []
            for t in ("vkrn", "kern", "dist"):
                if r.chance(1, 3): feats.append(f"{TAGHEX(t)}:{r.choice([1, 1, 0])}:0:4294967295")
            opts = []
            k = r.below(8)
            ppem = 0 if k == 0 else r.range(6, 40) if k == 1 or not facts["sizes"] else r.choice(facts["sizes"])
            if ppem: opts.append(f"ppem={ppem}")
            var = facts["variable"] and r.chance(2, 3)
            if var: opts.append(f"var={TAGHEX('wght')}:{r.choice([900, 900, 650, 100])}")
            t = ",".join(f"{0xE000 + g - 1:x}:{i}" for i, g in enumerate(text))
            base = f"shape G{f} {d} - - {r.choice([0, 0, 3, 8])} {r.below(3)} {','.join(feats) or '-'} - - {t}"
            lines.append(" ".join([base] + opts))
            lines.append(base)                      # the same request on the default face: are the devices live?
            ms.append((d, ppem, var))
        lines.append(f"fontdrop G{f}")
        groups.append(lines); meta.append((rec, facts, ms))
    outs = vlib.run_groups(shim, groups, timeout=900)
    stats = {"shapes": 0, "glyphs": 0, "device_live": 0, "device_live_per_dir": {d: 0 for d in "lrtb"},
             "variation_live": 0, "per_layout": {}, "per_dir": {d: 0 for d in "lrtb"}, "fonts_with_device": 0}
    reported = 0
    for (rec, facts, ms), o, g in zip(meta, outs, groups):
        if o[0] != "ok":
            ctx.violation(f"generated GPOS font rejected: {o[0]}", {"stage": "search", "stream": "axis-gid16", "generator": "gpos-fonts",
                          "font_line": g[0][:200]}); continue
        stats["per_layout"][facts["layout"]] = stats["per_layout"].get(facts["layout"], 0) + 1
        if facts["has_device"]: stats["fonts_with_device"] += 1
        for t, (d, ppem, var) in enumerate(ms):
            for which in (0, 1):
                reply, req = o[1 + 2 * t + which], g[1 + 2 * t + which]
                stats["shapes"] += 1
                bad, n = monitor_line(reply, d in "lr")
                stats["glyphs"] += n
                if reply.startswith(("panic", "abort", "timeout")):
                    ctx.cov.setdefault("generated_font_crashes_seen", []).append({"dir": d, "reply": reply[:120]})
                    continue
                if bad and reported < 3:
                    reported += 1
                    ctx.violation(f"{bad} — generated GPOS font ({facts['layout']}; lookups {facts['kinds']} under features "
                                  f"{facts['features']}), direction {d}, ppem {ppem or 'unset'}, "
                                  f"{'non-default variation coordinates' if var and which == 0 else 'default coordinates'}",
                                  {"stage": "search", "stream": "axis-gid16", "generator": "gpos-fonts", "font_line": g[0],
                                   "request": req, "reply": reply[:2000], "what": bad, "facts": facts, "recipe": rec})
            stats["per_dir"][d] += 1
            if o[1 + 2 * t] != o[2 + 2 * t]:
                if ppem: stats["device_live"] += 1; stats["device_live_per_dir"][d] += 1
                elif var: stats["variation_live"] += 1        # no ppem: only the variation store can have done it
    ctx.note_search("axis-gid16-gpos", stats["shapes"], stats["device_live"] + stats["variation_live"], detail=stats,
                    rule="generated fonts (tools/props/_gposdev.py): 1-4 GPOS lookups out of SinglePos 1/2 and PairPos 1/2 with random "
                         "value formats over all eight bits (hinting Device tables of formats 1-3 with non-zero deltas, "
                         "VariationIndex tables into a GDEF variation store), cursive, mark-to-base, mark-to-mark, under the "
                         "features mark / kern / dist / vkrn, optionally a kern or a kerx table (kerx replaces GPOS when there is "
                         "no GSUB), vmtx / VORG, one fvar axis x random texts x 4 directions x ppem at a live size / other / unset x "
                         "variation coordinates default / not x user features; each request also on the default face; "
                         "monitors on every reply: horizontal => y_advance = 0, vertical => x_advance = 0, glyph id <= 0xFFFF; "
                         "non-trivial = the ppem / the coordinates changed the result (a device was live)")


def macroman_search(ctx, shim):
    """UNICODE_TO_MACROMAN (face.rs; regenerated into Gen/Pipeline.lean, so the model follows the crate) against
    an independent copy: CPython's `mac_roman` codec."""
    got = [int(x) for x in vlib.run_lines(shim, ["pl mactable"], nproc=1)[0].split()]
    want = [ord(bytes([0x80 + i]).decode("mac_roman")) for i in range(128)]
    for i, (g, w) in enumerate(zip(got, want)):
        if g != w:
            ctx.violation(f"MacRoman byte 0x{0x80 + i:02X} is U+{w:04X}, face.rs UNICODE_TO_MACROMAN has U+{g:04X}",
                          {"stage": "search", "stream": "macroman", "byte": 0x80 + i, "expected": w, "observed": g})
            break
    ctx.note_search("macroman", 128, 128, rule="the 128 entries of UNICODE_TO_MACROMAN against python's mac_roman codec")


# ----------------------------------------------------------------------------------------------
# every shaper, every normalization mode: a character the font maps keeps its own glyph (C16_mapped_character_own_glyph)

def lattice_keep(env):
    def keep(c, S, text, tag):
        # the cases in which the own-glyph oracle speaks about c itself: c is mapped, not a mark, and the mode of the
        # script's shaper does not prefer its decomposition
        if c not in S or L.is_mark(c):
            return False
        i = text.index(c)
        return not L.prefers_decomposition(env.mode(tag), text, i, S)
    return keep


LATTICE_RULE = ("font support lattice (tools/props/_lattice.py): every character with a canonical decomposition (key families "
                "exhaustively, the Latin / Greek / CJK bulk sampled in quick) and every visible character of General Punctuation, "
                "every space separator, one letter per script x cmap-only fonts for every subset of {c, the halves and inner "
                "pieces of its decomposition, U+0020, U+2010, U+2011, U+25CC} in which c is mapped x one script per shaper "
                "(default, arabic, hebrew, thai, hangul, indic, khmer, myanmar, use; dispatch read from the compiled crate) and "
                "the script of c's block x {c, c + mark, base + c, base + c + mark, unmapped + c, unmapped + c + mark} x the script's "
                "own direction / top-to-bottom; kept: the cases where the shaper's "
                "normalization mode does not prefer the decomposition of c (it short-circuits, or the font supports no "
                "candidate); oracle: every non-mark, non-default-ignorable mapped character whose decomposition is not "
                "preferred appears as its cmap glyph with the glyph's hmtx advance and zero offsets (vertical: y_advance "
                "-(ascender - descender), offsets (-advance / 2, -ascender))")


def run(ctx):
    ctx.assumptions += [
        "the theorems are about the Lean model RbModel/Pipeline.lean (default shaper, font without layout tables, "
        "outlines, variations or cmap format 14); it is tied to the crate by the cmap-metrics (hooks on face.rs) and "
        "pipeline-shape (public shape()) correspondence streams; the font binary is produced from the same recipe "
        "the model reads, so the sfnt builder and ttf-parser sit inside the loop",
        "C16_axis is proved for the steps the model has (position_default, fallback spaces, mark zeroing, default-"
        "ignorable zeroing, reversal, hiding) and, separately, for GPOS value records with all eight value-format bits "
        "(C16_axis_value_record / _apply / _pair_apply over the Gpos.lean model, device and variation deltas as parameters; tied "
        "to the crate by C07's gpos-apply-device correspondence); kerning, tracking, cursive, mark attachment and stch are "
        "covered by the axis / 16-bit monitors on the implementation: over generated GPOS / kern / kerx fonts with live Device "
        "and VariationIndex tables (axis-gid16-gpos) and over the repository corpus",
        "C16_mapped_character_own_glyph / _run_own_glyphs / _single_every_mode / _nb_hyphen_own_glyph are about RbModel/Norm.lean "
        "(decompose_current_character and the first normalization round in all five modes), tied to the crate by the "
        "norm-run-mapped stream (hook verif::normalize::normalize_vs); which mode each shaper asks for is not read from "
        "the crate but stated by the support-lattice oracle (tools/props/_lattice.py MODE) and tested through shape()",
        "glyph_v_origin is modelled for VORG, glyf bounding boxes (with and without vmtx) and the ascender fallback; CFF / bitmap / COLR extents, variable-font advances, "
        "kerx, fallback mark positioning with extents are not modelled",
    ]
    ctx.regen()
    ctx.prove(MODULE)
    shim = vlib.build_harness()
    chars = P.Chars(shim)
    chars.load(LETTERS + MIRROR + VERT + SPACES + CONT + MARKS0 + DI + MAC + [0x25CC])
    chars.load(P.CMAP_DOMAIN)
    P.correspond(ctx, "cmap-metrics", cmap_lines(ctx.rng("cmap"), ctx.budget(1500, 100000))
                 + cmap_family_lines(ctx.rng("cmapfam"), ctx.budget(400, 20000)), classify=classify_cmap)
    P.correspond(ctx, "pipeline-shape", shape_lines(ctx.rng("shape"), chars, ctx.budget(600, 50000))
                 + shape_family_lines(ctx.rng("shapefam"), chars, ctx.budget(250, 12000)), classify=classify_shape)
    # the value-record model behind C16_axis_value_record / _apply / _pair_apply against the crate's own Apply impls
    # (requests, canonicalisation and classification are C07's: SinglePos / PairPos with device tables on a face with ppem)
    import C07
    ctx.correspond("gpos-apply-device", lines=C07.subd_lines(ctx.rng("subd"), ctx.budget(1500, 60000)),
                   classify=C07.classify_subd, canon=C07.canon)
    # C16_mapped_character_own_glyph & co. are statements about Norm.lean (every normalization mode): their tie to the
    # crate is C09's norm-run protocol on requests about mapped characters; a disagreement is promoted into shape() inputs
    env = L.Env(shim)
    import C09
    dis = ctx.correspond("norm-run-mapped", lines=L.lattice_run_lines(ctx.rng("norm-mapped"), ctx.budget(6000, 150000), 2),
                         classify=C09.classify_run)
    L.promote_norm_run(ctx, shim, env, dis, ctx.budget(40, 300), [L.judge_own_glyph_p], "norm-run-mapped")
    L.search(ctx, shim, env, ctx.rng("lattice"), ("decomposable", "plain"), lattice_keep(env), [L.judge_own_glyph],
             LATTICE_RULE, dirs=("-", "t"))
    macroman_search(ctx, shim)
    default_search(ctx, shim, chars, ctx.rng("default"), ctx.budget(500, 40000))
    cmap_family_search(ctx, shim, chars, ctx.rng("cmapfamsearch"), ctx.budget(250, 12000))
    gpos_axis_search(ctx, shim, ctx.rng("gposaxis"), ctx.budget(300, 20000), ctx.budget(12, 16))
    corpus_monitors(ctx, shim, ctx.rng("corpus"), ctx.budget(300, 2128))


def replay(ctx, rp):
    shim = vlib.build_harness()
    if rp.get("stream") == L.STREAM:
        return L.replay(shim, rp, [L.judge_own_glyph])
    if rp.get("stream") == L.PROMOTED:
        return L.replay_promoted(shim, rp, [L.judge_own_glyph_p])
    if rp.get("stream") == "macroman":
        got = [int(x) for x in vlib.run_lines(shim, ["pl mactable"], nproc=1)[0].split()]
        i = rp["byte"] - 0x80
        print(f"byte 0x{rp['byte']:02X}: table U+{got[i]:04X}, mac_roman U+{rp['expected']:04X}")
        return 0 if got[i] == rp["expected"] else 1
    if rp.get("stream") == "default-metrics" and "font_line" in rp:
        o = vlib.run_groups(shim, [[rp["font_line"], rp["request"]]], nproc=1)[0]
        print("reply   :", o[1]); print("expected:", rp["expected"])
        got = [(x[0], x[1], x[3], x[4], x[5], x[6]) for x in
               (tuple(int(v) for v in g.split(":")) for g in o[1].split()[2:])] if o[1].startswith("ok") else None
        return 0 if got == [tuple(x) for x in rp["expected"]] else 1
    if rp.get("stream") == "axis-gid16":
        o = vlib.run_groups(shim, [[rp["font_line"], rp["request"]]], nproc=1)[0]
        print("reply:", o[1])
        d = rp["request"].split()[2]
        bad, _ = monitor_line(o[1], d in "lr-")
        print("monitor:", bad)
        return 1 if bad else 0
    if "request" in rp:
        model = vlib.build_model()
        a = vlib.run_lines(shim, [rp["request"]], nproc=1)[0]
        b = vlib.run_lines(model, [rp["request"]], nproc=1)[0]
        print("impl :", a); print("model:", b)
        if "expected" in rp:
            print("expected:", rp["expected"])
            return 0 if P.parse_out(a) == [tuple(x) for x in rp["expected"]] else 1
        return 0 if a == b else 1
    print(rp); return 1
