"""C12 — Hangul syllables compose/decompose by Unicode arithmetic, per font support."""
import os, struct, sys, unicodedata
import vlib

MODULE = "RbModel.Props.C12"
LEVEL = "proof"

# ---------------------------------------------------------------------------------------------------
# the arithmetic specification, written from Unicode ch. 3.12 (NOT read from the crate or from Gen/)

L_BASE, V_BASE, T_BASE, S_BASE = 0x1100, 0x1161, 0x11A7, 0xAC00
L_COUNT, V_COUNT, T_COUNT = 19, 21, 28
N_COUNT, S_COUNT = V_COUNT * T_COUNT, L_COUNT * V_COUNT * T_COUNT
DOTTED = 0x25CC
TONES = (0x302E, 0x302F)


def comb_l(u): return L_BASE <= u < L_BASE + L_COUNT
def comb_v(u): return V_BASE <= u < V_BASE + V_COUNT
def comb_t(u): return T_BASE < u < T_BASE + T_COUNT
def is_s(u): return S_BASE <= u < S_BASE + S_COUNT
def is_l(u): return 0x1100 <= u <= 0x115F or 0xA960 <= u <= 0xA97C
def is_v(u): return 0x1160 <= u <= 0x11A7 or 0xD7B0 <= u <= 0xD7C6
def is_t(u): return 0x11A8 <= u <= 0x11FF or 0xD7CB <= u <= 0xD7FB
def is_tone(u): return u in TONES


def compose(l, v, t=None):
    return S_BASE + ((l - L_BASE) * V_COUNT + (v - V_BASE)) * T_COUNT + ((t - T_BASE) if t else 0)


def decompose(s):
    i = s - S_BASE
    l, v, t = L_BASE + i // N_COUNT, V_BASE + (i % N_COUNT) // T_COUNT, T_BASE + i % T_COUNT
    return [l, v] + ([t] if t != T_BASE else [])


# ---------------------------------------------------------------------------------------------------
# support specs (see harness/src/ops/hangul.rs) and their python reading


class Spec:
    def __init__(self, text):
        self.text = text
        self.items = []
        if text != "-":
            for it in text.split(","):
                z = it.endswith("z")
                if z: it = it[:-1]
                m = r = 0; neg = False
                if "%" in it:
                    it, f = it.split("%")
                    if "=" in f: m, r = map(int, f.split("="))
                    else: m, r = map(int, f.split("!")); neg = True
                a, b = (map(int, it.split("-")) if "-" in it else (int(it), int(it)))
                self.items.append((a, b, m, r, neg, z))
        self._gid = None

    def _hit(self, it, u):
        a, b, m, r, neg, z = it
        return a <= u <= b and (m == 0 or (((u - a) % m == r) != neg))

    def has(self, u): return any(self._hit(it, u) for it in self.items)
    def zero(self, u): return any(it[5] and self._hit(it, u) for it in self.items)

    def gid(self, u):
        """glyph id assigned by the builder: 1,2,3… in spec order; 0 if unmapped."""
        if self._gid is None:
            self._gid = {}
            g = 1
            for it in self.items:
                for c in range(it[0], it[1] + 1):
                    if self._hit(it, c):
                        self._gid[c] = g; g += 1
        return self._gid.get(u, 0)


JAMO = "4352-4607"                       # U+1100..11FF
EXT = "43360-43388", "55216-55238,55243-55291"   # U+A960..A97C ; U+D7B0..D7C6, U+D7CB..D7FB
SYL = "44032-55203"


def font_spec(syl, jamo=JAMO, tones="12334-12335", dotted=True):
    parts = ["65-90", jamo]
    if dotted: parts.append("9676")
    if tones: parts.append(tones)
    parts.append(EXT[0])
    if syl: parts.append(syl)
    parts.append(EXT[1])
    return ",".join(p for p in parts if p)


FONTS = {
    "all": font_spec(SYL),
    "nosyl": font_spec(None),
    "lvonly": font_spec(SYL + "%28=0"),
    "lvtonly": font_spec(SYL + "%28!0"),
    "mix3": font_spec(SYL + "%3=0"),
    "mix7": font_spec(SYL + "%7!3"),
    "nosyl-noT": font_spec(None, jamo="4352-4519"),          # trailing jamo U+11A8.. unmapped
    "nosyl-noV": font_spec(None, jamo="4352-4447,4520-4607"),  # vowels unmapped
    "all-zt": font_spec(SYL, tones="12334-12335z"),
    "nosyl-zt": font_spec(None, tones="12334-12335z"),
    "all-nodc": font_spec(SYL, dotted=False),
    # the two tone marks are two glyphs with their own advances: fonts that give them DIFFERENT width classes, both ways
    "all-z1": font_spec(SYL, tones="12334z,12335"),          # U+302E zero-width, U+302F spacing
    "all-z2": font_spec(SYL, tones="12334,12335z"),          # U+302E spacing, U+302F zero-width
    "nosyl-z1": font_spec(None, tones="12334z,12335"),
    "nosyl-z2": font_spec(None, tones="12334,12335z"),
    "mix3-z1-nodc": font_spec(SYL + "%3=0", tones="12334z,12335", dotted=False),
    "mix3-z2": font_spec(SYL + "%3=0", tones="12334,12335z"),
}
TONE_FONTS = ["all-z1", "all-z2", "nosyl-z1", "nosyl-z2", "mix3-z1-nodc", "mix3-z2", "all", "all-zt"]

# ---------------------------------------------------------------------------------------------------
# what the property promises for ONE syllable chunk (no claim -> None)


def expect_chunk(chunk, has):
    """(code points, feature tags 0/1/2/3, one_cluster: bool) the property promises for the chunk."""
    n = len(chunk)
    if n >= 2 and is_l(chunk[0]) and is_v(chunk[1]) and (n == 2 or is_t(chunk[2])):
        if comb_l(chunk[0]) and comb_v(chunk[1]) and (n == 2 or comb_t(chunk[2])):
            s = compose(*chunk)
            if has(s):
                return [s], [0], True
        return list(chunk), [1, 2, 3][:n], True         # old Hangul never composes; jamo get their features
    if is_s(chunk[0]):
        s = chunk[0]
        parts = decompose(s)
        if n == 1:
            if has(s): return [s], [0], True
            if all(has(p) for p in parts): return parts, [1, 2, 3][:len(parts)], True
            return [s], [0], True
        t = chunk[1]
        if len(parts) == 2 and comb_t(t):
            if has(s + t - T_BASE): return [s + t - T_BASE], [0], True
        if len(parts) == 2 and is_t(t):
            if has(parts[0]) and has(parts[1]):
                return parts + [t], [1, 2, 3], True      # <LV,T> that cannot be one glyph: three tagged jamo
            return [s, t], [0, 0], False                 # nothing to decompose with: left alone
    return None


def spec_parse(cps, i, has):
    """syllable starting at cps[i]: (glyphs as (cp, feature), number of following code points taken in)."""
    u = cps[i]; n = len(cps)
    nxt = cps[i + 1] if i + 1 < n else None
    if is_l(u):
        if nxt is not None and is_v(nxt):
            t = cps[i + 2] if i + 2 < n and is_t(cps[i + 2]) else None
            exp = expect_chunk([u, nxt] + ([t] if t else []), has)
            return list(zip(exp[0], exp[1])), (2 if t else 1)
        return [], 0
    if is_s(u):
        if nxt is not None and is_t(nxt) and (u - S_BASE) % T_COUNT == 0:
            exp = expect_chunk([u, nxt], has)
            if len(exp[0]) != 2:                   # composed or three jamo: the T is taken in
                return list(zip(exp[0], exp[1])), 1
        exp = expect_chunk([u], has)
        if exp[0] == [u] and not has(u):
            return [], 0                           # neither the syllable nor its jamo: passed through
        return list(zip(exp[0], exp[1])), 0
    return [], 0


def spec_render_syl(cps, sp, nodc):
    """the whole text per the property: list of (code point, feature, syllable id | None) — glyphs with the same
    syllable id render ONE syllable (they share one cluster at level MonotoneGraphemes)."""
    out, pend, i, sid = [], [], 0, 0
    while i < len(cps):
        u = cps[i]
        if is_tone(u):
            if pend:
                out += (pend + [(u, 0, None)]) if sp.zero(u) else ([(u, 0, None)] + pend)
            elif sp.has(DOTTED) and not nodc:
                out += [(DOTTED, 0, None), (u, 0, None)] if sp.zero(u) else [(u, 0, None), (DOTTED, 0, None)]
            else:
                out.append((u, 0, None))
            pend = []; i += 1
            continue
        out += pend; pend = []
        syl, k = spec_parse(cps, i, sp.has)
        if syl:
            sid += 1
            pend = [(c, t, sid) for c, t in syl]; i += 1 + k
        else:
            out.append((u, 0, None)); i += 1
    return out + pend


def spec_render(cps, sp, nodc):
    """the whole text per the property: list of (code point, feature)."""
    return [(c, t) for c, t, _ in spec_render_syl(cps, sp, nodc)]


def text_in_finding_class(cps, has):
    return any(finding_class(cps[i:i + 2], has) for i in range(len(cps) - 1))


def finding_class(chunk, has):
    """the one input class on which the crate is known (by this check) to break the promise."""
    if len(chunk) == 2 and is_s(chunk[0]) and (chunk[0] - S_BASE) % T_COUNT == 0 and is_t(chunk[1]) \
            and not has(chunk[0]):
        return "hangul-LV-T-without-LV-glyph"
    return None


# ---------------------------------------------------------------------------------------------------
# directions and table environments
#
# The property speaks about runs that the Hangul shaper shapes.  Which shaper a plan uses is decided from the script, the
# direction and the font's tables (ot_shape.rs, planner): a font with an AAT 'morx' table is shaped by AAT — the script's
# shaper is replaced by a shaper that does nothing — for horizontal text, and for vertical text only when the font has no GSUB
# (harfbuzz#2124: GSUB is preferred for vertical text).  `judged` below is that rule, written from the HarfBuzz issue text and
# not from the crate: runs it excludes are OUTSIDE the property's quantifier (counted, never judged); on every other run —
# every direction, every combination of GSUB / morx / kern / GPOS / GDEF — the promise is the same as for a bare cmap font.

DIRS = "lrtb"                       # LTR, RTL, TTB, BTT


def horizontal(d): return d in "lr"
def backward(d): return d in "rb"


def judged(base_has_gsub, env, d):
    has_morx = "morx" in env
    has_gsub = base_has_gsub or "GSUB" in env
    return not (has_morx and (horizontal(d) or not has_gsub))


def is_continuation(c):
    """grapheme continuation among the code points these searches use = combining marks (UAX #29 Extend ∩ alphabet)"""
    return unicodedata.category(chr(c)).startswith("M")


def shaping_order(cps, d):
    """the text as the shaper sees it: a run against the script's native direction (RTL / BTT for Hangul) is reversed
    grapheme by grapheme (base + following marks stay together) before shaping, and the glyphs come out in that order"""
    if not backward(d):
        return list(cps)
    groups = []
    for c in cps:
        if groups and is_continuation(c): groups[-1].append(c)
        else: groups.append([c])
    return [c for g in reversed(groups) for c in g]


def sfnt_tables(data):
    out = {}
    for i in range(struct.unpack(">H", data[4:6])[0]):
        tag, _, off, ln = struct.unpack(">4sIII", data[12 + 16 * i:28 + 16 * i])
        out[tag.decode("latin-1")] = data[off:off + ln]
    return out


# environments for the cmap-only fonts (FONTS) and for the GSUB-feature fonts (GSUB_FONTS, which have a GSUB already).
# 'morx0' = a morx with one chain and no subtable, 'morx' = a morx whose non-contextual subtable would replace every glyph
# 1..1200 by its successor in all directions if it were applied: on a run GSUB shapes it must have no effect at all.
ENVS = ["", "GSUB", "GSUB+morx0", "GSUB+morx", "morx0", "kern", "GPOS", "GDEF", "GSUB+morx+kern+GPOS+GDEF"]
GSUB_ENVS = ["", "morx0", "morx", "kern", "GPOS", "GDEF", "morx+kern+GPOS+GDEF"]
_env_cache = {}


def env_tables(env, font):
    """extras argument of `hangul fontx` for an environment; `font` gives glyph ids (GDEF classes)"""
    import fontbuild
    if "static" not in _env_cache:
        noop = {"type": 1, "flag": 0, "subtables": [{"format": 2, "coverage": [65000], "subst": [65000]}]}
        scripts = lambda n: [{"tag": t, "default": {"required": None, "features": list(range(n))}} for t in ("DFLT", "hang")]
        rec = {"num_glyphs": 5, "cmap": {0x41: 1},
               "gsub": {"scripts": scripts(4), "lookups": [noop],
                        "features": [{"tag": t, "lookups": [0]} for t in ("ccmp", "ljmo", "tjmo", "vjmo")]},
               "gpos": {"scripts": scripts(3), "features": [{"tag": t, "lookups": [0]} for t in ("dist", "kern", "vkrn")],
                        "lookups": [{"type": 1, "flag": 0, "subtables": [
                            {"format": 1, "coverage": {"ranges": [(1, 60000)]}, "value": {"xAdvance": 7, "yAdvance": -3}}]}]},
               "kern": [{"horizontal": True, "pairs": [(a, b, 10 * (a - b)) for a in range(1, 12) for b in range(1, 12)]},
                        {"horizontal": False, "pairs": [(1, 2, -50), (27, 28, 40)]}],
               "morx": {"version": 2, "chains": [{"default_flags": 1, "features": [], "subtables": [
                   {"kind": "noncontextual", "all_directions": True, "format": 8, "map": {g: g + 1 for g in range(1, 1201)}}]}]}}
        t = sfnt_tables(fontbuild.build(rec))
        rec0 = {"num_glyphs": 5, "cmap": {0x41: 1}, "morx": {"version": 2, "chains": [{"default_flags": 0, "features": [], "subtables": []}]}}
        _env_cache["static"] = {"GSUB": t["GSUB"], "GPOS": t["GPOS"], "kern": t["kern"], "morx": t["morx"],
                                "morx0": sfnt_tables(fontbuild.build(rec0))["morx"]}
    st = _env_cache["static"]
    parts = []
    for e in env.split("+"):
        if e == "GDEF":
            cls = {font.gid(c): 3 for c in TONES if font.gid(c)}
            cls.update({font.gid(c): 1 for c in (DOTTED, 0x41, L_BASE, V_BASE, T_BASE + 1, S_BASE) if font.gid(c)})
            data = sfnt_tables(fontbuild.build({"num_glyphs": 5, "cmap": {0x41: 1}, "gdef": {"classes": cls}}))["GDEF"]
            parts.append("GDEF:" + data.hex())
        else:
            parts.append(("morx" if e.startswith("morx") else e) + ":" + st[e].hex())
    return ",".join(parts)


def env_font_id(f, env): return f if not env else f"{f}+{env}"


def env_register(base_id, env, font):
    return f"hangul fontx {env_font_id(base_id, env)} {base_id} {env_tables(env, font)}"


def combos(envs):
    """every (direction, environment) except the plain one the searches always run"""
    return [(d, e) for d in DIRS for e in envs if (d, e) != ("l", "")]


def note_env(dist, d, env, ok):
    k = ("judged " if ok else "outside-quantifier(AAT shapes the run) ") + f"dir={d} env={env or 'none'}"
    dist[k] = dist.get(k, 0) + 1


# ---------------------------------------------------------------------------------------------------
# request builders / parsers


def pre_line(level, nodc, spec, cps, cls):
    text = ",".join(f"{c}:{k}" for c, k in zip(cps, cls)) or "-"
    return f"hangul pre {level} {nodc} {spec} {text}"


def parse_pre(out):
    if not out.startswith("ok"):
        return None
    r = []
    for t in out.split()[1:]:
        c, k, f = t.split(":")
        r.append((int(c), int(k), int(f)))
    return r


def shape_line(fid, level, flags, cps, cls, d="l"):
    text = ",".join(f"{c:x}:{k}" for c, k in zip(cps, cls)) or "-"
    return f"shape {fid} {d} Hang - {flags} {level} - - - {text}"


def parse_shape(out):
    if not out.startswith("ok"):
        return None
    r = []
    for t in out.split()[2:]:
        f = t.split(":")
        r.append((int(f[0]), int(f[1])))
    return r


# ---------------------------------------------------------------------------------------------------
# correspondence generators

BOUNDARY = [0, 0x40, 0x10FF, 0x1100, 0x1112, 0x1113, 0x115E, 0x115F, 0x1160, 0x1161, 0x1175, 0x1176, 0x11A6,
            0x11A7, 0x11A8, 0x11C2, 0x11C3, 0x11FF, 0x1200, 0x25CC, 0x302D, 0x302E, 0x302F, 0x3030, 0x3131,
            0xA95F, 0xA960, 0xA97C, 0xA97D, 0xABFF, 0xAC00, 0xAC01, 0xAC1B, 0xAC1C, 0xD7A2, 0xD7A3, 0xD7A4,
            0xD7AF, 0xD7B0, 0xD7C6, 0xD7C7, 0xD7CA, 0xD7CB, 0xD7FB, 0xD7FC, 0xFFFF, 0x10000, 0x10FFFF]


def rand_cp(r):
    k = r.below(20)
    if k < 3: return r.range(0x1100, 0x1112)
    if k < 6: return r.range(0x1161, 0x1175)
    if k < 9: return r.range(0x11A8, 0x11C2)
    if k == 9: return r.choice([r.range(0x1113, 0x115F), r.range(0xA960, 0xA97C)])
    if k == 10: return r.choice([0x1160, r.range(0x1176, 0x11A7), r.range(0xD7B0, 0xD7C6)])
    if k == 11: return r.choice([r.range(0x11C3, 0x11FF), r.range(0xD7CB, 0xD7FB)])
    if k < 14: return S_BASE + r.below(L_COUNT * V_COUNT) * T_COUNT            # LV
    if k < 16: return S_BASE + r.below(S_COUNT)                                 # mostly LVT
    if k < 18: return r.choice(TONES)
    if k == 18: return r.choice([0x41, 0x20, 0x25CC, 0x3131, 0x0301])
    return r.choice(BOUNDARY[1:])


def rand_clusters(r, n):
    k = r.below(7)
    if k == 0: return list(range(n))
    if k == 1: return [5] * n
    if k == 2: return list(range(n - 1, -1, -1))
    if k == 3:                                     # runs of equal clusters, ascending
        out, c = [], r.below(3)
        for _ in range(n):
            if r.chance(1, 2): c += r.range(1, 2)
            out.append(c)
        return out
    if k == 4:                                     # runs, descending
        out, c = [], 20
        for _ in range(n):
            if r.chance(1, 2): c -= 1
            out.append(c)
        return out
    if k == 5: return [r.below(4) for _ in range(n)]
    return [r.below(1000) for _ in range(n)]


def relevant(cps):
    """code points whose presence in the font can matter for this text."""
    s = set(cps) | {DOTTED}
    for i, c in enumerate(cps):
        if is_s(c):
            s.update(decompose(c))
            if i + 1 < len(cps) and comb_t(cps[i + 1]) and (c - S_BASE) % T_COUNT == 0:
                s.add(c + cps[i + 1] - T_BASE)
        if comb_l(c) and i + 1 < len(cps) and comb_v(cps[i + 1]):
            s.add(compose(c, cps[i + 1]))
            if i + 2 < len(cps) and comb_t(cps[i + 2]):
                s.add(compose(c, cps[i + 1], cps[i + 2]))
    return sorted(x for x in s if x <= 0x10FFFF)


def rand_spec(r, cps):
    rel = relevant(cps)
    mode = r.below(6)
    p = [0, 100, 30, 50, 80, 90][mode]
    items = []
    for c in rel:
        if r.below(100) < p:
            z = r.chance(1, 2) if is_tone(c) else r.chance(1, 10)
            items.append(f"{c}z" if z else f"{c}")
    return ",".join(items) or "-"


def rand_text(r):
    k = r.below(10)
    if k < 6:
        return [rand_cp(r) for _ in range(r.range(1, 8))]
    # syllable-structured text: chunks with occasional tone marks / strays
    out = []
    for _ in range(r.range(1, 4)):
        j = r.below(6)
        if j == 0: out += [r.range(0x1100, 0x1112), r.range(0x1161, 0x1175)]
        elif j == 1: out += [r.range(0x1100, 0x1112), r.range(0x1161, 0x1175), r.range(0x11A8, 0x11C2)]
        elif j == 2: out += [S_BASE + r.below(L_COUNT * V_COUNT) * T_COUNT, r.range(0x11A8, 0x11C2)]
        elif j == 3: out += [S_BASE + r.below(S_COUNT)]
        elif j == 4: out += [rand_cp(r), rand_cp(r)]
        else: out += [S_BASE + r.below(L_COUNT * V_COUNT) * T_COUNT, r.choice([r.range(0x11C3, 0x11FF), r.range(0xD7CB, 0xD7FB)])]
        if r.chance(1, 3): out.append(r.choice(TONES))
    return out[:10]


def pre_lines(r, n):
    lines = []
    for _ in range(n):
        cps = rand_text(r)
        cls = rand_clusters(r, len(cps))
        level = r.choice([0, 0, 0, 1, 2])
        nodc = 1 if r.chance(1, 5) else 0
        spec = r.choice(list(FONTS.values())) if r.chance(1, 6) else rand_spec(r, cps)
        lines.append(pre_line(level, nodc, spec, cps, cls))
    return lines


def classify_pre(ln, out):
    t = ln.split()
    ks = [f"level{t[2]}"]
    if not out.startswith("ok"):
        return ks + ["not-ok"]
    inp = [] if t[5] == "-" else [tuple(map(int, x.split(":"))) for x in t[5].split(",")]
    res = parse_pre(out)
    icp = [c for c, _ in inp]; ocp = [c for c, _, _ in res]
    ks.append(f"len{len(inp)}")
    if any(is_s(c) for c in ocp if c not in icp): ks.append("composed")
    if any(is_s(c) for c in icp if c not in ocp): ks.append("decomposed")
    if any(f for _, _, f in res): ks.append("tagged")
    if DOTTED in ocp and ocp.count(DOTTED) > icp.count(DOTTED): ks.append("dotted-circle-inserted")
    if any(is_tone(c) for c in icp):
        ks.append("has-tone")
        ti = [i for i, c in enumerate(ocp) if is_tone(c)]
        if any(i + 1 < len(ocp) and (is_s(ocp[i + 1]) or is_l(ocp[i + 1])) for i in ti): ks.append("tone-before-syllable")
    if ocp == icp and not any(f for _, _, f in res): ks.append("unchanged")
    if len(set(k for _, k in inp)) > len(set(k for _, k, _ in res)): ks.append("clusters-merged")
    return ks


def pred_lines(r, n):
    us = set(BOUNDARY)
    for b in BOUNDARY:
        us.update([max(0, b - 1), b + 1])
    us.update(r.below(0x110000) for _ in range(n))
    us.update(r.range(0x1000, 0x1300) for _ in range(n // 4))
    us.update(r.range(0xA900, 0xAA00) for _ in range(n // 8))
    us.update(r.range(0xD700, 0xD800) for _ in range(n // 8))
    return ["hangul consts", "hangul ranges"] + [f"hangul pred {u}" for u in sorted(us) if u <= 0x10FFFF]


def support_lines(r, n):
    lines = []
    names = list(FONTS)
    for _ in range(n):
        if r.chance(1, 2):
            spec = FONTS[r.choice(names)]
        else:
            spec = rand_spec(r, [rand_cp(r) for _ in range(r.range(1, 6))])
        u = r.choice([rand_cp(r), rand_cp(r), DOTTED, r.below(0x110000)])
        lines.append(f"hangul support {spec} {u}")
    return lines


# ---------------------------------------------------------------------------------------------------
# search: enumerations against the arithmetic spec


def pick(k, stride, offset):
    """pseudo-random 1/stride selection (a plain stride of 16 would never meet t = 0: 28 = 12 mod 16)."""
    return stride == 1 or ((k * 0x9E3779B1 + 0x7F4A7C15) >> 9) % stride == offset


def enum_cases(stride, offset):
    """(kind, chunk) for every syllable, every L V (T) sequence and every LV + T."""
    k = 0
    for s in range(S_BASE, S_BASE + S_COUNT):
        if pick(k, stride, offset): yield "S", [s]
        k += 1
    for l in range(L_COUNT):
        for v in range(V_COUNT):
            for t in range(T_COUNT):
                if pick(k, stride, offset):
                    yield "LVT" if t else "LV", [L_BASE + l, V_BASE + v] + ([T_BASE + t] if t else [])
                k += 1
    for l in range(L_COUNT):
        for v in range(V_COUNT):
            for t in range(1, T_COUNT):
                if pick(k, stride, offset):
                    yield "LV+T", [compose(L_BASE + l, V_BASE + v), T_BASE + t]
                k += 1


OLD_L = list(range(0x1113, 0x1160)) + list(range(0xA960, 0xA97D))
OLD_V = [0x1160] + list(range(0x1176, 0x11A8)) + list(range(0xD7B0, 0xD7C7))
OLD_T = list(range(0x11C3, 0x1200)) + list(range(0xD7CB, 0xD7FC))


def old_cases(r, n):
    """jamo sequences L V (T) with at least one non-combining member, and LV + old T."""
    out = []
    cl = lambda: r.range(L_BASE, L_BASE + L_COUNT - 1)
    cv = lambda: r.range(V_BASE, V_BASE + V_COUNT - 1)
    ct = lambda: r.range(T_BASE + 1, T_BASE + T_COUNT - 1)
    # every old jamo once in each position, the rest combining
    for l in OLD_L: out.append(("old", [l, cv()])); out.append(("old", [l, cv(), ct()]))
    for v in OLD_V: out.append(("old", [cl(), v])); out.append(("old", [cl(), v, ct()]))
    for t in OLD_T:
        out.append(("old", [cl(), cv(), t]))
        out.append(("LV+oldT", [compose(cl(), cv()), t]))
    for _ in range(n):
        l = r.choice(OLD_L) if r.chance(1, 2) else cl()
        v = r.choice(OLD_V) if r.chance(1, 2) else cv()
        t = r.choice(OLD_T) if r.chance(1, 2) else ct()
        if comb_l(l) and comb_v(v) and comb_t(t): continue
        out.append(("old", [l, v, t] if r.chance(2, 3) else [l, v]))
    return [(k, c) for k, c in out if not (comb_l(c[0]) and len(c) > 1 and comb_v(c[1]) and (len(c) == 2 or comb_t(c[2])))]


def wrap(r, chunk, i):
    """put the chunk into a benign context; returns (cps, clusters, lo, hi) with chunk = cps[lo:hi]."""
    m = i % 4
    if m == 0: pre, post = [], []
    elif m == 1: pre, post = [0x41], [0x42]
    elif m == 2: pre, post = [0x41, 0x43], []
    else: pre, post = [], [0x42]
    cps = pre + chunk + post
    return cps, list(range(3, 3 + len(cps))), len(pre), len(pre) + len(chunk)


def check_case(kind, fname, spec, level, cps, cls, lo, hi, got, via):
    """got: list of (cp, cluster, tag|None). Returns (message, finding) or None."""
    chunk = cps[lo:hi]
    exp = expect_chunk(chunk, spec.has)
    if exp is None:
        return None
    ecp, etag, one = exp
    want_cp = cps[:lo] + ecp + cps[hi:]
    gcp = [g[0] for g in got]
    fnd = finding_class(chunk, spec.has)
    if gcp != want_cp:
        return (f"{kind} on font '{fname}' via {via}: code points {fmt(gcp)} expected {fmt(want_cp)}", fnd)
    sub = got[lo:lo + len(ecp)]
    if via == "hook" and [g[2] for g in sub] != etag:
        return (f"{kind} on font '{fname}' via hook: features {[g[2] for g in sub]} expected {etag} "
                f"for {fmt(chunk)} -> {fmt(ecp)}", fnd)
    if via == "hook" and any(g[2] for g in got[:lo] + got[lo + len(ecp):]):
        return (f"{kind} on font '{fname}' via hook: feature set outside the syllable", fnd)
    if level == 0 and one:
        want = min(cls[lo:hi])
        if any(g[1] != want for g in sub):
            return (f"{kind} on font '{fname}' via {via}: clusters {[g[1] for g in sub]} of one syllable, "
                    f"expected all {want}", fnd)
    if [g[1] for g in got[:lo]] != cls[:lo] or [g[1] for g in got[lo + len(ecp):]] != cls[hi:]:
        return (f"{kind} on font '{fname}' via {via}: clusters of the context changed", fnd)
    return None


def fmt(cps): return "<" + ",".join(f"{c:04X}" for c in cps) + ">"


def run_enumeration(ctx, shim, name, cases, fonts, levels, nextra=2):
    """every case x font, once through shape() (glyphs, clusters) and once through the hook (features); and `nextra` more
    times through shape() in a drawn (direction, table environment).  For RTL / BTT the text is sent reversed (chunks and
    contexts hold no marks), so that the shaper sees the same text and the same result is due."""
    specs = {f: Spec(FONTS[f]) for f in fonts}
    cmb = combos(ENVS)
    per = 400
    groups = []
    batch = []
    for i, (kind, chunk) in enumerate(cases):
        batch.append((i, kind, chunk))
        if len(batch) == per:
            groups.append(batch); batch = []
    if batch: groups.append(batch)
    r = ctx.rng(name)
    re_ = ctx.rng(name + "/env")
    glines, gmeta, gregs = [], [], []
    for b in groups:
        lines = []; m = []; need = []
        for i, kind, chunk in b:
            cps, cls, lo, hi = wrap(r, chunk, i)
            for f in fonts:
                for level in levels:
                    lines.append(shape_line(f, level, 0, cps, cls)); m.append((kind, f, level, cps, cls, lo, hi, "shape()", "l", ""))
                    lines.append(pre_line(level, 0, FONTS[f], cps, cls)); m.append((kind, f, level, cps, cls, lo, hi, "hook", None, None))
                    for _ in range(nextra):
                        d, env = re_.choice(cmb)
                        if env and (f, env) not in need: need.append((f, env))
                        xs, xc = (cps[::-1], cls[::-1]) if backward(d) else (cps, cls)
                        lines.append(shape_line(env_font_id(f, env), level, 0, xs, xc, d))
                        m.append((kind, f, level, cps, cls, lo, hi, "shape()", d, env))
        regs = [f"hangul font {f} {FONTS[f]}" for f in fonts] + [env_register(f, e, specs[f]) for f, e in need]
        glines.append(regs + lines); gmeta.append(m); gregs.append(regs)
    outs = vlib.run_groups(shim, glines, timeout=900)
    total = 0; outside = 0; dist = {}; envdist = {}
    reported = ctx.__dict__.setdefault("_c12_reported", set())
    for lines, m, regs, o in zip(glines, gmeta, gregs, outs):
        for ln, (kind, f, level, cps, cls, lo, hi, via, d, env), out in zip(lines[len(regs):], m, o[len(regs):]):
            total += 1
            sp = specs[f]
            if via != "hook":
                ok = judged(False, env, d)
                note_env(envdist, d, env, ok)
                if not ok:
                    outside += 1
                    if out.startswith("ok"): continue
                via = f"shape() dir={d} env={env or 'none'}"
            if via == "hook":
                got = parse_pre(out)
            else:
                res = parse_shape(out)
                got = None
                if res is not None:
                    # glyph ids back to code points (0 = unmapped: keep the promise's own unmapped code points)
                    exp = expect_chunk(cps[lo:hi], sp.has)
                    want = cps[:lo] + (exp[0] if exp else cps[lo:hi]) + cps[hi:]
                    inv = {sp.gid(c): c for c in set(want) | set(cps) if sp.gid(c)}
                    got = []
                    for j, (g, k) in enumerate(res):
                        c = inv.get(g)
                        if c is None and g == 0 and j < len(want) and sp.gid(want[j]) == 0:
                            c = want[j]
                        got.append((c if c is not None else -g, k, None))
            key = f"{kind}/{f}"
            dist[key] = dist.get(key, 0) + 1
            if got is None:
                bad = (f"{kind} on font '{f}' via {via}: reply {out[:80]}", None)
            else:
                bad = check_case(kind, f, sp, level, cps, cls, lo, hi, got, via)
            if bad:
                msg, fnd = bad
                dist["violating" + (":" + fnd if fnd else "")] = dist.get("violating" + (":" + fnd if fnd else ""), 0) + 1
                key2 = fnd if fnd else (name, kind, f, via)
                if key2 in reported:
                    continue
                reported.add(key2)
                reg = [f"hangul font {f} {FONTS[f]}"] + ([env_register(f, env, sp)] if env else [])
                rp = {"stage": "search", "stream": name, "kind": kind, "font": f, "font_spec": FONTS[f],
                      "via": via, "request": ln, "register": reg,
                      "observed": out, "text": fmt(cps), "level": level}
                if d is not None:
                    rp.update({"direction": d, "environment": env or "none",
                               "text_sent": fmt(cps[::-1] if backward(d) else cps)})
                if fnd: rp["finding"] = fnd
                ctx.violation(msg, rp)
    dist.update(envdist)
    ctx.note_search(name, total, total - outside, distribution=dist,
                    rule="one request = one (syllable chunk in a small context, font, cluster level) through shape() "
                         "or through the preprocess hook, compared with the arithmetic specification written in "
                         "tools/props/C12.py (independent of the crate and of the model); all judged ones are non-trivial. "
                         "Besides LTR on the bare cmap font every case runs in drawn (direction, table environment) pairs: "
                         "4 directions x {none, GSUB, GSUB+empty morx, GSUB+substituting morx, morx, kern, GPOS, GDEF, all}; "
                         "'judged' pairs must give the same result, pairs where AAT shapes the run (morx and horizontal text "
                         "or no GSUB) are outside the quantifier and only counted")
    return total


EDGES = sorted({e + d for e in [0x1100, 0x1112, 0x115F, 0x1160, 0x1161, 0x1175, 0x11A7, 0x11A8, 0x11C2, 0x11FF, 0xA960,
                                 0xA97C, 0xD7B0, 0xD7C6, 0xD7CB, 0xD7FB, 0xAC00, 0xD7A3, 0x302E, 0x302F]
                for d in (-1, 0, 1)} | {0xAC1C, 0xAC1B, 0xAC01, 0xD788})
HEADS = [0x1100, 0x1112, 0x1113, 0x115F, 0xA960, 0xA97C, 0xAC00, 0xAC01, 0xAC1C, 0xD788, 0xD7A3, 0x41]


# other combining marks: after preprocessing, shape() sorts mark runs by combining class (normalizer round 2, also in
# mode NONE), and an inserted dotted circle carries the tone mark's class — not this property's business
OTHER_MARKS = {0x0301, 0x302D}


def whole_text_search(ctx, shim, name, texts, fonts, levels=(0,), nextra=2):
    """arbitrary texts: (code point, feature) sequence through the hook and glyph sequence through shape()
    against the python rendering of the property (`spec_render`); through shape() LTR on the bare font and in `nextra`
    drawn (direction, table environment) pairs — for RTL / BTT the promise is about the text in shaping order."""
    specs = {f: Spec(FONTS[f]) for f in fonts}
    cmb = combos(ENVS)
    re_ = ctx.rng(name + "/env")
    groups, metas, gregs = [], [], []
    per = 500
    for k in range(0, len(texts), per):
        lines = []; m = []; need = []
        for cps, nodc in texts[k:k + per]:
            cls = list(range(len(cps)))
            for f in fonts:
                for level in levels:
                    lines.append(pre_line(level, nodc, FONTS[f], cps, cls)); m.append((f, cps, nodc, "hook", None, None))
                    if not any(c in OTHER_MARKS for c in cps):
                        lines.append(shape_line(f, level, 16 if nodc else 0, cps, cls)); m.append((f, cps, nodc, "shape()", "l", ""))
                        for _ in range(nextra):
                            d, env = re_.choice(cmb)
                            if env and (f, env) not in need: need.append((f, env))
                            lines.append(shape_line(env_font_id(f, env), level, 16 if nodc else 0, cps, cls, d))
                            m.append((f, cps, nodc, "shape()", d, env))
        regs = [f"hangul font {f} {FONTS[f]}" for f in fonts] + [env_register(f, e, specs[f]) for f, e in need]
        groups.append(regs + lines); metas.append(m); gregs.append(regs)
    outs = vlib.run_groups(shim, groups, timeout=900)
    reported = ctx.__dict__.setdefault("_c12_reported", set())
    total = 0; outside = 0; dist = {}; envdist = {}
    for lines, m, regs, o in zip(groups, metas, gregs, outs):
        for ln, (f, sent, nodc, via, d, env), out in zip(lines[len(regs):], m, o[len(regs):]):
            total += 1
            sp = specs[f]
            cps = sent
            if via != "hook":
                ok = judged(False, env, d)
                note_env(envdist, d, env, ok)
                cps = shaping_order(sent, d)
                if not ok:
                    outside += 1
                    if out.startswith("ok"): continue
                via = f"shape() dir={d} env={env or 'none'}"
            want = spec_render(cps, sp, nodc)
            k = "changed" if [c for c, _ in want] != cps or any(t for _, t in want) else "unchanged"
            dist[k] = dist.get(k, 0) + 1
            bad = None
            if via == "hook":
                got = parse_pre(out)
                if got is None: bad = f"reply {out[:80]}"
                elif [(c, t) for c, _, t in got] != want:
                    bad = f"(code point, feature) {[(hex(c), t) for c, _, t in got]} expected {[(hex(c), t) for c, t in want]}"
                elif ln.split()[2] == "0":
                    # level MonotoneGraphemes: all glyphs of one syllable share one cluster
                    by = {}
                    for (c, k_, _), (_, _, sid) in zip(got, spec_render_syl(cps, sp, nodc)):
                        if sid is not None: by.setdefault(sid, set()).add(k_)
                    if any(len(v) > 1 for v in by.values()):
                        bad = f"glyphs of one syllable in different clusters at level 0: (code point, cluster) {[(hex(c), k_) for c, k_, _ in got]}"
            else:
                got = parse_shape(out)
                if got is None: bad = f"reply {out[:80]}"
                elif [g for g, _ in got] != [sp.gid(c) for c, _ in want]:
                    bad = f"glyphs {[g for g, _ in got]} expected {[sp.gid(c) for c, _ in want]} (= {fmt([c for c, _ in want])})"
                elif ln.split()[6] == "0":
                    by = {}
                    for (g, k_), (_, _, sid) in zip(got, spec_render_syl(cps, sp, nodc)):
                        if sid is not None: by.setdefault(sid, set()).add(k_)
                    if any(len(v) > 1 for v in by.values()):
                        bad = f"glyphs of one syllable in different clusters at level 0: (glyph, cluster) {got}"
            if bad:
                fnd = "hangul-LV-T-without-LV-glyph" if text_in_finding_class(cps, sp.has) else None
                kk = "violating" + (":" + fnd if fnd else "")
                dist[kk] = dist.get(kk, 0) + 1
                key2 = fnd if fnd else (name, f, via)
                if key2 in reported: continue
                reported.add(key2)
                reg = [f"hangul font {f} {FONTS[f]}"] + ([env_register(f, env, sp)] if env else [])
                rp = {"stage": "search", "stream": name, "font": f, "font_spec": FONTS[f], "via": via, "request": ln,
                      "register": reg, "observed": out, "text": fmt(sent)}
                if d is not None:
                    rp.update({"direction": d, "environment": env or "none", "text_in_shaping_order": fmt(cps)})
                if fnd: rp["finding"] = fnd
                ctx.violation(f"text {fmt(sent)} on font '{f}' via {via}: {bad}", rp)
    dist.update(envdist)
    ctx.note_search(name, total, total - outside, distribution=dist,
                    rule="whole texts (range-edge code points after syllable heads; random jamo/syllable/tone strings) "
                         "through the hook (code points + features) and through shape() (glyph ids) against "
                         "spec_render, the python rendering of the property; 'changed' = the shaper had to act. shape() runs "
                         "LTR on the bare font and in drawn (direction, table environment) pairs (see the enumeration's rule); "
                         "RTL / BTT runs are judged on the text in shaping order (reversed grapheme by grapheme)")


def edge_texts():
    out = []
    for h in HEADS:
        for a in EDGES:
            out.append(([h, a], 0))
            for b in EDGES:
                out.append(([h, a, b], 0))
    return out


# ---------------------------------------------------------------------------------------------------
# ljmo / vjmo / tjmo end to end: fonts from tools/fontbuild.py whose three features are single substitutions
# mapping every jamo glyph to a role-specific glyph, so the glyph id out of shape() shows which feature (if any)
# was applied to which glyph.  Glyph ids: jamo g in 1..J; role forms g + J (ljmo), g + 2J (vjmo), g + 3J (tjmo);
# second-level forms x + 6J for x in 1..4J; everything else above 10J.
# The LAYOUT says how the features reference the lookups — fonts share lookups between features of one stage in every
# way the map compiler has to merge (a shared lookup acts on a glyph iff ANY of the referencing features is on for it):
#   own        ljmo -> [L], vjmo -> [V], tjmo -> [T]                       (one lookup per feature)
#   one        ljmo, vjmo, tjmo -> [A]            A: g -> g + J            (all three share ONE lookup)
#   pair       ljmo, vjmo -> [A]; tjmo -> [T]                              (two share, one does not)
#   own+shared ljmo -> [L, S], vjmo -> [V, S], tjmo -> [T, S]   S: x -> x + 6J for x in J+1..4J  (own lookup + shared one)
#   tjmo+ccmp  ljmo -> [L], vjmo -> [V], tjmo -> [T, S'], ccmp -> [S']   S': x -> x + 6J for x in 1..4J
#              (a lookup shared by a masked shaper feature and a default-on global feature: ccmp is on everywhere, so S'
#               acts on every jamo glyph, tagged or not)

ALL_JAMO = (list(range(0x1100, 0x1200)) + list(range(0xA960, 0xA97D)) + list(range(0xD7B0, 0xD7C7))
            + list(range(0xD7CB, 0xD7FC)))
NJ = len(ALL_JAMO)


def _delta_lookup(lo, hi, delta):
    return {"type": 1, "flag": 0, "subtables": [{"format": 1, "coverage": {"ranges": [(lo, hi)]}, "delta": delta}]}


def gsub_layout(layout):
    """(features, lookups, glyph function (jamo gid, tag 0..3) -> gid) of a layout"""
    L, V, Tj = (_delta_lookup(1, NJ, k * NJ) for k in (1, 2, 3))
    if layout == "own":
        return ([("ljmo", [0]), ("vjmo", [1]), ("tjmo", [2])], [L, V, Tj], lambda g, t: g + t * NJ)
    if layout == "one":
        return ([("ljmo", [0]), ("vjmo", [0]), ("tjmo", [0])], [L], lambda g, t: g + (NJ if t else 0))
    if layout == "pair":
        return ([("ljmo", [0]), ("vjmo", [0]), ("tjmo", [1])], [L, Tj], lambda g, t: g + (0, NJ, NJ, 3 * NJ)[t])
    if layout == "own+shared":
        return ([("ljmo", [0, 3]), ("vjmo", [1, 3]), ("tjmo", [2, 3])], [L, V, Tj, _delta_lookup(NJ + 1, 4 * NJ, 6 * NJ)],
                lambda g, t: g + t * NJ + (6 * NJ if t else 0))
    if layout == "tjmo+ccmp":
        return ([("ccmp", [3]), ("ljmo", [0]), ("vjmo", [1]), ("tjmo", [2, 3])], [L, V, Tj, _delta_lookup(1, 4 * NJ, 6 * NJ)],
                lambda g, t: g + t * NJ + 6 * NJ)
    raise ValueError(layout)


GSUB_FONTS = {
    "g-nosyl": (lambda s: False, False, "own"),
    "g-all": (lambda s: True, False, "own"),
    "g-mix3": (lambda s: (s - S_BASE) % 3 == 0, False, "own"),
    "g-lvonly-zt": (lambda s: (s - S_BASE) % T_COUNT == 0, True, "own"),
    "g-nosyl-one": (lambda s: False, False, "one"),
    "g-mix3-pair": (lambda s: (s - S_BASE) % 3 == 0, False, "pair"),
    "g-mix7-own+shared": (lambda s: (s - S_BASE) % 7 != 3, False, "own+shared"),
    "g-nosyl-own+shared": (lambda s: False, False, "own+shared"),
    "g-lvonly-tjmo+ccmp": (lambda s: (s - S_BASE) % T_COUNT == 0, False, "tjmo+ccmp"),
}


class GsubFont:
    def __init__(self, name):
        import fontbuild
        syl, zero_tone, layout = GSUB_FONTS[name]
        cmap = {}; g = 1
        for c in ALL_JAMO:
            cmap[c] = g; g += 1
        g = 1 + 10 * NJ
        for c in list(range(0x41, 0x5B)) + [DOTTED] + list(TONES):
            cmap[c] = g; g += 1
        for c in range(S_BASE, S_BASE + S_COUNT):
            if syl(c):
                cmap[c] = g; g += 1
        adv = [600] * g
        if zero_tone:
            for t in TONES: adv[cmap[t]] = 0
        feats, lookups, self.form = gsub_layout(layout)
        rec = {"num_glyphs": g, "cmap": cmap, "advances": adv,
               "gsub": {"features": [{"tag": t, "lookups": ls} for t, ls in feats], "lookups": lookups}}
        self.name = name
        self.layout = layout
        self.features = feats
        self.hex = fontbuild.build(rec).hex()
        self.cmap = cmap
        self.zero_tone = zero_tone

    def has(self, u): return u in self.cmap
    def zero(self, u): return self.zero_tone and u in TONES
    def gid(self, u): return self.cmap.get(u, 0)

    def glyph(self, cp, tag):
        """what shape() must put out for code point `cp` carrying feature `tag` (0 = none, 1/2/3 = ljmo/vjmo/tjmo)."""
        g = self.cmap.get(cp, 0)
        return self.form(g, tag) if 1 <= g <= NJ else g


def gsub_search(ctx, shim, texts, fonts, levels=(0,), nextra=2):
    fs = [GsubFont(f) for f in fonts]
    cmb = combos(GSUB_ENVS)
    re_ = ctx.rng("gsub-features/env")
    groups, metas, gregs = [], [], []
    per = max(200, (len(texts) + vlib.NPROC - 1) // vlib.NPROC)     # few groups: the registration lines are big
    for k in range(0, len(texts), per):
        lines = []; m = []; need = []
        for cps, nodc in texts[k:k + per]:
            if any(c in OTHER_MARKS for c in cps): continue
            for f in fs:
                for level in levels:
                    for d, env in [("l", "")] + [re_.choice(cmb) for _ in range(nextra)]:
                        if env and (f, env) not in need: need.append((f, env))
                        lines.append(shape_line(env_font_id(f.name, env), level, 16 if nodc else 0, cps, list(range(len(cps))), d))
                        m.append((f, cps, nodc, level, d, env))
        regs = [f"font {f.name} {f.hex}" for f in fs] + [env_register(f.name, e, f) for f, e in need]
        groups.append(regs + lines); metas.append(m); gregs.append(regs)
    outs = vlib.run_groups(shim, groups, timeout=900)
    reported = ctx.__dict__.setdefault("_c12_reported", set())
    total = 0; outside = 0; dist = {"ljmo": 0, "vjmo": 0, "tjmo": 0, "untagged-texts": 0}; envdist = {}
    for lines, m, regs, o in zip(groups, metas, gregs, outs):
        for ln, (f, sent, nodc, level, d, env), out in zip(lines[len(regs):], m, o[len(regs):]):
            total += 1
            ok = judged(True, env, d)
            note_env(envdist, d, env, ok)
            if not ok:
                outside += 1
                if out.startswith("ok"): continue
            cps = shaping_order(sent, d)
            want = spec_render(cps, f, nodc)
            wg = [f.glyph(c, t) for c, t in want]
            tags = [t for _, t in want]
            for t, nm in ((1, "ljmo"), (2, "vjmo"), (3, "tjmo")):
                dist[nm] += tags.count(t)
            if not any(tags): dist["untagged-texts"] += 1
            got = parse_shape(out)
            bad = None
            if got is None: bad = f"reply {out[:80]}"
            elif [g for g, _ in got] != wg:
                bad = (f"glyphs {[g for g, _ in got]} expected {wg} = {[(hex(c), t) for c, t in want]} (font layout '{f.layout}': "
                       f"features → lookups {f.features}; J = {NJ})")
            if bad:
                fnd = "hangul-LV-T-without-LV-glyph" if text_in_finding_class(cps, f.has) else None
                kk = "violating" + (":" + fnd if fnd else "")
                dist[kk] = dist.get(kk, 0) + 1
                key2 = fnd if fnd else ("gsub", f.name, d, env)
                if key2 in reported: continue
                reported.add(key2)
                rp = {"stage": "search", "stream": "gsub-features", "font": f.name, "gsub_font": f.name,
                      "via": f"shape() dir={d} env={env or 'none'}", "direction": d, "environment": env or "none",
                      "register": [env_register(f.name, env, f)] if env else [],
                      "layout": f.layout, "features_to_lookups": f.features, "request": ln, "observed": out,
                      "expected_glyphs": wg, "text": fmt(sent), "text_in_shaping_order": fmt(cps)}
                if fnd: rp["finding"] = fnd
                ctx.violation(f"text {fmt(sent)} on GSUB font '{f.name}' level {level} via shape() dir={d} env={env or 'none'}: {bad}", rp)
    dist.update(envdist)
    ctx.note_search("gsub-features", total, total - outside, distribution=dist,
                    rule="shape() on fontbuild fonts whose ljmo/vjmo/tjmo lookups map each jamo glyph g to g+J / g+2J / "
                         "g+3J, in five layouts of features over lookups (one lookup per feature; all three on ONE lookup; two "
                         "share; own lookup + a lookup shared by all three; a lookup shared by tjmo and the default-on ccmp): "
                         "the output glyph ids must be those of spec_render's (code point, feature) sequence under the "
                         "OpenType reading 'a lookup acts on a glyph iff any feature referencing it is on for that glyph'; "
                         "distribution counts the features expected over all judged requests. Every text runs LTR on the font "
                         "as built and in drawn (direction, table environment) pairs: 4 directions x {none, empty morx, "
                         "substituting morx, kern, GPOS, GDEF, all}; with a morx table only vertical runs are judged (GSUB is "
                         "preferred there and the morx must have no effect), horizontal ones are shaped by AAT and counted")


def tone_search(ctx, shim, r, n):
    """tone marks after valid syllables / alone, zero-width or spacing, with and without dotted circle."""
    lines, meta = [], []
    syls = []
    for _ in range(n):
        k = r.below(5)
        l = r.range(L_BASE, L_BASE + L_COUNT - 1); v = r.range(V_BASE, V_BASE + V_COUNT - 1)
        t = r.range(T_BASE + 1, T_BASE + T_COUNT - 1)
        if k == 0: syls.append([l, v])
        elif k == 1: syls.append([l, v, t])
        elif k == 2: syls.append([compose(l, v, t)])
        elif k == 3: syls.append([compose(l, v)])
        else: syls.append([compose(l, v), t])
    for i, chunk in enumerate(syls):
        tone = r.choice(TONES)
        for f in ("all", "nosyl", "all-zt", "nosyl-zt", "all-nodc"):
            sp = Spec(FONTS[f])
            for level in (0, 1, 2):
                for nodc in (0, 1):
                    for shape_ in ("syl+tone", "tone", "A+tone", "syl+tone+tone"):
                        if shape_ == "syl+tone": cps = [0x41] + chunk + [tone, 0x42]; lo = 1
                        elif shape_ == "tone": cps = [tone, 0x42]; lo = 0
                        elif shape_ == "A+tone": cps = [0x41, tone]; lo = 1
                        else: cps = chunk + [tone, tone]; lo = 0
                        cls = list(range(2, 2 + len(cps)))
                        lines.append(pre_line(level, nodc, FONTS[f], cps, cls))
                        meta.append((shape_, f, sp, level, nodc, cps, cls, chunk, tone, lo))
                if i % 8:
                    break   # the full level x flag matrix only for every 8th syllable
    outs = vlib.run_lines(shim, lines)
    dist = {}
    reported = ctx.__dict__.setdefault("_c12_reported", set())
    for ln, (shape_, f, sp, level, nodc, cps, cls, chunk, tone, lo), out in zip(lines, meta, outs):
        got = parse_pre(out)
        key = f"{shape_}/{f}"; dist[key] = dist.get(key, 0) + 1
        bad = None
        if got is None:
            bad = f"reply {out[:80]}"
        else:
            gcp = [g[0] for g in got]
            zero = sp.zero(tone)
            orphan = ([tone] if (nodc or not sp.has(DOTTED)) else ([DOTTED, tone] if zero else [tone, DOTTED]))
            if shape_ in ("syl+tone", "syl+tone+tone"):
                exp = expect_chunk(chunk, sp.has)
                body = exp[0]
                syl = (body + [tone]) if zero else ([tone] + body)
                want = (cps[:lo] + syl + [0x42]) if shape_ == "syl+tone" else (syl + orphan)
                if gcp != want:
                    bad = f"code points {fmt(gcp)} expected {fmt(want)}"
                elif level < 2 and not zero:
                    ks = [g[1] for g in got[lo:lo + len(syl)]]
                    if len(set(ks)) != 1 or ks[0] != min(cls[lo:lo + len(chunk) + 1]):
                        bad = f"tone mark moved in front of the syllable but clusters are {ks}"
            else:
                want = cps[:lo] + orphan + cps[lo + 1:]
                if gcp != want:
                    bad = f"code points {fmt(gcp)} expected {fmt(want)}"
        if bad:
            fnd = finding_class(chunk, sp.has) if shape_.startswith("syl") else None
            dist["violating" + (":" + fnd if fnd else "")] = dist.get("violating" + (":" + fnd if fnd else ""), 0) + 1
            key2 = fnd if fnd else ("tone", shape_, f)
            if key2 in reported:
                continue
            reported.add(key2)
            rp = {"stage": "search", "stream": "tone-marks", "request": ln, "observed": out, "text": fmt(cps)}
            if fnd: rp["finding"] = fnd
            ctx.violation(f"tone mark ({shape_}) on font '{f}' level {level} nodc {nodc}: {bad}", rp)
    ctx.note_search("tone-marks", len(lines), len(set(lines)), distribution=dist,
                    rule="syllable + tone (+ tone), lone tone, letter + tone through the hook on fonts with spacing / "
                         "zero-width tone marks, with / without dotted circle, levels 0-2; expectation from the "
                         "comment block of the shaper (tone in front unless zero width; orphan gets a dotted circle)")


def tone_mixed_texts(r, n):
    """texts in which BOTH tone marks occur in one run (either order, also doubled), each after a syllable in any spelling
    (precomposed LV / LVT, conjoining L V (T), LV + T, old Hangul), after a stray letter or jamo, or first in the text — so
    the decision `tone mark before its syllable unless ITS glyph is zero-width` has to be taken per mark"""
    out = []
    for _ in range(n):
        first = r.choice(TONES)
        other = TONES[0] if first == TONES[1] else TONES[1]
        marks = [first, other] + [r.choice(TONES) for _ in range(r.below(3))]
        cps = []
        for k, m in enumerate(marks):
            l = r.range(L_BASE, L_BASE + L_COUNT - 1); v = r.range(V_BASE, V_BASE + V_COUNT - 1)
            t = r.range(T_BASE + 1, T_BASE + T_COUNT - 1)
            j = r.below(10)
            if j == 0: cps += [compose(l, v)]
            elif j == 1: cps += [compose(l, v, t)]
            elif j == 2: cps += [l, v]
            elif j == 3: cps += [l, v, t]
            elif j == 4: cps += [compose(l, v), t]
            elif j == 5: cps += [r.choice(OLD_L), r.choice(OLD_V)] + ([r.choice(OLD_T)] if r.chance(1, 2) else [])
            elif j == 6: cps += [0x41]                       # orphan after a letter
            elif j == 7: cps += [r.choice([l, v, t])]        # orphan after a lone jamo
            elif j == 8: cps += [0x41, compose(l, v)]
            else: pass                                       # orphan: first in the text / right after another tone mark
            cps.append(m)
            if r.chance(1, 5): cps.append(0x42)
        out.append((cps[:16], 1 if r.chance(1, 6) else 0))
    return out


def promote_pre_disagreements(ctx, shim, dis, limit):
    """A `hangul pre` request on which the crate and the model disagree is a candidate failing input of the property: its
    text and its support spec are handed to shape() (public API, script Hang, the request's level and dotted-circle flag)
    and judged by `spec_render`, the python rendering of the property — nothing is assumed about WHY the two disagreed."""
    if not dis:
        ctx.note_search("promoted-hangul-pre", 0, 0, rule="no hangul-pre disagreement to promote in this run")
        return
    cand = sorted(dis, key=lambda d: len(d["request"]))[:limit]
    groups, meta = [], []
    for i, d in enumerate(cand):
        t = d["request"].split()
        level, nodc, spec = int(t[2]), int(t[3]), t[4]
        recs = [] if t[5] == "-" else [tuple(map(int, x.split(":"))) for x in t[5].split(",")]
        cps = [c for c, _ in recs]; cls = [k for _, k in recs]
        if not cps or any(c in OTHER_MARKS for c in cps) or any(c < 0x20 or 0xD800 <= c <= 0xDFFF for c in cps):
            continue
        fid = f"PP{i}"
        groups.append([f"hangul font {fid} {spec}", shape_line(fid, level, 16 if nodc else 0, cps, cls)])
        meta.append((d, Spec(spec), level, nodc, cps))
    outs = vlib.run_groups(shim, groups, timeout=900)
    n = nbad = 0
    reported = ctx.__dict__.setdefault("_c12_reported", set())
    for (d, sp, level, nodc, cps), grp, o in zip(meta, groups, outs):
        n += 1
        want = spec_render(cps, sp, nodc)
        got = parse_shape(o[1])
        wg = [sp.gid(c) for c, _ in want]
        if got is not None and [g for g, _ in got] == wg:
            continue
        nbad += 1
        fnd = "hangul-LV-T-without-LV-glyph" if text_in_finding_class(cps, sp.has) else None
        key2 = fnd if fnd else ("promoted", nbad if nbad <= 3 else 0)
        if key2 in reported: continue
        reported.add(key2)
        rp = {"stage": "search", "stream": "promoted-hangul-pre", "font_spec": grp[0].split()[3], "register": [grp[0]],
              "request": grp[1], "observed": o[1], "text": fmt(cps), "expected_glyphs": wg,
              "expected_code_points": fmt([c for c, _ in want]),
              "from_correspondence": d["request"], "impl": d["impl"], "model": d["model"]}
        if fnd: rp["finding"] = fnd
        ctx.violation(f"promoted hangul-pre disagreement: text {fmt(cps)} level {level} nodc {nodc} on the font of the request "
                      f"shapes to glyphs {None if got is None else [g for g, _ in got]}, the property promises {wg} "
                      f"(= {fmt([c for c, _ in want])})", rp)
    ctx.note_search("promoted-hangul-pre", n, nbad,
                    rule="every hangul-pre request on which crate and model disagree (shortest first, capped), re-run through "
                         "shape() on the font its support spec describes and judged by spec_render (the property); non-trivial "
                         "= judged a violation")


# ---------------------------------------------------------------------------------------------------
# the planner's shaper choice: crate (ShapePlan::new on a minimal font with the named tables) vs model (planShaper)

# (Hebrew is left out: the hook `shaper_name` tells shaper records apart by collect_features / setup_masks / mark flags,
#  which the Hebrew and the default record share)
PLAN_SCRIPTS = ["Hang", "Thai", "Laoo", "Khmr", "Arab", "Syrc", "Deva", "Mymr", "Tibt", "Latn", "Grek", "-"]


def plan_lines(shim):
    """every subset of {GSUB, morx, kern, GPOS, GDEF} x 4 directions x scripts; the shaper the script is categorized to is
    asked from the crate first (`shaper`: hb_ot_shape_complex_categorize alone; the minimal tables select no script)"""
    tag = lambda s_: int.from_bytes(s_.encode(), "big")
    ask = [f"shaper {tag(sc)} {di} -" for sc in PLAN_SCRIPTS if sc != "-" for di in range(4)]
    ans = dict(zip(ask, vlib.run_lines(shim, ask, nproc=1)))
    lines = []
    for mask in range(32):
        env = "".join(c for i, c in enumerate("SMKPD") if mask >> i & 1) or "-"
        for di, d in enumerate(DIRS):
            for sc in PLAN_SCRIPTS:
                cat = "default" if sc == "-" else ans[f"shaper {tag(sc)} {di} -"].strip()
                lines.append(f"hangul plan {env} {d} {sc} {cat}")
    return lines


def classify_plan(ln, out):
    t = ln.split()
    o = out.split()
    return [f"script={t[4]}:{o[0] if o else '?'}", "apply_morx=" + (o[1] if len(o) > 1 else "?"),
            "dir=" + t[3], "kept" if o and o[0] == t[5] else "replaced"]


def run(ctx):
    ctx.assumptions += [
        "the theorems are about the Lean model of preprocess_text_hangul over a list zipper (glyph = code point, "
        "cluster, hangul feature); glyph-flag bits (unsafe_to_break*) and make_room_for/ensure failures "
        "(out_len > max_len) are outside the model",
        "full-strength C12_decompose_LV_T is false of the code (and of HarfBuzz) when the font lacks the LV "
        "syllable: proved only as C12_decompose_LV_T_partial (+ counter-theorem known_C12_LV_T_without_LV_glyph, "
        "replayed on the crate); the search reports that class once with finding=hangul-LV-T-without-LV-glyph",
        "that a spacing tone mark moved in front of a syllable shares the syllable's cluster is searched "
        "(tone-marks stream) and covered by the correspondence, not proved",
        "the model is tied to the crate by the hangul-pre correspondence stream (hook on a bare buffer + real Face "
        "built from a cmap-format-12 font) and, for shape(), by the enumeration search",
        "that later GSUB stages only merge clusters is C02's business",
        "which shaper runs: the planner's choice is modelled (planShaper; C12_planner_* theorems, C12_gen_planner_probe on the "
        "compiled crate, hangul-plan correspondence); runs that AAT shapes (font has morx and the text is horizontal or the font "
        "has no GSUB) are outside the property's quantifier: the searches count them and judge nothing there; RTL / BTT runs "
        "are judged on the text in shaping order (HarfBuzz reverses a run against the script's native direction grapheme by "
        "grapheme before shaping, so a conjoining sequence L V T typed in logical order is no longer one there)",
    ]
    ctx.regen()
    ctx.prove(MODULE)
    shim = vlib.build_harness()
    ctx.correspond("hangul-tables", lines=pred_lines(ctx.rng("pred"), ctx.budget(1500, 30000)),
                   classify=lambda ln, out: [ln.split()[1]])
    ctx.correspond("hangul-support", lines=support_lines(ctx.rng("support"), ctx.budget(600, 6000)),
                   classify=lambda ln, out: ["has" + out[:1], "zero" + out[-1:]])
    # witness of the Lean counter-theorem known_C12_LV_T_without_LV_glyph (jamoFont = everything below U+2000)
    witness = "hangul pre 0 0 0-8191 44032:0,4520:1"
    got = vlib.run_lines(shim, [witness], nproc=1)[0]
    ctx.cov["known_witness"] = {"theorem": "known_C12_LV_T_without_LV_glyph", "request": witness, "crate": got,
                                "theorem_rhs": "ok 4352:0:1 4449:0:2 4520:1:0",
                                "reproduces_on_crate": got == "ok 4352:0:1 4449:0:2 4520:1:0"}
    ctx.correspond("hangul-plan", lines=plan_lines(shim), classify=classify_plan)
    dis = ctx.correspond("hangul-pre", lines=[witness] + pre_lines(ctx.rng("pre"), ctx.budget(5000, 200000)),
                         classify=classify_pre)
    promote_pre_disagreements(ctx, shim, dis, ctx.budget(60, 400))
    stride = ctx.budget(16, 1)
    offset = ctx.seed % stride
    fonts = ["all", "nosyl", "lvonly", "lvtonly", "mix3", "mix7", "nosyl-noT", "nosyl-noV"]
    run_enumeration(ctx, shim, "enumeration", list(enum_cases(stride, offset)), fonts, [0] if ctx.quick else [0, 1, 2])
    run_enumeration(ctx, shim, "old-hangul", old_cases(ctx.rng("old"), ctx.budget(300, 20000)),
                    ["all", "nosyl", "mix3"], [0] if ctx.quick else [0, 1, 2])
    tone_search(ctx, shim, ctx.rng("tone"), ctx.budget(40, 1500))
    et = edge_texts()
    if ctx.quick:
        et = [t for k, t in enumerate(et) if pick(k, 4, ctx.seed % 4) or len(t[0]) == 2]
    whole_text_search(ctx, shim, "range-edges", et, ["all", "nosyl"] if ctx.quick else ["all", "nosyl", "mix3", "all-zt"])
    rr = ctx.rng("texts")
    rt = [(rand_text(rr), 1 if rr.chance(1, 6) else 0) for _ in range(ctx.budget(4000, 120000))]
    whole_text_search(ctx, shim, "random-texts", rt, ["all", "nosyl", "mix3", "all-zt", "nosyl-zt", "all-nodc"],
                      levels=(0,) if ctx.quick else (0, 1, 2))
    # both tone marks in one run on fonts that give them different width classes (added after the seeded change C12g)
    whole_text_search(ctx, shim, "tone-mixed", tone_mixed_texts(ctx.rng("tone-mixed"), ctx.budget(400, 12000)), TONE_FONTS,
                      levels=(0, 1) if ctx.quick else (0, 1, 2), nextra=1 if ctx.quick else 2)
    gt = [(c, 0) for _, c in enum_cases(ctx.budget(64, 4), ctx.seed % ctx.budget(64, 4))]
    gt += [(c, 0) for _, c in old_cases(ctx.rng("gold"), ctx.budget(100, 3000))]
    gt += [([0x41] + c + [0x42], 0) for _, c in enum_cases(ctx.budget(256, 16), ctx.seed % 16)]
    gt += rt[:ctx.budget(1500, 40000)]
    gsub_search(ctx, shim, gt, list(GSUB_FONTS), levels=(0,) if ctx.quick else (0, 1, 2))


def replay(ctx, rp):
    shim = vlib.build_harness()
    if rp.get("stage") == "search":
        reg = rp.get("register", [])
        lines = ([reg] if isinstance(reg, str) else list(reg)) + [rp["request"]]
        if "gsub_font" in rp:
            lines = [f"font {rp['gsub_font']} {GsubFont(rp['gsub_font']).hex}"] + lines
        o = vlib.run_groups(shim, [lines], nproc=1)[0]
        print("request :", rp["request"][:300])
        print("observed:", o[-1])
        print("what    :", rp.get("what"))
        return 1 if o[-1] == rp.get("observed") else 0
    if "request" in rp:
        model = vlib.build_model()
        a = vlib.run_lines(shim, [rp["request"]], nproc=1)[0]
        b = vlib.run_lines(model, [rp["request"]], nproc=1)[0]
        print("impl :", a); print("model:", b)
        return 0 if a == b else 1
    print(rp); return 1
