"""C17 `morx-feature-flags`: which subtables run under user features, through the public shape(), on fonts whose chain feature
entries are written the way real AAT fonts write them.

A chain's flags are compiled as  flags = default; for each feature entry whose (type, selector) is requested:
flags = (flags & disableFlags) | enableFlags  ("Metamorphosis chains", Apple TrueType reference manual).  The two masks only
commute when enable & ~disable = 0.  Real fonts use EXCLUSIVE-GROUP masks: the selectors of one feature type share a group of
bits, `disable` clears the whole group (the selector's own bit included) and `enable` then sets the selector's bit, so
enable & ~disable != 0 for every entry.  The generated fonts here have, per chain, 2-4 such groups (styles: exclusive-group,
clear-the-others, additive, disable-only), keyed to OpenType tags through the crate's own tag -> (type, on, off) table, and for
small caps the entry in its deprecated form (Letter Case 3 / Small Caps 3), its modern form (Lower Case 37 / Small Caps 1), or
both in either order, with a `feat` table exposing type 3, type 37, both or neither.  Every subtable is non-contextual and keyed
to one or two bits, so the expected glyphs follow from the recipe by the manual's rule alone (python, independent of the Lean
model); the same requests also go through the `morx compile` correspondence (stream morx-compile-exclusive).

`promote`: every request on which a `morx compile` correspondence stream disagrees is turned into a shape() input (all glyphs of
the font, the request's features) and judged by the reference (the Lean model's interpreter run on the model's own flags)."""
import vlib

U32 = 0xFFFFFFFF
SMCP = ("smcp", 37, 1, 0)
LETTER_CASE, SMALL_CAPS_OLD = 3, 3


def tag_hex(t):
    return "".join(f"{ord(c):02x}" for c in t)


def make_font(r, fm):
    """returns (hex, recipe tokens, spec) — spec: chains [(default, entries, subtables [(flags, map)])], feat {type: nsettings},
    tags [(tag, type, on, off)]"""
    import C17
    NG = C17.NG
    pool = [t for t in fm if t[0] != "aalt" and t[1] != 37]
    tags = []
    if r.chance(5, 6):
        tags.append(next((t for t in fm if t[0] == "smcp"), SMCP))
    seen_types = {t[1] for t in tags}
    for t in r.shuffle(pool):
        if len(tags) >= r.range(2, 4):
            break
        if t[1] not in seen_types and t[1] not in (LETTER_CASE,):
            tags.append(t); seen_types.add(t[1])
    chains, spec_chains = [], []
    smcp_form = r.choice(["old", "old", "old", "new", "both", "both-rev"])
    for _ in range(r.choice([1, 1, 2])):
        entries, default, bit = [], 1, 2
        bits_of = []
        for (tag, ty, on, off) in tags:
            b_on, b_off = bit, bit << 1
            bit <<= 2
            group = b_on | b_off
            style = r.choice(["exclusive", "exclusive", "exclusive", "others", "additive", "disable-only"])
            if style == "exclusive":
                e_on, e_off = (b_on, U32 ^ group), (b_off, U32 ^ group)
            elif style == "others":
                e_on, e_off = (b_on, U32 ^ b_off), (b_off, U32 ^ b_on)
            elif style == "additive":
                e_on, e_off = (b_on, U32), (0, U32 ^ b_on)
            else:
                e_on, e_off = (0, U32 ^ b_off), (0, U32 ^ b_on)
            # which bit is on without any request: the "normal" one mostly, sometimes the feature's own, both or none
            default |= r.choice([b_off, b_off, b_off, b_on, group, 0])
            if tag == "smcp":
                forms = {"old": [(LETTER_CASE, SMALL_CAPS_OLD)], "new": [(ty, on)],
                         "both": [(ty, on), (LETTER_CASE, SMALL_CAPS_OLD)], "both-rev": [(LETTER_CASE, SMALL_CAPS_OLD), (ty, on)]}[smcp_form]
                for k, s in forms:
                    entries.append((k, s, e_on[0], e_on[1]))
            else:
                entries.append((ty, on, e_on[0], e_on[1]))
            entries.append((ty, off, e_off[0], e_off[1]))
            bits_of.append((b_on, b_off))
        if r.chance(1, 4):
            entries = r.shuffle(entries)
        subs, spec_subs = [], []
        for _ in range(r.range(2, 5)):
            b_on, b_off = r.choice(bits_of)
            fl = r.choice([b_on, b_on, b_off, b_off, b_on | b_off, 1, b_on | r.choice(bits_of)[1]])
            sub = {g: r.range(1, NG - 1) for g in r.sample(list(range(1, NG)), r.range(2, 6))}
            st = {"kind": 4, "coverage": r.choice([0, 0, 0x20, 0x40, 0x10, 0x60]), "flags": fl, "lookup": C17.identity_lookup(r, sub)}
            subs.append(st)
            spec_subs.append((fl, sub))
        chains.append({"default": default, "features": entries, "subtables": subs})
        spec_chains.append((default, entries, spec_subs))
    morx, tok = C17.build_morx(r, chains, NG)
    rows = {}
    for (tag, ty, on, off) in tags:
        if tag == "smcp":
            expose = r.choice(["3", "3", "37", "both", "both", "none"])
            if expose in ("37", "both"): rows[ty] = (ty, max(on, off) + 1, r.chance(1, 2))
            if expose in ("3", "both"): rows[LETTER_CASE] = (LETTER_CASE, r.choice([1, 4]), r.chance(1, 2))
        elif r.chance(9, 10):
            rows[ty] = (ty, max(on, off) + 1, r.chance(1, 2))
    rows = sorted(rows.values())
    ftok = [NG, 1, len(rows)]
    for ty, ns, ex in rows:
        ftok += [ty, ns, 1 if ex else 0]
    rec = " ".join(map(str, ftok + tok))
    hexf = C17.build_font(NG, morx, C17.build_feat(rows)).hex()
    return hexf, rec, {"chains": spec_chains, "feat": {ty: ns for ty, ns, _ in rows}, "tags": tags, "smcp_form": smcp_form}


def requested(spec, fm_by_tag, feats, cluster):
    """the (type, selector) pairs in force at `cluster` — hb_aat_map_builder_t::add_feature by the manual + HarfBuzz's documented
    rule for legacy small caps (a font that only exposes Letter Case accepts the small-caps request)"""
    req = set()
    for tag, val, s, e in feats:
        if not (s <= cluster and (cluster < e or e == U32)):
            continue
        m = fm_by_tag.get(tag)
        if m is None:
            continue
        ty, on, off = m
        if not spec["feat"].get(ty):
            if not ((ty, on) == (37, 1) and spec["feat"].get(LETTER_CASE)):
                continue
        req.add((ty, on if val else off))
    return req


def chain_flags(default, entries, req):
    fl = default
    for k, s, en, dis in entries:
        if (k, s) in req or ((k, s) == (LETTER_CASE, SMALL_CAPS_OLD) and (37, 1) in req):
            fl = (fl & dis) | en
    return fl


def expected(spec, fm_by_tag, feats, glyphs, clusters):
    out = list(glyphs)
    for default, entries, subs in spec["chains"]:
        fls = [chain_flags(default, entries, requested(spec, fm_by_tag, feats, c)) for c in clusters]
        for fl_sub, sub in subs:
            out = [sub.get(g, g) if (fl_sub & fl) else g for g, fl in zip(out, fls)]
    return out


def cases(shim, r, nfonts, per_font):
    import C15, C17
    fm = C15.featmap(shim)
    fm_by_tag = {t[0]: (t[1], t[2], t[3]) for t in fm}
    out = []
    for _ in range(nfonts):
        hexf, rec, spec = make_font(r, fm)
        tags = [t[0] for t in spec["tags"]]
        reqs = [[("smcp", 1, 0, U32)], [("smcp", 0, 0, U32)], []] if "smcp" in tags else [[]]
        while len(reqs) < per_font:
            fs, used = [], set()
            for _ in range(r.range(1, 3)):
                t = r.choice(tags + ["c2sc", "smcp"]) if r.chance(5, 6) else r.choice([x[0] for x in fm])
                ty = fm_by_tag.get(t, (None,))[0]
                if t in used or ty in used or t == "aalt":
                    continue
                used.update((t, ty))
                fs.append((t, r.choice([1, 1, 1, 0, 2]), 0, U32))
            if fs and r.chance(1, 4):
                # one of them over a stretch of the text only
                a = r.range(0, 4); b = a + r.range(1, 4)
                t, v, _, _ = fs[0]
                fs[0] = (t, v, a, b if r.chance(2, 3) else U32)
            reqs.append(fs)
        for fs in reqs:
            n = r.range(2, 8)
            gl = [r.range(1, C17.NG - 1) for _ in range(n)]
            if not fs or r.chance(1, 2):
                gl = list(range(1, C17.NG))          # every glyph once
            d = r.choice(["l", "l", "r"])
            ftok = ",".join(f"{tag_hex(t)}:{v}:{s}:{e}" for t, v, s, e in fs) or "-"
            text = ",".join(f"{0xE000 + g - 1:x}:{i}" for i, g in enumerate(gl))
            out.append({"hex": hexf, "rec": rec, "spec": spec, "feats": fs, "glyphs": gl, "dir": d,
                        "shape": f"morx shape {hexf} R 0 I {d} {r.below(3)} {ftok} {text}",
                        "compile": f"morx compile {hexf} R {rec} I {ftok}",
                        "expected": expected(spec, fm_by_tag, fs, gl, list(range(len(gl))))})
    return out


def classify_compile(ln, out):
    if not out.startswith("ok"):
        return [out[:16]]
    o = out.split()
    return ["added:%d" % (0 if o[2] == "-" else len(o[2].split(","))),
            "ranges:%d" % max(len(c.split(",")) for c in o[4].split(";"))]


def gids(field):
    return [] if field == "-" else [int(t.split(":")[0]) for t in field.split(",")]


def search(ctx, shim, cs, disagreeing=()):
    outs = vlib.run_lines(shim, [c["shape"] for c in cs], timeout=300)
    dset = set(disagreeing)
    total = nontriv = bad = 0
    dist = {}
    worst = None
    for c, o in zip(cs, outs):
        total += 1
        spec = c["spec"]
        deprecated_used = spec["smcp_form"] != "new" and any(t == "smcp" and v for t, v, _, _ in c["feats"])
        key = f"smcp-entry:{spec['smcp_form']}|" + ("smcp-on" if deprecated_used else "other")
        dist[key] = dist.get(key, 0) + 1
        plain = expected({**spec, "feat": {}}, {}, [], c["glyphs"], list(range(len(c["glyphs"]))))
        if c["expected"] != plain:
            nontriv += 1
        got = gids(o.split()[1]) if o.startswith("ok") and len(o.split()) > 1 else None
        if got is not None and c["dir"] == "r":
            got = got[::-1]
        if got != c["expected"]:
            bad += 1
            rank = (0 if c["compile"] in dset else 1, len(c["feats"]), len(c["glyphs"]))
            if worst is None or rank < worst[0]:
                worst = (rank, c, o, got)
    if worst:
        _, c, o, got = worst
        spec = c["spec"]
        ctx.violation(
            "shape() on a morx + feat font: the glyphs are not those of the subtables the compiled chain flags enable "
            f"(features {[f'{t}={v}' + ('' if (s, e) == (0, U32) else f'[{s},{e})') for t, v, s, e in c['feats']] or 'none'}; "
            f"chain entries (type, selector, enable, disable) {[(k, s, hex(en), hex(di)) for k, s, en, di in spec['chains'][0][1]]}, "
            f"default flags {hex(spec['chains'][0][0])}, subtable flags {[hex(f) for f, _ in spec['chains'][0][2]]}; feat exposes "
            f"{sorted(spec['feat'])}): glyphs {c['glyphs']} -> {got}, expected {c['expected']}",
            {"stage": "search", "stream": "morx-feature-flags", "request": c["shape"], "reply": o[:300], "glyphs": c["glyphs"],
             "features": [list(f) for f in c["feats"]], "expected": c["expected"], "dir": c["dir"],
             "chains": [[d, [list(e) for e in en], [[f, sorted(m.items())] for f, m in subs]] for d, en, subs in spec["chains"]],
             "feat_types": sorted(spec["feat"]), "compile_correspondence_disagrees": c["compile"] in dset})
    ctx.note_search("morx-feature-flags", total, nontriv, violations=bad, distribution=dist,
                    rule="generated morx + feat fonts whose chain entries use exclusive-group / clear-the-others / additive / "
                         "disable-only masks for 2-4 OpenType tags (the crate's tag table), small caps as the deprecated (3,3) entry, "
                         "the modern (37,1) entry or both, feat exposing type 3 / 37 / both / neither; requests smcp=1, smcp=0, none, "
                         "1-2 other mapped tags (one sometimes ranged); all subtables non-contextual; oracle: flags = fold of "
                         "(flags & disable) | enable over the requested entries, the enabled subtables applied in order (computed "
                         "from the recipe in python); non-trivial = the features change the expected glyphs")


def promote(ctx, shim, model, stream, dis, limit=60):
    """disagreeing `morx compile` requests -> shape() inputs judged by the reference interpreter (the model run on its own flags)"""
    import C17
    todo = sorted(dis, key=lambda d: len(d["request"]))[:limit]
    if not todo:
        return 0
    n = C17.NG
    gl = list(range(1, n))
    text = ",".join(f"{0xE000 + g - 1:x}:{i}" for i, g in enumerate(gl))
    gs = ",".join(f"{g}:{i}" for i, g in enumerate(gl))
    shapes, refs = [], []
    for d in todo:
        head, feats = d["request"].rsplit(" I ", 1)
        hexf = head.split()[2]
        rec = head.split(" R ", 1)[1]
        shapes.append(f"morx shape {hexf} R 0 I l 0 {feats} {text}")
        refs.append(f"morx run {hexf} R {rec} I l 0 - - {feats} {gs}")
    a = vlib.run_lines(shim, shapes, timeout=300)
    b = vlib.run_lines(model, refs, timeout=300)
    found = 0
    for d, sh, x, y in zip(todo, shapes, a, b):
        if not y.startswith("ok"):
            continue
        want = [g for g in gids(y.split()[3]) if g != 0xFFFF]
        got = gids(x.split()[1]) if x.startswith("ok") and len(x.split()) > 1 else None
        if got != want:
            found += 1
            if found <= 1:
                ctx.violation(
                    f"shape() on a morx + feat font differs from the reference interpreter on a request whose compiled chain "
                    f"flags differ (stream {stream}: crate `{d['impl'][:120]}` vs model `{d['model'][:120]}`): glyphs {gl} -> {got}, "
                    f"reference {want}",
                    {"stage": "search", "stream": "morx-compile-promoted", "from_stream": stream, "request": sh, "reply": x[:300],
                     "reference_request": refs[shapes.index(sh)], "expected": want, "compile_request": d["request"]})
    ctx.note_search("morx-compile-promoted", len(todo), found,
                    rule="every request on which a morx-compile correspondence disagrees, shaped through the public API over all "
                         "glyphs of the font and compared with the Lean reference run on the model's flags; non-trivial = the "
                         "difference in flags is visible in the glyphs")
    return found


def replay(shim, model, rp):
    a = vlib.run_lines(shim, [rp["request"]], nproc=1)[0]
    print("features", rp.get("features"), "glyphs", rp.get("glyphs"), "dir", rp.get("dir"))
    print("shape():", a[:300]); print("expected glyph ids:", rp.get("expected"))
    got = gids(a.split()[1]) if a.startswith("ok") and len(a.split()) > 1 else None
    if got is not None and rp.get("dir") == "r":
        got = got[::-1]
    return 0 if got == rp.get("expected") else 1
