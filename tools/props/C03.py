"""C03 — a cluster start without UNSAFE_TO_BREAK is a safe place to break the text."""
import os
import vlib, bufgen, gsubgen
import flagslib as F

MODULE = "RbModel.Props.C03"
LEVEL = "proof"


# ------------------------------------------------------------------------------------------------
# hook level: the "everything but the minimum cluster" contract of unsafe_to_break(_from_outbuffer)

def interior_case(r):
    n = r.range(1, 9)
    mono = r.choice(["asc", "asc", "desc", "desc", "rand"])
    st = bufgen.fresh_state(r, n, level=r.below(3), flags=0, mono=mono, slack=r.below(2), maxlen=1000)
    if r.chance(1, 2):
        s = r.range(0, n - 1); e = r.range(s, n)
        return "flagwt " + bufgen.state_str(st) + f" ; utb {s} {e}", mono
    k = r.range(0, n)
    ops = ["clearout"] + ([f"nexts {k}"] if k else [])
    s = r.range(0, k); e = r.range(k, n)
    return "flagwt " + bufgen.state_str(st) + " ; " + " ; ".join(ops + [f"utbo {s} {e}"]), mono


def interior_expect(before, op):
    """indices (array, i) that must carry the flag afterwards: all glyphs of the range except its minimum cluster"""
    t = op.split()
    s, e = int(t[1]), min(int(t[2]), before["n"])
    if t[0] == "utb":
        rng = [("I", i) for i in range(s, e)]
        if e - s < 2:
            rng = []
    else:
        arr = "U" if before["s"] else "I"
        rng = [(arr, i) for i in range(s, before["o"])] + [("I", i) for i in range(before["i"], e)]
    if not rng:
        return rng, set()
    cl = {(a, i): before[a][i][2] for a, i in rng}
    m = min(cl.values())
    return rng, {k for k in rng if cl[k] != m}


def interior_eval(ln, o):
    """-> (deviation or None, monotone?, clusters of the range, level)"""
    tr = bufgen.parse_trace(o) if o.startswith("ok r=") else None
    if tr is None:
        return f"crash {o[:120]}", None, [], None
    rets, states = tr
    ops = [x.strip() for x in ln.split(" ; ")[1:]]
    st0 = bufgen.parse_state(ln.split(" ; ")[0].split(" ", 1)[1])
    before = states[-2] if len(states) > 1 else st0
    after = states[-1]
    rng, want = interior_expect(before, ops[-1])
    rcl = [before[a][i][2] for a, i in rng]
    is_mono = all(x <= y for x, y in zip(rcl, rcl[1:])) or all(x >= y for x, y in zip(rcl, rcl[1:]))
    got = set()
    frame_ok = True
    for a in ("I", "U"):
        for i, (x, y) in enumerate(zip(before[a], after[a])):
            if x == y: continue
            if (x[0], x[2], x[3], x[4]) != (y[0], y[2], y[3], y[4]) or y[1] != x[1] | 3:
                frame_ok = False
            got.add((a, i))
    # glyphs that already carried both bits cannot be told apart from untouched ones: compare on the rest
    pre = {k for k in rng if before[k[0]][k[1]][1] & 3 == 3}
    d = None
    if not frame_ok:
        d = "something other than `mask |= BREAK|CONCAT` was written"
    elif is_mono:
        if got != want - pre:
            d = f"flagged {sorted(got)} but the glyphs outside the minimum cluster are {sorted(want - pre)}"
    elif not got <= set(rng):
        d = f"glyphs outside the range were flagged: {sorted(got - set(rng))}"
    return d, is_mono, rcl, before["L"]


def interior_search(ctx, shim, r, n):
    cases = [interior_case(r) for _ in range(n)]
    lines = [c[0] for c in cases]
    outs = vlib.run_lines(shim, lines)
    bad, nontriv, dist = [], 0, {}
    for (ln, mono), o in zip(cases, outs):
        d, is_mono, rcl, lvl = interior_eval(ln, o)
        if is_mono is not None:
            key = f"L{lvl}:{'mono' if is_mono else 'nonmono'}"
            dist[key] = dist.get(key, 0) + 1
            if len(set(rcl)) > 1: nontriv += 1
        if d:
            bad.append((len(ln), ln, d, o))
    bad.sort()
    for _, ln, d, o in bad[:3]:
        ctx.violation(f"unsafe_to_break does not flag exactly the glyphs outside the minimum cluster: {d}",
                      {"stage": "search", "stream": "interior-exact", "request": ln, "what_differs": d, "observed": o[-1500:]})
    ctx.note_search("interior-exact", len(lines), nontriv, distribution=dist, deviations=len(bad),
                    rule="random buffers at levels 0/1/2 (ascending, descending, unordered clusters; in-place and in/out mode), one "
                         "unsafe_to_break / unsafe_to_break_from_outbuffer call through the hook; oracle on monotone ranges: flagged set "
                         "== glyphs of the range outside its minimum cluster, nothing else written; non-trivial = range has >1 cluster")


# ------------------------------------------------------------------------------------------------
# shape level: HarfBuzz's verifier (cut at all unflagged cluster starts, re-shape, concatenate, compare)

def metamorphic_search(ctx, shim, r, per_font, pc, pt, only_aat, name, verifier, flag_words, what, rule, fonts=None, kind="break",
                       groups=None, make=None, classify=None):
    """shared driver of the break-safety (C03) and concat-redistribution (C04) experiments.
    groups / make / classify: font groups, shaping generator and finding-class function of a stream that does not draw
    from the corpus (synthetic fonts: F.synth_groups, F.make_synth_shaping, F.synth_known_class)"""
    if groups is None:
        groups = F.FontSet(r, limit=fonts, only_aat=only_aat).groups
    classify = classify or F.known_class

    class fs: pass
    fs.groups = groups
    sh = []
    for g in fs.groups:
        for k in range(per_font):
            if make:
                sh.append(make(r, g, r.choice(flag_words), k))
            else:
                sh.append(F.make_shaping(r, g, r.choice(flag_words), repeats=(k % 8 == 7)))
    res = verifier(shim, sh)
    stat, bad, known = {}, [], {}
    cuts = 0
    for s, o in zip(sh, res):
        stat[o["status"]] = stat.get(o["status"], 0) + 1
        if o["status"] in ("ok", "DIFF"):
            cuts += len(o["pieces"]) - 1
        if o["status"] == "DIFF":
            cls = classify(s, kind, o)
            if cls: known.setdefault(cls, []).append((len(s.text), s, o))
            else: bad.append((len(s.text), s, o))
        elif o["status"] in ("noresult", "piecefail"):
            rw = o.get("raw") or " ".join(o.get("piece_replies", []))
            if "panic" in rw or "abort" in rw or "timeout" in rw:
                bad.append((len(s.text), s, dict(o, status="crash", diff="crash: " + rw[:200], recon=[], whole=o.get("whole") or [])))
    checked = stat.get("ok", 0) + stat.get("DIFF", 0)

    def describe(s, o, cls=None):
        if o["status"] == "DIFF":
            # shrink inside the class: a candidate counts only if it still differs AND is attributed to the same class
            def same_class(shim_, cands):
                return [dict(x, status="other-class") if x and x["status"] == "DIFF" and classify(c, kind, x) != cls else x
                        for c, x in zip(cands, verifier(shim_, cands))]
            s, o = F.shrink(shim, s, same_class)
        rp = s.describe()
        if s.g.get("synthetic"):
            rp.update({"font_recipe": s.g["recipe"], "font_profile": s.g["profile"]})
        rp.update({"stage": "search", "stream": name, "pieces_text_ranges": o.get("pieces"),
                   "piece_requests": o.get("piece_requests"), "whole": F.fmt_glyphs(o.get("whole") or []),
                   "pieces_reassembled": F.fmt_glyphs(o.get("recon") or []), "difference": o.get("diff")})
        txt = (f"font {os.path.basename(s.case.font)} text {' '.join(rp['text'])} clusters {s.clusters} dir={s.dir} "
               f"script={s.script} level={s.level} flags={s.flags:#x} features={s.case.opts} {[bytes.fromhex(x[5:]).decode() for x in s.extra if x.startswith('fstr=')]}")
        return rp, txt, o

    bad.sort(key=lambda x: x[0])
    seen_fonts, reported = set(), 0
    for _, s, o in bad:
        if s.case.font in seen_fonts or reported >= 5:
            continue
        seen_fonts.add(s.case.font); reported += 1
        rp, txt, o2 = describe(s, o)
        ctx.violation(f"{what} ({name}): {o2.get('diff')} — {txt}; {len(bad)} of {checked} experiments differ", rp)
    kn = {}
    for cls, xs in known.items():
        xs.sort(key=lambda x: x[0])
        rp, txt, o2 = describe(xs[0][1], xs[0][2], cls)
        kn[cls] = {"count": len(xs), "example": rp}
        # a documented finding class: reported as a violation whose replay carries the class; known_findings.json
        # (committed, never written at run time) turns it into a KNOWN-FINDING line
        rp = dict(rp); rp["class"] = cls; rp["family"] = "break-safety" if kind == "break" else "concat-redistribution"
        ctx.violation(f"{what} ({name}, class {cls}: {len(xs)} case(s)): {o2.get('diff')} — {txt}", rp)
    ctx.note_search(name, len(sh), checked, outcome=stat, cuts_made=cuts, deviations=len(bad),
                    known_finding_classes=kn, fonts=len(fs.groups), rule=rule)


BREAK_RULE = ("corpus fonts x (fixture texts, shuffles, slices, alphabet resamples; cluster numbering identity / strictly increasing "
              "with gaps / 1 in 8 with repeats) x 5 direction settings x levels 0/1 x PRODUCE flags x feature toggles; whole text "
              "shaped, cut at ALL cluster starts whose glyph lacks UNSAFE_TO_BREAK, pieces re-shaped with the resolved direction+script, "
              "BOT/EOT cleared on inner sides, same cluster numbers, no context, concatenated in visual order; gids, clusters, advances, "
              "offsets compared; non-trivial = at least one cut was made")


def break_search(ctx, shim, r, per_font, pc, pt, only_aat, name, fonts=None):
    metamorphic_search(ctx, shim, r, per_font, pc, pt, only_aat, name, F.verify_break, [0, 0, pc, pt, pc | pt],
                       "breaking at unflagged cluster starts changes the result",
                       ("AAT fonts (morx/kerx present): " if only_aat else "OpenType path: ") + BREAK_RULE, fonts)


SYNTH_RULE = ("synthetic GSUB fonts (tools/flagslib.py::synth_recipe: 3-6 letters of Latin / Hebrew / private-use, i.e. both native "
              "directions; contextual lookups of types 5 and 6, formats 1-3, with backtrack / lookahead, lookup flags over a random GDEF; "
              "nested and stand-alone leaf lookups: single, multiple, DELETION = MultipleSubst to the empty sequence, in 1 font of 8 "
              "ligatures) x random texts over the letters x directions l, r, t, b (so also reversed buffers with descending "
              "clusters) x levels 0/1 x cluster numbering with gaps; ")


def synth_make(r, g, flags, k):
    return F.make_synth_shaping(r, g, flags)


def break_synth_search(ctx, shim, r, nfonts, per_font, pc, pt):
    metamorphic_search(ctx, shim, r, per_font, pc, pt, False, "break-safety-synth", F.verify_break, [0, 0, pc, pc | pt],
                       "breaking at unflagged cluster starts changes the result",
                       SYNTH_RULE + "then as break-safety-ot: cut at ALL unflagged cluster starts, re-shape the pieces, concatenate, compare",
                       groups=F.synth_groups(r, nfonts), make=synth_make, classify=F.synth_known_class)


def break_fraction_search(ctx, shim, r, nfonts, per_font, pc, pt):
    metamorphic_search(ctx, shim, r, per_font, pc, pt, False, "break-fraction", F.verify_break, [0, 0, pc],
                       "breaking at unflagged cluster starts changes the result",
                       "fonts with fraction features (synthetic frac / numr / dnom fonts over Latin / Hebrew + the fonts under tests/fonts that "
                       "name such a feature) x texts of digit runs, U+2044 FRACTION SLASH, letters, spaces x directions l, r, t, b x levels "
                       "0/1; then as break-safety-ot",
                       groups=F.fraction_groups(r, nfonts), make=lambda r, g, fl, k: F.make_fraction_shaping(r, g, fl),
                       classify=F.fraction_known_class)


def break_stch_search(ctx, shim, r, nfonts, per_font, pc, pt):
    metamorphic_search(ctx, shim, r, per_font, pc, pt, False, "break-safety-stch", F.verify_break, [0, 0, pc, pc | pt],
                       "breaking at unflagged cluster starts changes the result",
                       F.STCH_RULE + "then as break-safety-ot",
                       groups=F.stch_groups(r, nfonts), make=lambda r, g, fl, k: F.make_stch_shaping(r, g, fl),
                       classify=F.stch_known_class)


def break_di_search(ctx, shim, r, nfonts, per_font, pc, pt):
    metamorphic_search(ctx, shim, r, per_font, pc, pt, False, "break-safety-di", F.verify_break, [0, 0, pc],
                       "breaking at unflagged cluster starts changes the result",
                       F.DI_RULE + "then as break-safety-ot",
                       groups=F.di_groups(r, nfonts), make=lambda r, g, fl, k: F.make_di_shaping(r, g, fl),
                       classify=F.di_known_class)


def break_gposdev_search(ctx, shim, r, nfonts, per_font, pc, pt):
    import _gposflag as GF
    groups = GF.gposdev_groups(r, nfonts)
    probe = [GF.make_gposdev_shaping(r, g, 0) for g in groups for _ in range(2)]
    ctx.cov.setdefault("gposdev_liveness", {})["break-safety-gposdev"] = {
        "requests_probed": len(probe), "changed_by_ppem_or_var": GF.liveness(shim, probe),
        "fonts_with_device_only_records": sum(1 for g in groups if g["facts"]["device_only_records"]),
        "profiles": {p: sum(1 for g in groups if g["profile"] == p) for p in sorted({g["profile"] for g in groups})}}
    metamorphic_search(ctx, shim, r, per_font, pc, pt, False, "break-safety-gposdev", F.verify_break, [0, 0, pc, pc | pt],
                       "breaking at unflagged cluster starts changes the result",
                       GF.GPOSDEV_RULE + "then as break-safety-ot: cut at ALL unflagged cluster starts, re-shape the pieces with the "
                       "same ppem / variation coordinates, concatenate, compare",
                       groups=groups, make=lambda r, g, fl, k: GF.make_gposdev_shaping(r, g, fl),
                       classify=GF.gposdev_known_class)


def break_syllabic_search(ctx, shim, r, nfonts, per_font, pc, pt):
    """`break-safety-syllabic` (added after the seeded change C03e): tools/syllabic.py"""
    import syllabic as SY
    topo, mfl = SY.registered(ctx, "use-topographical"), SY.registered(ctx, "reordered-ligature")
    comp = SY.registered(ctx, "normalizer-all-simple")
    groups = SY.feature_groups(shim, r, nfonts, topographical=topo, mark_first_ligatures=mfl, composites=comp)
    ctx.cov["break_syllabic_fonts"] = {k: sum(1 for g in groups if g["kind"] == k) for k in sorted({g["kind"] for g in groups})}
    ctx.cov["break_syllabic_domain"] = {"topographical_features": topo, "mark_first_ligatures": mfl, "composite_letters": comp,
                                        "note": "fonts with isol/init/medi/fina under USE resp. ligatures starting with a mark "
                                                "resp. precomposed letters only when the finding classes use-topographical / reordered-ligature / "
                                                "normalizer-all-simple are registered in known_findings.json"}
    metamorphic_search(ctx, shim, r, per_font, pc, pt, False, "break-safety-syllabic", F.verify_break, [0, 0, pc, pc | pt],
                       "breaking at unflagged cluster starts changes the result",
                       SY.RULE + "then as break-safety-ot: cut at ALL unflagged cluster starts, re-shape the pieces, concatenate, compare",
                       groups=groups, make=lambda r, g, fl, k: SY.make_shaping(r, g, fl), classify=SY.known_class)


def break_hangul_search(ctx, shim, r, nfonts, per_font, pc, pt):
    """`break-safety-hangul` (added after the seeded change C03g): tools/hangulflags.py"""
    import hangulflags as HF
    groups = HF.hangul_groups(r, nfonts)
    ctx.cov["break_hangul_fonts"] = {
        "fonts": len(groups), "with_gsub_jamo_features": sum(1 for g in groups if g["facts"]["gsub_jamo_features"]),
        "some_LV_but_not_every_LVT": sum(1 for g in groups if any(c in g["recipe"]["cmap"] for c in g["hangul"]["LV"])
                                         and not all(c in g["recipe"]["cmap"] for c in g["hangul"]["LVT"])),
        "tone_marks_of_different_width_class": sum(1 for g in groups if len(g["facts"]["zero_width_tones"]) == 1
                                                   and all(t in g["recipe"]["cmap"] for t in HF.TONES))}
    metamorphic_search(ctx, shim, r, per_font, pc, pt, False, "break-safety-hangul", F.verify_break, [0, 0, pc, pc | pt],
                       "breaking at unflagged cluster starts changes the result",
                       HF.RULE + "then as break-safety-ot: cut at ALL unflagged cluster starts, re-shape the pieces, concatenate, compare",
                       groups=groups, make=lambda r, g, fl, k: HF.make_hangul_shaping(r, g, fl), classify=HF.hangul_known_class)


def promote_hangul_pre_flags(ctx, shim, dis, limit):
    """the disagreeing hangul-pre-flags requests themselves as shape() inputs of the break-safety verifier"""
    import hangulflags as HF
    if not dis:
        ctx.note_search("promoted-hangul-pre-flags", 0, 0, rule="no hangul-pre-flags disagreement to promote in this run")
        return
    sh = HF.promoted_shapings(dis, limit)
    res = F.verify_break(shim, sh)
    stat, bad = {}, []
    for s, o in zip(sh, res):
        stat[o["status"]] = stat.get(o["status"], 0) + 1
        if o["status"] == "DIFF":
            bad.append((len(s.text), s, o))
    bad.sort(key=lambda x: x[0])
    for _, s, o in bad[:3]:
        rp = s.describe()
        d = s.g["from_correspondence"]
        rp.update({"stage": "search", "stream": "break-promoted-hangul-pre-flags", "pieces_text_ranges": o.get("pieces"),
                   "piece_requests": o.get("piece_requests"), "whole": F.fmt_glyphs(o.get("whole") or []),
                   "pieces_reassembled": F.fmt_glyphs(o.get("recon") or []), "difference": o.get("diff"),
                   "from_correspondence": d["request"], "impl": d["impl"], "model": d["model"]})
        ctx.violation(f"breaking at unflagged cluster starts changes the result (promoted hangul-pre-flags disagreement): "
                      f"{o.get('diff')} — font {s.g['reg'].split()[3]} text {' '.join(rp['text'])} clusters {s.clusters} "
                      f"level={s.level}; {len(bad)} of {len(sh)} promoted requests differ", rp)
    ctx.note_search("promoted-hangul-pre-flags", len(sh), stat.get("ok", 0) + stat.get("DIFF", 0), outcome=stat, deviations=len(bad),
                    rule="every hangul-pre-flags request on which crate and model disagree (shortest first, capped): its text on the "
                         "font of its support spec through shape() and the break-safety verifier (cut at all unflagged cluster "
                         "starts, re-shape, compare); nothing is assumed about why the two disagreed")


def gsub_flag_groups(ctx, shim, r, nfonts, per_font):
    """request groups of the `gsub` command (the GSUB interpreter of the crate through its hook vs the Lean model Gsub.lean,
    which contains every unsafe_to_break / unsafe_to_concat call site of the interpreter and delete_glyph / merge_clusters of
    Buf.lean) on the synthetic fonts of the metamorphic streams, with buffers as the pipeline hands them over in BOTH orders:
    ascending clusters and — text shaped against the script's direction — descending clusters; flag bits of earlier
    passes already in some masks; PRODUCE_UNSAFE_TO_CONCAT mostly on."""
    import fontbuild
    fonts, g1 = [], []
    i = 0
    while len(fonts) < nfonts:
        rec, _, _ = F.synth_recipe(r, F.SYNTH_PROFILES[i % len(F.SYNTH_PROFILES)])
        i += 1
        try:
            hexf = fontbuild.hexfont(rec)
        except fontbuild.FontBuildError:
            continue
        fid = f"GF{len(fonts)}"
        fonts.append((fid, rec, hexf))
        g1.append([f"font {fid} {hexf}", f"planinfo {fid} l DFLT - -"])
    o1 = vlib.run_groups(shim, g1)
    groups = []
    for (fid, rec, hexf), o in zip(fonts, o1):
        if o[0] != "ok" or not o[1].startswith("ok"):
            continue
        maps = o[1].split()[1]
        if maps == "-":
            mt = "0"
        else:
            ms = [m.split(":") for m in maps.split(",")]
            mt = str(len(ms)) + " " + " ".join(" ".join(m[1:]) for m in ms)
        ft = gsubgen.flatten(rec)
        lines = [f"font {fid} {hexf}"]
        for _ in range(per_font):
            st = gsubgen.rand_buffer(r, rec)
            n = st["n"]
            items = st["I"][:n]
            cl = [x[2] for x in items]
            if r.chance(1, 2):
                cl = cl[::-1]                                   # descending: the reversed buffer
            fl = [r.choice([0, 0, 0, 1, 2, 3]) for _ in items]
            st["I"] = [(g, (m & 0xFFFFFFF8) | f, c, a, b) for (g, m, _, a, b), c, f in zip(items, cl, fl)] + st["I"][n:]
            st["F"] = r.choice([0, 0x40, 0x40, 0x40])
            st["sc"] = 0x20 if any(fl) else 0
            lines.append(f"gsub {fid} l DFLT - - 1 FONT {ft} MAPS {mt} BUF {bufgen.state_str(st)}")
        groups.append(lines)
    return groups


def carry_search(ctx, shim, r, n, pc, pt):
    """the flag-preservation contract of delete_glyph / delete_glyphs_inplace / merges as an oracle on the crate alone"""
    lines = [F.carry_walk(r, pc, pt) for _ in range(n)]
    outs = vlib.run_lines(shim, lines)
    bad, dist = [], {}
    for ln, o in zip(lines, outs):
        d, seen = F.carry_eval(ln, o)
        for k, v in seen.items():
            dist[k] = dist.get(k, 0) + v
        if d:
            bad.append((len(ln), ln, d, o))
    bad.sort()
    for _, ln, d, o in bad[:3]:
        ctx.violation(f"a cluster primitive does not hand the glyph flags on as its contract says: {d} ({len(bad)} of {len(lines)} walks)",
                      {"stage": "search", "stream": "carry-exact", "request": ln, "what_differs": d, "observed": o[-1500:]})
    ctx.note_search("carry-exact", len(lines), dist.get("del:backward", 0) + dist.get("delin:backward", 0), distribution=dist,
                    deviations=len(bad),
                    rule="random buffers whose masks already carry glyph flags (all 8 values of the DEFINED bits), ascending / descending / "
                         "unordered clusters, levels 0-2; in/out walks of next / del / repl / repls / copy / merge / mergeout / utbo, or "
                         "in-place merge / utb then delete_glyphs_inplace, through the hook; oracle (C03_delete_*): a glyph deleted alone in "
                         "its cluster c after a kept glyph of cluster p > c -> the trailing run of p is renamed c and carries exactly the "
                         "deleted glyph's flags; cluster survives / p < c -> nothing else changes; forward merge and merges: unchanged "
                         "cluster => unchanged mask, renamed => non-flag bits kept (merges: no flags); non-trivial = backward case hit")


def run(ctx):
    ctx.assumptions += [
        "theorems are about the Lean model of the flag setters of buffer.rs (_set_glyph_flags, _infos_find_min_cluster, "
        "_infos_set_glyph_flags), of propagate_flags, and of the primitives that rename glyphs (set_cluster, delete_glyph, "
        "merge_clusters, merge_out_clusters: which flags a renamed glyph carries); tied to the crate by the flags-prims and "
        "flags-carry correspondence streams and, for the call sites inside the GSUB interpreter, by gsub-flags (Gsub.lean)",
        "delete_glyphs_inplace: the `Merge cluster backward` iteration has a theorem (C03_delin_backward_carries_flags: the run that "
        "takes over the deleted glyph's cluster carries the deleted glyph's flags); the other branches and the whole loop are the "
        "carry-exact oracle + flags-carry correspondence; through shape() by break-safety-di / concat-redistribution-di",
        "apply_stch (Arabic shaper) is modelled (Stch.lean: both scans, the fit arithmetic in Int, the flag call through Buf.lean's "
        "unsafe_to_break, the copies and offsets; not: ensure() refusing the enlarged buffer, i32 wrap-around) and tied to the crate "
        "by stch-prims (hook arabic::apply_stch_on); C03_stch_flags: mark + whole word are flagged.  Through shape(): "
        "break-safety-stch on synthetic and corpus stch fonts; the class arabic-pcm-stch is decided from the cut and the "
        "difference and only applies to the concat experiment (flagslib.stch_attribution)",
        "synthetic-font streams: DIFFs in fonts that can produce a multi-glyph sequence or run a nested lookup after a deleting "
        "one are attributed to the finding classes deleted-flag-carrier / nested-delete-drift from the recipe alone "
        "(over-approximation: a new defect that shows only in such fonts would be reported under that class); 6 fonts in 10 "
        "are outside both classes",
        "GPOS value records and PairPos: apply_to_pos with its `worked` return value and PairAdjustment::apply's flag decision are "
        "modelled (Gpos.lean valueApplyToPosD, GposFlag.lean pairPosApply; device / variation deltas are parameters) and tied to "
        "the crate by gpos-value-worked / gpos-pair-flags (hooks gpos::pair_records_apply_to_pos, gpos::apply_subtable_flags) and "
        "the regenerated probe table behind C03_gen_value_worked; SinglePos needs no flag (one glyph); MarkBasePos, CursivePos and "
        "the kern / kerx machines are not modelled here (C07 models their arithmetic); through shape(): break-safety-gposdev",
        "break-safety-syllabic (generated fonts for the Indic / Khmer / Myanmar / Universal shapers, tools/syllabic.py): the search "
        "domain leaves out three font traits that lead to behaviour shared with HarfBuzz and not yet registered as finding classes — "
        "isol / init / medi / fina features under the Universal shaper (setup_topographical_masks flags nothing), ligatures whose first "
        "glyph is a mark (a reordered pre-base vowel sign ligated with its base loses UNSAFE_TO_BREAK in merge_clusters) and letters "
        "with a canonical decomposition (the normalizer recomposes only when some cluster has a mark: all_simple); each is generated "
        "again, and attributed, as soon as known_findings.json has the class use-topographical / reordered-ligature / "
        "normalizer-all-simple (coverage key break_syllabic_domain says which are on)",
        "that every shaping step which makes two clusters interdependent calls unsafe_to_break over a span covering what it "
        "inspected (the ~40 call sites) is not proved; it is searched by the break-safety verifier through shape() "
        "(partial, as DESIGN.md §5 C03 says); OpenType and AAT fonts are separate streams",
    ]
    ctx.regen()
    if not ctx.prove(MODULE):
        import _pairflag as PFn
        PFn.name_failed_theorems(ctx)
    shim = vlib.build_harness()
    b = dict(F.constants(shim)[1])
    pc, pt = b["PRODUCE_UNSAFE_TO_CONCAT"], b["PRODUCE_SAFE_TO_INSERT_TATWEEL"]
    r = ctx.rng("prims")
    ctx.correspond("flags-prims",
                   lines=[F.flag_walk(r, pc, pt, adversarial=True) for _ in range(ctx.budget(10000, 200000))]
                         + [interior_case(r)[0] for _ in range(ctx.budget(10000, 200000))],
                   classify=F.classify_walk, canon=F.canon_panic)
    rc = ctx.rng("carry")
    ctx.correspond("flags-carry", lines=[F.carry_walk(rc, pc, pt) for _ in range(ctx.budget(10000, 200000))],
                   classify=F.classify_walk, canon=F.canon_panic)
    import C06 as C06mod
    ctx.correspond("gsub-flags", groups=gsub_flag_groups(ctx, shim, ctx.rng("gsub-flags"), ctx.budget(150, 3000), 10),
                   classify=C06mod.gsub_classify, canon=F.canon_panic, only=lambda ln: ln.startswith("gsub "))
    ctx.correspond("stch-prims", groups=F.stch_prim_groups(ctx.rng("stch-prims"), ctx.budget(40, 400), ctx.budget(100, 500)),
                   classify=F.classify_stch, canon=F.canon_panic, only=lambda ln: ln.startswith("stch "))
    # the Hangul shaper's text pre-processing on the buffer model, masks included (HangulBuf.lean; theorems
    # C03_hangul_decomposition_flagged, C03_hangul_conjoining_flagged, C03_hangul_tone_flagged)
    import hangulflags as HF
    hdis = ctx.correspond("hangul-pre-flags", lines=HF.pre_flag_lines(ctx.rng("hangul-pre-flags"), ctx.budget(6000, 200000)),
                   classify=HF.classify_pre_flags, canon=lambda x: "panic" if x.startswith("panic") else x)
    import _gposflag as GF
    rg = ctx.rng("gpos-flags")
    ctx.correspond("gpos-value-worked", lines=GF.val_lines(rg, ctx.budget(3000, 100000)), classify=GF.classify_val, canon=GF.canon)
    ctx.correspond("gpos-pair-flags", lines=GF.pair_lines(rg, ctx.budget(4000, 150000), pc), classify=GF.classify_pair, canon=GF.canon)
    GF.hook_search(ctx, shim, ctx.rng("gpos-flags-search"), ctx.budget(4000, 150000), pc)
    # pair kerning / pair positioning with the real skipping iterator and every flag call (PairFlag.lean; theorems
    # C03_kern_pair_flags_inspected, C03_kern_machine_flags_inspected, C03_kerx_simple_flags_inspected, C03_pairpos_flags_inspected)
    import _pairflag as PF
    rk = ctx.rng("pair-span")
    kpl = PF.kerx_plans(shim)
    ctx.correspond("kern-machine-flags", lines=PF.mk_lines(rk, ctx.budget(3000, 100000), pc), classify=PF.classify_k, canon=GF.canon)
    ctx.correspond("kerx-simple-flags", lines=PF.kx_lines(rk, ctx.budget(2000, 60000), pc, kpl), classify=PF.classify_k, canon=GF.canon)
    ctx.correspond("gpos-pair-iter", lines=PF.pair_lines(rk, ctx.budget(3000, 100000), pc), classify=PF.classify_pair, canon=GF.canon)
    PF.hook_search(ctx, shim, ctx.rng("pair-span-search"), ctx.budget(3000, 100000), pc, kpl)
    interior_search(ctx, shim, ctx.rng("interior"), ctx.budget(20000, 300000))
    carry_search(ctx, shim, ctx.rng("carry-exact"), ctx.budget(10000, 200000), pc, pt)
    break_synth_search(ctx, shim, ctx.rng("break-synth"), ctx.budget(200, 4000), 12, pc, pt)
    break_gposdev_search(ctx, shim, ctx.rng("break-gposdev"), ctx.budget(160, 3000), 12, pc, pt)
    break_fraction_search(ctx, shim, ctx.rng("break-fraction"), ctx.budget(20, 300), ctx.budget(20, 60), pc, pt)
    break_di_search(ctx, shim, ctx.rng("break-di"), ctx.budget(150, 3000), 16, pc, pt)
    break_syllabic_search(ctx, shim, ctx.rng("break-syllabic"), ctx.budget(240, 4000), 16, pc, pt)
    promote_hangul_pre_flags(ctx, shim, hdis, ctx.budget(80, 400))
    break_hangul_search(ctx, shim, ctx.rng("break-hangul"), ctx.budget(150, 3000), 16, pc, pt)
    break_stch_search(ctx, shim, ctx.rng("break-stch"), ctx.budget(100, 2000), 12, pc, pt)
    break_search(ctx, shim, ctx.rng("break-ot"), ctx.budget(60, 1200), pc, pt, False, "break-safety-ot")
    break_search(ctx, shim, ctx.rng("break-aat"), ctx.budget(150, 4000), pc, pt, True, "break-safety-aat")


def replay(ctx, rp):
    shim = vlib.build_harness()
    if rp.get("stream", "").startswith("break-"):
        s = F.shaping_from_replay(rp)
        o = F.verify_break(shim, [s])[0]
        print("request:", s.line)
        print("status :", o["status"], " pieces (text ranges, visual order):", o.get("pieces"))
        print("whole  :", F.fmt_glyphs(o.get("whole") or []))
        print("pieces :", F.fmt_glyphs(o.get("recon") or []))
        print("difference:", o.get("diff"))
        return 1 if o["status"] in ("DIFF", "piecefail", "noresult") else 0
    if rp.get("stream") == "carry-exact":
        o = vlib.run_lines(shim, [rp["request"]], nproc=1)[0]
        d = F.carry_eval(rp["request"], o)[0]
        print("request:", rp["request"]); print("reply  :", o[-1500:]); print("deviation:", d)
        return 1 if d else 0
    if rp.get("stream") in ("value-worked", "pair-flagged"):
        import _gposflag as GF
        o = vlib.run_lines(shim, [rp["request"]], nproc=1)[0]
        d = (GF.val_eval if rp["stream"] == "value-worked" else GF.pair_eval)(rp["request"], o)[0]
        print("request:", rp["request"]); print("reply  :", o[-1500:]); print("deviation:", d)
        return 1 if d else 0
    if rp.get("stream") in ("kern-span", "kerx-span", "pairpos-miss-span"):
        import _pairflag as PF
        return PF.replay_search(rp, shim, dict(F.constants(shim)[1])["PRODUCE_UNSAFE_TO_CONCAT"])
    if rp.get("stream") == "interior-exact":
        o = vlib.run_lines(shim, [rp["request"]], nproc=1)[0]
        d = interior_eval(rp["request"], o)[0]
        print("request:", rp["request"]); print("reply  :", o[-1500:]); print("deviation:", d)
        return 1 if d else 0
    if "request" in rp:
        model = vlib.build_model()
        a = vlib.run_lines(shim, [rp["request"]], nproc=1)[0]
        b = vlib.run_lines(model, [rp["request"]], nproc=1)[0]
        print("impl :", a[:3000]); print("model:", b[:3000])
        return 0 if F.canon_panic(a) == b else 1
    print(rp); return 1
