"""Shared by C13.py and C16.py: minimal sfnt builder for fonts WITHOUT layout tables, the recipe token the
Lean driver reads, character tokens (Unicode data fetched once from the compiled crate), request lines
of the `pl` commands (harness/src/ops/pipeline.rs, lean/RbModel/Drv/Pipeline.lean).

The binary builder and ttf-parser are outside the model but inside the correspondence loop: the same
recipe is serialised to an sfnt for rbshim and flattened to a token for rbmodel."""
import struct
import vlib

# ----------------------------------------------------------------------------------------------
# sfnt


def _pad(b):
    return b + b"\0" * (-len(b) % 4)


def _cmap4(pairs):
    """format 4 from (cp, gid) pairs, cp <= 0xFFFF; every run of consecutive cps becomes a segment that
    maps through glyphIdArray (so arbitrary gids, incl. non-consecutive ones, are exact)."""
    pairs = sorted(pairs)
    segs = []
    for cp, g in pairs:
        if cp == 0xFFFF:
            continue  # reserved for the terminator segment
        if segs and segs[-1][1] + 1 == cp:
            segs[-1][1] = cp
            segs[-1][2].append(g)
        else:
            segs.append([cp, cp, [g]])
    segs.append([0xFFFF, 0xFFFF, None])
    n = len(segs)
    end = [s[1] for s in segs]
    start = [s[0] for s in segs]
    delta, roff, garr = [], [], []
    for i, s in enumerate(segs):
        if s[2] is None:
            delta.append(1); roff.append(0)
        elif all(g == (s[2][0] + k) % 65536 for k, g in enumerate(s[2])):
            delta.append((s[2][0] - s[0]) % 65536); roff.append(0)
        else:
            # offset from this idRangeOffset slot to the start of its glyphs in glyphIdArray
            roff.append((n - i) * 2 + len(garr) * 2)
            delta.append(0)
            garr += s[2]
    import math
    sr = 2 * (2 ** int(math.log2(n)))
    es = int(math.log2(sr // 2))
    body = struct.pack(">HHHH", n * 2, sr, es, n * 2 - sr)
    body += b"".join(struct.pack(">H", x) for x in end) + b"\0\0"
    body += b"".join(struct.pack(">H", x) for x in start)
    body += b"".join(struct.pack(">H", x) for x in delta)
    body += b"".join(struct.pack(">H", x) for x in roff)
    body += b"".join(struct.pack(">H", x) for x in garr)
    return struct.pack(">HHH", 4, 6 + len(body), 0) + body


def _cmap12(pairs):
    pairs = sorted(pairs)
    groups = []
    for cp, g in pairs:
        if groups and groups[-1][1] + 1 == cp and groups[-1][2] + (cp - groups[-1][0]) == g:
            groups[-1][1] = cp
        else:
            groups.append([cp, cp, g])
    body = b"".join(struct.pack(">III", a, b, g) for a, b, g in groups)
    return struct.pack(">HHIII", 12, 0, 16 + len(body), 0, len(groups)) + body


def _cmap0(pairs):
    arr = [0] * 256
    for cp, g in pairs:
        arr[cp] = g
    return struct.pack(">HHH", 0, 262, 0) + bytes(arr)


def _cmap6(pairs):
    pairs = sorted(pairs)
    first = pairs[0][0]
    last = pairs[-1][0]
    arr = [0] * (last - first + 1)
    for cp, g in pairs:
        arr[cp - first] = g
    return struct.pack(">HHHHH", 6, 10 + 2 * len(arr), 0, first, len(arr)) + b"".join(struct.pack(">H", g) for g in arr)


def sub_semantics(fmt, pairs):
    """What ttf-parser's glyph_index returns for the subtable this builder writes (so that the recipe the
    model reads says exactly what the binary says): format 0 / 6 holes are gid 0 -> format 0 reports a
    0 entry as missing, format 6 reports it as glyph 0."""
    d = dict(pairs)
    if fmt == 0:
        return {c: g for c, g in d.items() if g != 0}
    if fmt == 6:
        lo, hi = min(d), max(d)
        return {c: d.get(c, 0) for c in range(lo, hi + 1)}
    if fmt == 4:
        # the terminator segment maps U+FFFF through idDelta 1 -> glyph 0; glyphIdArray value 0 = missing
        out = {}
        segs = []
        for cp in sorted(d):
            if cp == 0xFFFF:
                continue
            if segs and segs[-1][-1] + 1 == cp:
                segs[-1].append(cp)
            else:
                segs.append([cp])
        for s in segs:
            gl = [d[c] for c in s]
            direct = all(g == (gl[0] + k) % 65536 for k, g in enumerate(gl))
            for c, g in zip(s, gl):
                # glyphIdArray path of ttf-parser: 0 = missing, and `(v as i16)` must be >= 0
                if direct or 0 < g < 0x8000:
                    out[c] = g
        out[0xFFFF] = 0
        return out
    return d


def build_font(r):
    """r: dict(ng, upem, asc, desc, hadv: list|None, vadv: list|None, vorg: None|(default, {gid: y}),
    subs: [(platform, encoding, format, [(cp, gid)...])])"""
    ng = r["ng"]
    tables = {}
    head = struct.pack(">IIIIHHQQhhhhHHhhh", 0x00010000, 0, 0, 0x5F0F3CF5, 0, r["upem"], 0, 0, 0, 0, 0, 0, 0, 8, 2,
                       1 if r.get("bbox") is not None else 0, 0)
    tables[b"head"] = head
    nhm = len(r["hadv"]) if r["hadv"] is not None else 0
    tables[b"hhea"] = struct.pack(">IhhhHhhhhhhhhhhhH", 0x00010000, r["asc"], r["desc"], 0, 0, 0, 0, 0, 1, 0, 0, 0, 0, 0, 0, 0, nhm)
    tables[b"maxp"] = struct.pack(">IH", 0x00005000, ng)
    if r["hadv"] is not None:
        tables[b"hmtx"] = (b"".join(struct.pack(">Hh", a, 0) for a in r["hadv"])
                           + b"".join(struct.pack(">h", 0) for _ in range(max(0, ng - nhm))))
    if r["vadv"] is not None:
        nvm = len(r["vadv"])
        tables[b"vhea"] = struct.pack(">IhhhHhhhhhhhhhhhH", 0x00011000, 0, 0, 0, 0, 0, 0, 0, 1, 0, 0, 0, 0, 0, 0, 0, nvm)
        vsb = r.get("vsb") or []
        tables[b"vmtx"] = (b"".join(struct.pack(">Hh", a, vsb[k] if k < len(vsb) else 0) for k, a in enumerate(r["vadv"]))
                           + b"".join(struct.pack(">h", 0) for _ in range(max(0, ng - nvm))))
    if r.get("bbox") is not None:
        # glyf / loca (long offsets): a glyph is either empty or a bare header (numberOfContours 0 + bbox) — all that
        # face.rs::glyph_extents reads for an outline font without bitmaps / COLR
        glyf, loca = b"", []
        for g in range(ng):
            loca.append(len(glyf))
            bb = r["bbox"].get(g)
            if bb is not None:
                glyf += struct.pack(">hhhhhh", 0, bb[0], bb[1], bb[2], bb[3], 0)
        loca.append(len(glyf))
        tables[b"glyf"] = glyf if glyf else b"\0\0"
        tables[b"loca"] = b"".join(struct.pack(">I", o) for o in loca)
    if r["vorg"] is not None:
        d, recs = r["vorg"]
        tables[b"VORG"] = struct.pack(">IhH", 0x00010000, d, len(recs)) + b"".join(
            struct.pack(">Hh", g, y) for g, y in sorted(recs.items()))
    if r["subs"] is not None:
        subs = []
        for p, e, fmt, pairs in r["subs"]:
            subs.append((p, e, {0: _cmap0, 4: _cmap4, 6: _cmap6, 12: _cmap12}[fmt](pairs)))
        hdr = struct.pack(">HH", 0, len(subs))
        off = 4 + 8 * len(subs)
        recs, data = b"", b""
        for p, e, b in subs:
            recs += struct.pack(">HHI", p, e, off + len(data))
            data += b
        tables[b"cmap"] = hdr + recs + data
    tags = sorted(tables)
    n = len(tags)
    import math
    sr = 16 * (2 ** int(math.log2(n)))
    out = struct.pack(">IHHHH", 0x00010000, n, sr, int(math.log2(sr // 16)), n * 16 - sr)
    off = 12 + 16 * n
    body = b""
    for t in tags:
        d = tables[t]
        out += struct.pack(">4sIII", t, 0, off + len(body), len(d))
        body += _pad(d)
    return out + body


def recipe_token(r):
    """The flattened recipe the Lean driver parses (Drv/Pipeline.lean::parseFont)."""
    f = [f"g{r['ng']}", f"u{r['upem']}", f"a{r['asc']}", f"d{r['desc']}"]
    f.append("h" + (".".join(map(str, r["hadv"])) if r["hadv"] else "-"))
    f.append("v" + (".".join(map(str, r["vadv"])) if r["vadv"] else "-"))
    if r["vorg"] is None:
        f.append("o-")
    else:
        d, recs = r["vorg"]
        f.append("o" + "/".join([str(d)] + [f"{g}={y}" for g, y in sorted(recs.items())]))
    vsb = r.get("vsb") or []
    f.append("s" + (".".join(map(str, vsb)) if vsb and r["vadv"] else "-"))
    if r.get("bbox") is None:
        f.append("b-")
    else:
        f.append("b" + "/".join(["x"] + [f"{g}={bb[1]}.{bb[3]}" for g, bb in sorted(r["bbox"].items()) if bb is not None]))
    if not r["subs"]:
        f.append("c-")
    else:
        ss = []
        for p, e, fmt, pairs in r["subs"]:
            sem = sub_semantics(fmt, pairs)
            ss.append(",".join([f"{p}.{e}"] + [f"{c}={g}" for c, g in sorted(sem.items())]))
        f.append("c" + "/".join(ss))
    return ";".join(f)


def font_tokens(r):
    return build_font(r).hex() + " " + recipe_token(r)


# ----------------------------------------------------------------------------------------------
# characters


class Chars:
    """Unicode data of code points as the crate reports them (`pl cprops`), cached; makes char tokens."""

    def __init__(self, shim):
        self.shim = shim
        self.p = {}

    def load(self, cps):
        need = sorted(set(c for c in cps if c not in self.p))
        if not need:
            return
        outs = vlib.run_lines(self.shim, [f"pl cprops {c}" for c in need])
        for c, o in zip(need, outs):
            if o == "none":
                self.p[c] = None
            else:
                v = [int(x) for x in o.split()]
                self.p[c] = dict(gc=v[0], mcc=v[1], di=v[2], fl=v[3], sf=v[4], mir=v[5], vert=v[6], vs=v[7])

    def tok(self, c):
        p = self.p[c]
        return f"{c}.{p['gc']}.{p['mcc']}.{p['fl']}.{p['sf']}.{p['mir']}.{p['vert']}"

    def in_scope(self, c):
        p = self.p.get(c)
        return p is not None and p["mcc"] == 0 and not (p["fl"] & 2)

    def is_mark(self, c):
        return self.p[c]["gc"] in (10, 11, 12)


def text_token(chars, text, clusters=None):
    if not text:
        return "-"
    if clusters is None:
        clusters = range(len(text))
    return ",".join(f"{chars.tok(c)}:{cl}" for c, cl in zip(text, clusters))


SCRIPTS = {"Latn": 4, "Thaa": 5, "Runr": 0}     # default-shaper scripts with LTR / RTL / no native direction


def shape_line(chars, fonttok, d, script, flags, level, text, clusters=None, npre=0, aux=(0x25CC,)):
    # the model's Unicode data come from the tokens: besides the text it needs U+25CC and the mirrored forms
    # of the text's characters (rotate_chars asks for the vertical form of an already mirrored character)
    extra = list(aux)
    for c in text:
        m = chars.p[c]["mir"]
        if m and m not in text and m not in extra:
            extra.append(m)
    chars.load(extra)
    auxs = ",".join(chars.tok(c) for c in extra if chars.p.get(c)) or "-"
    return (f"pl shape {fonttok} {d} {script} {SCRIPTS[script]} {flags} {level} {npre} "
            f"{text_token(chars, text, clusters)} {auxs}")


def parse_out(o):
    """ok n gid:cluster:xa:ya:xo:yo ... -> list of tuples, or None"""
    t = o.split()
    if not t or t[0] != "ok":
        return None
    return [tuple(int(x) for x in g.split(":")) for g in t[2:]]


# ----------------------------------------------------------------------------------------------
# random recipes

PREF = [(3, 0), (3, 10), (0, 6), (0, 4), (3, 1), (0, 3), (0, 2), (0, 1), (0, 0), (1, 0)]
OTHER = [(0, 5), (3, 2), (3, 3), (1, 1), (3, 9), (0, 7)]


def rand_recipe(r, alphabet, ng=None, nsubs=None, allow_mac=True, allow_symbol=True, vertical=None,
                space=None, extra_missing=0, outlines=False):
    """alphabet: code points that should (mostly) have glyphs.  Returns a recipe dict."""
    ng = ng or r.range(2, 40)
    k = r.below(6)
    upem = [1000, 2048, 16, 16384, r.range(16, 16384), 1000][k]
    asc = r.choice([800, 0, 1900, -100, r.range(-32768, 32767), 32767])
    desc = r.choice([-200, 0, -500, 300, r.range(-32768, 32767), -32768])

    def adv():
        return r.choice([0, 1, 500, 600, 1000, 65535, r.below(65536), r.below(3000)])
    if r.chance(1, 12):
        hadv = None
    else:
        nhm = r.choice([ng, ng, ng, 1, r.range(1, ng), ng + r.below(3)])
        hadv = [adv() for _ in range(nhm)]
    if vertical is None:
        vertical = r.chance(1, 2)
    vadv = None
    if vertical:
        nvm = r.choice([ng, ng, 1, r.range(1, ng), ng + r.below(3)])
        vadv = [adv() for _ in range(nvm)]
    vorg = None
    if r.chance(1, 2):
        recs = {r.below(ng + 2): r.range(-32768, 32767) for _ in range(r.below(5))}
        vorg = (r.choice([880, 0, -5, r.range(-32768, 32767)]), recs)
    nsubs = nsubs if nsubs is not None else r.choice([1, 1, 2, 3, 4])
    ids = []
    pool = list(PREF)
    if not allow_mac:
        pool.remove((1, 0))
    if not allow_symbol:
        pool.remove((3, 0))
    for _ in range(nsubs):
        ids.append(r.choice(pool) if r.chance(5, 6) else r.choice(OTHER))
    ids = r.shuffle(ids)
    subs = []
    for p, e in ids:
        if p == 1:
            fmt = r.choice([0, 6])
        elif (p, e) in ((3, 10), (0, 6), (0, 4)):
            fmt = r.choice([12, 12, 4])
        else:
            fmt = r.choice([4, 4, 12])
        pairs = {}
        for c in alphabet:
            if r.chance(1, 10 + 40 * (extra_missing == 0)) and c != 0x20:
                continue
            g = r.choice([r.range(1, ng - 1) if ng > 1 else 0, r.range(1, ng - 1) if ng > 1 else 0,
                          r.below(ng + 3), 0 if r.chance(1, 4) else r.below(65536)])
            cc = c
            if (p, e) == (3, 0) and c <= 0xFF and r.chance(1, 2):
                cc = 0xF000 + c
            if p == 1:
                if c > 0xFF:
                    continue
                if fmt == 0:
                    g = g % 256
            if fmt in (0,) and cc > 0xFF: continue
            if fmt in (4, 6) and cc > 0xFFFF: continue
            if fmt == 4 and cc == 0xFFFF: continue
            pairs[cc] = g
        if p == 1:
            # MacRoman bytes >= 0x80 and byte 0 (what unmappable characters turn into)
            for b in [0] + [r.range(0x80, 0xFF) for _ in range(4)]:
                if r.chance(1, 2):
                    pairs[b] = r.range(1, 255) if fmt == 0 else r.below(ng + 1)
        if space is False:
            pairs.pop(0x20, None); pairs.pop(0xF020, None)
        elif space is True and p != 1:
            pairs[0x20] = r.range(1, max(1, ng - 1))
        if fmt == 6 and pairs:
            lo = min(pairs); pairs = {c: g for c, g in pairs.items() if c - lo < 400}
        if not pairs:
            pairs = {0x41: 1}
        subs.append((p, e, fmt, sorted(pairs.items())))
    # outline bounding boxes (glyf headers) and vertical side bearings: what glyph_v_origin falls back to without VORG
    # (only where asked for: with outlines the fallback mark positioning, which is not modelled, starts to act on marks)
    bbox = None
    if outlines and r.chance(2, 3):
        bbox = {}
        for g in range(ng):
            if r.chance(1, 5): continue                                   # empty glyph
            ymin = r.choice([0, -200, -301, r.range(-32768, 32767), r.range(-1200, 200)])
            ymax = r.choice([700, 800, 1500, r.range(-32768, 32767), r.range(0, 2500)])
            bbox[g] = (r.range(-100, 100), ymin, r.range(100, 1000), ymax)
    vsb = [r.choice([0, 0, 10, -50, r.range(-32768, 32767)]) for _ in (vadv or [])] if outlines and r.chance(1, 2) else None
    return dict(ng=ng, upem=upem, asc=asc, desc=desc, hadv=hadv, vadv=vadv, vorg=vorg, subs=subs, bbox=bbox, vsb=vsb)


# ----------------------------------------------------------------------------------------------
# the cmap family: fonts whose subtable SELECTION and per-subtable LOOKUP RULES matter (face.rs::find_best_cmap_subtable,
# get_nominal_glyph): Windows Symbol (3,0) alone / together with any other subtables in any order, MacRoman, the rest

# boundary values (value - 1, value, value + 1 where it makes sense) of every numeric constant of the lookup code:
# 0x7F (MacRoman transcoding starts above), 0xFF (symbol alias bound), 0xF000 (alias base), 0xFFFF / 0x10000 (u16 views)
CMAP_EDGES = [0, 1, 0x7E, 0x7F, 0x80, 0x81, 0xFE, 0xFF, 0x100, 0x101,
              0xEFFF, 0xF000, 0xF001, 0xF07E, 0xF07F, 0xF080, 0xF081, 0xF0FE, 0xF0FF, 0xF100, 0xF101,
              0xFFFE, 0xFFFF, 0x10000, 0x100FF, 0x1F000, 0x1F0FF, 0x10FFFF]
CMAP_LOW = list(range(0, 0x102))                       # the aliased block and the two code points above it
CMAP_DOMAIN = CMAP_LOW + [0xF000 + c for c in CMAP_LOW]
CMAP_MODES = ["symbol-alone", "symbol-alone", "symbol-with-others", "symbol-with-others", "symbol-with-others",
              "mac", "no-symbol"]


def cmap_family_subs(r, ng, mode=None):
    """subtable list of one font of the family.  Every subtable gets its OWN random glyph assignment (so the reply tells
    which subtable was consulted) over the low block U+0000..U+0101 and its image U+F000..U+F101: each low code point is
    mapped directly / only at U+F000+c / at both (different glyphs) / nowhere, with per-subtable densities from 'none' to
    'all'; the edge code points are drawn uniformly from the four states."""
    mode = mode or r.choice(CMAP_MODES)
    others = [pe for pe in PREF if pe != (3, 0)] + OTHER
    if mode == "symbol-alone":
        ids = [(3, 0)]
    elif mode == "symbol-with-others":
        ids = [(3, 0)] + [r.choice(others) for _ in range(r.range(1, 3))]
        if r.chance(1, 6): ids.append((3, 0))            # a second symbol subtable: the first one in table order wins
    elif mode == "mac":
        ids = [(1, 0)] + [r.choice(OTHER) for _ in range(r.below(3))]
    else:
        ids = [r.choice(others) for _ in range(r.range(1, 3))]
    ids = r.shuffle(ids)
    top = max(2, ng - 1)
    subs = []
    for p, e in ids:
        pairs = {}
        if p == 1:
            fmt = r.choice([0, 6])
            dens = r.choice([2, 4, 7, 8])
            for b in range(256):
                if b in (0, 0x7E, 0x7F, 0x80, 0x81, 0xFE, 0xFF) and r.chance(3, 4) or r.chance(dens, 8):
                    pairs[b] = r.range(1, min(top, 255))
            if fmt == 6 and pairs:
                lo = r.choice([min(pairs), 0, 0x7F, 0x80]); pairs = {c: g for c, g in pairs.items() if c >= lo}
            if not pairs: pairs = {0x41: 1}
        else:
            fmt = r.choice([4, 12])
            dd, da = r.choice([0, 1, 4, 7, 8]), r.choice([0, 1, 4, 7, 8])
            for c in CMAP_LOW:
                if c in CMAP_EDGES:
                    k = r.below(4); direct, alias = bool(k & 1), bool(k & 2)
                else:
                    direct, alias = r.chance(dd, 8), r.chance(da, 8)
                g = r.range(1, top)
                if direct: pairs[c] = g
                if alias: pairs[0xF000 + c] = g % top + 1 if top > 1 else g      # never the glyph of the direct mapping
            for c in CMAP_EDGES:
                if c > 0x101 and not 0xF000 <= c <= 0xF101 and r.chance(1, 2):
                    if fmt == 4 and c >= 0xFFFF: continue
                    pairs[c] = r.range(1, top)
            if not pairs: pairs = {0x41: 1}
        subs.append((p, e, fmt, sorted(pairs.items())))
    return mode, subs


def cmap_family_recipe(r, mode=None, outlines=False):
    """a font of the cmap family: metrics as in rand_recipe (hmtx / vmtx / VORG / glyf boxes, short metric tables, ...),
    glyph count large enough to tell glyphs apart, subtables from cmap_family_subs"""
    rec = rand_recipe(r, [0x41], ng=r.choice([8, 40, 40, 300]), nsubs=1, outlines=outlines)
    mode, rec["subs"] = cmap_family_subs(r, rec["ng"], mode)
    return mode, rec


def simple_recipe(alphabet, space=True, ng=None, adv=None, fmt=None, vertical=False):
    """deterministic font: glyph i+1 for the i-th character of the alphabet, one (3,10)/(3,1) subtable."""
    alphabet = [c for c in alphabet if c != 0x20]
    ng = ng or len(alphabet) + 2
    pairs = [(c, i + 1) for i, c in enumerate(alphabet)]
    sg = len(alphabet) + 1
    if space:
        pairs.append((0x20, sg))
    big = any(c > 0xFFFF for c, _ in pairs)
    fmt = fmt or (12 if big else 4)
    hadv = adv or [0] + [300 + 37 * i for i in range(1, ng)]
    return dict(ng=ng, upem=1000, asc=800, desc=-200, hadv=hadv,
                vadv=[1000 + 11 * i for i in range(ng)] if vertical else None, vorg=None,
                subs=[(3, 10 if fmt == 12 else 1, fmt, sorted(pairs))])


def correspond(ctx, stream, lines, classify=None):
    """ctx.correspond, plus: a disagreement is reported with its own concrete request (the shared machinery
    lists a broken correspondence only when no other violation carries a failing input)."""
    dis = ctx.correspond(stream, lines=lines, classify=classify)
    if dis:
        d = dis[0]
        ctx.violation(f"model and crate disagree on stream {stream} ({len(dis)} of {len(lines)} requests); "
                      f"smallest: impl `{d['impl'][:160]}` model `{d['model'][:160]}`",
                      {"stage": "correspond", "stream": stream, "request": d["request"], "impl": d["impl"],
                       "model": d["model"], "count": len(dis)})
    return dis
