"""C05 — shaping is a pure function: repeatable, buffer/plan reuse and threads are safe."""
import os, re
import vlib, corpus
import _life

MODULE = "RbModel.Props.C05"
LEVEL = "proof"

ALPHA = [0x20, 0x2e, 0x31, 0x41, 0x61, 0x62, 0x66, 0x69, 0x301, 0x308, 0x5d0, 0x5d1, 0x5b4, 0x627, 0x628, 0x644, 0x64e,
         0x915, 0x94d, 0x937, 0x93f, 0xe01, 0xe33, 0xe48, 0x1100, 0x1161, 0xac00, 0x200c, 0x200d, 0xfe0f, 0x3042,
         0x16a0, 0x1f600, 0x10a00]
ALPHA += [c for f in _life.FAMILIES.values() for c in f["bases"] + f["marks"] if c not in ALPHA] + [0x25cc]
SCRIPTS = ["Latn", "Arab", "Hebr", "Deva", "Thai", "Runr", "Zyyy", "Hang", "Grek", "Zzzz", "Syrc"]
LANGS = ["en", "ar", "sr", "x-hbot-41424320", "zh-Hant", "TR"]
FLAGS = [0, 1, 2, 3, 4, 8, 0x10, 0x40, 0xC3, 0xFF]
FEATS = ["-", "6b65726e:0:0:4294967295", "6c696761:0:0:4294967295", "73733031:1:0:4294967295",
         "616c6967:1:1:3", "61616c74:3:0:4294967295"]


def fonts_dir():
    return os.path.join(vlib.REPO, "tests", "fonts")


FIXED_FONTS = ["in-house/03e3f463c3a985bc42096620cc415342818454fb.ttf", "text-rendering-tests/TestMORXThirtyone.ttf",
               "in-house/NotoNastaliqUrdu-Regular.ttf"]


def pick_fonts(r, k):
    """a few corpus fonts: the fixed ones that exist plus random ones"""
    out = [os.path.join(fonts_dir(), f) for f in FIXED_FONTS if os.path.exists(os.path.join(fonts_dir(), f))]
    allf = []
    for dp, dn, fn in os.walk(fonts_dir()):
        for f in sorted(fn):
            if f.lower().endswith((".ttf", ".otf")):
                allf.append(os.path.join(dp, f))
    allf.sort()
    out += r.sample(allf, k)
    return out


_tables = {}


def unicode_tables(shim):
    """T (code point -> strong script tag) and D (script tag -> guessed direction) for the generator alphabet,
    read from the crate through the public api (lcprop); these are the UData parameters of the model."""
    if "T" in _tables:
        return _tables["T"], _tables["D"], _tables["canon"]
    lines = [f"lcprop c {c:x}" for c in ALPHA] + [f"lcprop s {s}" for s in SCRIPTS]
    o = vlib.run_lines(shim, lines, nproc=1)
    T, D, canon = {}, {}, {}
    for c, rep in zip(ALPHA, o[:len(ALPHA)]):
        tag, d = (int(x) for x in rep.split())
        if tag:
            T[c] = tag
            D[tag] = None
    for s, rep in zip(SCRIPTS, o[len(ALPHA):]):
        tag, d = (int(x) for x in rep.split())
        canon[s] = tag
        D[tag] = d
    # direction of the scripts that only occur through characters: ask with the canonical 4 letters
    need = [t for t, d in D.items() if d is None]
    o = vlib.run_lines(shim, ["lcprop s " + tag.to_bytes(4, "big").decode("latin1") for tag in need], nproc=1)
    for t, rep in zip(need, o):
        D[t] = int(rep.split()[1])
    _tables.update(T=T, D=D, canon=canon)
    return T, D, canon


def head(font, T, D):
    t = ",".join(f"{c:x}:{tag}" for c, tag in sorted(T.items()))
    d = ",".join(f"{tag}:{dr}" for tag, dr in sorted(D.items()))
    return f"lc {font} T={t} D={d}"


def canon_scripts(canon):
    """script strings whose 4 letters are their own canonical tag (what the model stores)"""
    return [s for s, tag in canon.items() if tag == int.from_bytes(s.encode(), "big")]


def rand_text(r, lo=0, hi=8):
    k = r.below(4)
    n = r.range(lo, hi)
    if k == 0:
        base = r.choice([[0x61, 0x62, 0x66, 0x69, 0x20, 0x41], [0x627, 0x628, 0x644, 0x64e, 0x20], [0x915, 0x94d, 0x937, 0x93f],
                         [0x5d0, 0x5d1, 0x5b4], [0xe01, 0xe33, 0xe48], [0x1100, 0x1161, 0xac00]])
        return [r.choice(base) for _ in range(n)]
    return [r.choice(ALPHA) for _ in range(n)]


def fill_ops(r, scripts, big=False):
    """the ops of one request (what a caller does before shaping): content + properties"""
    ops = []
    if big:
        ops.append(f"pushn {r.choice([0x61, 0x628, 0x915]):x} {r.choice([16385, 17000, 20000])}")
    else:
        t = rand_text(r, 0, 8)
        if t and r.chance(1, 2):
            ops.append("push " + ",".join(f"{c:x}" for c in t))
        else:
            cl = 0
            for c in t:
                ops.append(f"add {c:x} {cl}")
                cl += r.below(3)
    if r.chance(1, 3): ops.append("pre " + (",".join(f"{c:x}" for c in rand_text(r, 0, 7)) or "-"))
    if r.chance(1, 3): ops.append("post " + (",".join(f"{c:x}" for c in rand_text(r, 0, 7)) or "-"))
    if r.chance(1, 2): ops.append(f"dir {r.range(1, 4)}")
    if r.chance(1, 2): ops.append(f"script {r.choice(scripts)}")
    if r.chance(1, 3): ops.append("lang x" + r.choice(LANGS).encode().hex())
    ops.append(f"flags {r.choice(FLAGS)}")            # flags survive clear() by design: a request always states them
    if r.chance(1, 2): ops.append(f"level {r.below(3)}")
    if r.chance(1, 8): ops.append(f"nfvs {r.below(5)}")
    return ops


def history_ops(r, scripts, steps):
    """an arbitrary earlier use of the buffer; ends in the unicode state"""
    ops = []
    glyph = False
    for _ in range(steps):
        if glyph:
            ops.append("clear" if r.chance(5, 6) else "new")
            glyph = False
            continue
        k = r.below(20)
        if k < 4:
            t = rand_text(r, 0, 6)
            ops.append("push " + (",".join(f"{c:x}" for c in t) or "-"))
        elif k < 6: ops.append(f"add {r.choice(ALPHA):x} {r.below(9)}")
        elif k == 6: ops.append(f"pushn {r.choice([0x61, 0x628]):x} {r.choice([0, 1, 40, 300])}")
        elif k == 7: ops.append(f"dir {r.range(1, 4)}")
        elif k == 8: ops.append(f"script {r.choice(scripts)}")
        elif k == 9: ops.append("lang x" + r.choice(LANGS).encode().hex())
        elif k == 10: ops.append(f"flags {r.choice(FLAGS)}")
        elif k == 11: ops.append(f"level {r.below(3)}")
        elif k == 12: ops.append("pre " + (",".join(f"{c:x}" for c in rand_text(r, 0, 7)) or "-"))
        elif k == 13: ops.append("post " + (",".join(f"{c:x}" for c in rand_text(r, 0, 7)) or "-"))
        elif k == 14: ops.append(r.choice(["guess", "resetcl", f"nfvs {r.below(4)}"]))
        elif k == 15: ops.append("clear")
        else:
            ops.append(r.choice(["shape ", "plan "]) + r.choice(FEATS))
            glyph = True
    if glyph:
        ops.append("clear")
    return ops


def strip_out(x):
    return re.sub(r" (out|dump)=\S+", "", x)


def lifecycle_lines(r, shim, n):
    T, D, canon = unicode_tables(shim)
    scripts = canon_scripts(canon)
    fonts = pick_fonts(r, 3)
    lines = []
    for i in range(n):
        f = r.choice(fonts)
        ops = history_ops(r, scripts, r.range(1, 10))
        if r.chance(1, 3):
            ops += fill_ops(r, scripts, big=r.chance(1, 60)) + [r.choice(["shape -", "plan -"])]
        if r.chance(1, 300):
            ops = ["shape -", "clear", "pushn 61 17000"] + ops
        lines.append(head(f, T, D) + " ; " + " ; ".join(ops))
    # earlier uses that leave every kind of residue (an in-place GPOS pass leaves the cursor at the end, both contexts,
    # properties, level, not-found glyph), then clear() and a residue-sensitive request: every field is read back after
    # every call and compared with the model (whose pipeline body is the identity: after clear() nothing of it may show)
    rf = _life.residue_font()
    cg = _life.corpus_gpos_cases(shim, corpus.load())
    cg = r.shuffle(cg)[:max(n // 12, 1)] if cg else []
    T2, D2 = extra_tables(shim, sorted({ord(ch) for _, text in cg for ch in text} - set(ALPHA)), T, D)
    for i in range(n // 3):
        ops = _life.residue_use(r)
        f = rf
        if cg and i % 4 == 3:
            f, text = cg[(i // 4) % len(cg)]
            ops = ["push " + _life.hx([ord(ch) for ch in text]), f"flags {r.choice(FLAGS)}", r.choice(["shape -", "plan -"])]
        req, _ = _life.sensitive_request(r, _life.SENSITIVE[i % len(_life.SENSITIVE)])
        if i % 5 == 4:
            # contexts set several times within one request (longer, then shorter / empty / transparent-only), add() and
            # push_str interleaved: every call's state is read back
            req, _, _ = _life.recontext_request(r)
            if r.chance(1, 3):
                ops = []
        ops += (["clear"] if ops else []) + req
        if r.chance(2, 3):
            ops += [r.choice(["shape -", "plan -"]), "clear"]
        used = {int(x, 16) for o in ops if o.split()[0] in ("push", "add", "pushn") for x in o.split()[1].split(",") if x != "-"}
        lines.append(head(f, {c: t for c, t in T2.items() if c in used}, D2) + " ; " + " ; ".join(ops))
    return lines


def extra_tables(shim, chars, T, D):
    """T / D extended by the strong scripts of further characters (same public-api probe as unicode_tables)"""
    T2, D2 = dict(T), dict(D)
    o = vlib.run_lines(shim, [f"lcprop c {c:x}" for c in chars], nproc=1)
    for c, rep in zip(chars, o):
        tag = int(rep.split()[0])
        if tag:
            T2[c] = tag
    need = sorted({t for t in T2.values() if t not in D2})
    o = vlib.run_lines(shim, ["lcprop s " + tag.to_bytes(4, "big").decode("latin1") for tag in need], nproc=1)
    for t, rep in zip(need, o):
        D2[t] = int(rep.split()[1])
    return T2, D2


def clear_probe_lines(r, n, scripts_tags):
    """`lcclear`: hb_buffer_t::clear() on a bare buffer whose EVERY field is drawn (hook clear_probe) vs Life.clear"""
    lines = []
    for _ in range(n):
        k = r.below(7)
        il = k + r.below(4)
        recs = ",".join(f"{r.choice(ALPHA)}:{r.below(40)}" for _ in range(k)) or "-"
        ctxs = [",".join(f"{r.choice(ALPHA):x}" for _ in range(r.below(6))) or "-" for _ in range(2)]
        lang = "x" + r.choice(LANGS).lower().encode().hex() if r.chance(2, 3) else "-"
        lines.append(
            f"lcclear L={r.below(3)} F={r.choice(FLAGS)} M={r.choice([16384, 0x3FFFFFFF, 100, 64 * 300])} "
            f"O={r.choice([0x1FFFFFFF, 16384, 0, 77, 1024 * 300])} h={r.below(2)} s={r.below(2)} p={r.below(2)} ok={r.below(2)} "
            f"i={r.below(il + 3)} n={k} o={r.below(9)} sc={r.choice([0, 1, 2, 5, 0x20, 0xff, 0x1000000])} se={r.below(256)} "
            f"il={il} pl={r.below(9)} D={r.below(5)} S={r.choice(['-'] + scripts_tags)} G={lang} pre={ctxs[0]} post={ctxs[1]} "
            f"sf={r.below(2)} nf={r.choice(['-', '0', '3', '70000'])} inv=- I={recs}")
    return lines


def classify(ln, out):
    ks = []
    ops = [o.split()[0] for o in ln.split(" ; ")[1:]]
    for o in set(ops):
        ks.append("op:" + o)
    states = out.split(" | ")
    if any(s.startswith("k=G e=1") or s.startswith("ok k=G e=1") for s in states): ks.append("empty-shape")
    if any("k=G e=0" in s for s in states): ks.append("nonempty-shape")
    if " ok=0 " in out: ks.append("refused-growth")
    if " M=16384 " in out and "k=U" in out.split("M=16384")[0][-12:]: ks.append("limits-survive-into-unicode-state")
    if out.startswith("panic"): ks.append("panic")
    return ks


# ---------------------------------------------------------------------------------------------------------
# search (implementation alone, public api)


def kv(state):
    return dict(t.split("=", 1) for t in state.split() if "=" in t)


PUBLIC_GETTERS = ("k", "n", "D", "S", "G", "L", "F")     # len(), direction(), script(), language(), cluster_level(), flags()


def public(state):
    """what a caller can read of a UnicodeBuffer through its getters (the hook dump has more, e.g. max_len:
    a difference there is a cause, not yet a violation of the property)"""
    d = kv(state)
    return {k: d.get(k) for k in PUBLIC_GETTERS}


def expander_fonts():
    """fonts whose GSUB multiplies one glyph beyond the output length limit (two chained MultipleSubst lookups 1 -> k copies)"""
    import fontbuild, vlib as _v
    d = os.path.join(_v.HARN, "target", "c05fonts")
    os.makedirs(d, exist_ok=True)
    out = []
    for k in (130, 200):
        rec = {"num_glyphs": 3, "cmap": {0x61: 1, 0x62: 2}, "advances": [500, 600, 700],
               "gsub": {"features": [{"tag": "liga", "lookups": [0, 1]}],
                        "lookups": [{"type": 2, "flag": 0, "subtables": [{"coverage": [1], "sequences": [[1] * k]}]},
                                    {"type": 2, "flag": 0, "subtables": [{"coverage": [1], "sequences": [[1] * k]}]}]}}
        data = fontbuild.build(rec)
        p = os.path.join(d, f"expander-{k}.ttf")
        if not os.path.exists(p) or open(p, "rb").read() != data:
            open(p, "wb").write(data)
        out.append(p)
    return out


def recycle_search(ctx, shim, r, n):
    """request shaped through a recycled buffer (after an arbitrary earlier use) vs through a fresh buffer"""
    T, D, canon = unicode_tables(shim)
    scripts = canon_scripts(canon)
    fonts = pick_fonts(r, ctx.budget(4, 12))
    cases = []
    # permanent seed: the D9 scenario through the public api
    cases.append((fonts[0], ["shape -"], ["pushn 61 20000", "flags 0", "level 0"], "shape -"))
    cases.append((fonts[0], ["plan -"], ["pushn 61 20000", "flags 0", "level 0"], "plan -"))
    # histories that leave a LARGE ALLOCATION behind (clear() keeps the Vec capacity) followed by requests that hit the
    # length limit max(64 n, 16384) on an expanding font: capacity must not be state the next shaping can see
    for xf in expander_fonts():
        for big in (20000, 50000):
            for txt in ("61", "61,61", "62,61,62"):
                for fin in ("shape -", "plan -"):
                    cases.append((xf, [f"pushn 62 {big}", "flags 0", "shape -"], [f"push {txt}", "flags 0", "level 0"], fin))
    # the other way round: an earlier use that ENDS UNSUCCESSFUL (the expansion is refused at the length limit, with and
    # without a long text before it), then an ordinary request: a failure must not outlive clear()
    for xf in expander_fonts():
        for early in (["push 61"], ["push 61,62,61"], ["pushn 62 300", "push 61"]):
            for txt in ("62", "62,62,62", "61"):
                for fin in ("shape -", "plan -"):
                    cases.append((xf, early + ["flags 0", r.choice(["shape -", "plan -"])],
                                  [f"push {txt}", f"flags {r.choice([0, 1, 3])}", f"level {r.below(3)}"], fin))
    for _ in range(n):
        f = r.choice(fonts)
        hist = history_ops(r, scripts, r.range(1, 8))
        if r.chance(1, 4):
            hist = hist + [r.choice(["shape -", "plan -"])]          # an empty or non-empty shape right before
        if hist and hist[-1].split()[0] in ("shape", "plan"):
            pass
        req = fill_ops(r, scripts, big=r.chance(1, 25))
        cases.append((f, hist, req, r.choice(["shape ", "plan "]) + r.choice(FEATS)))
    cases = [c + ("random", None) for c in cases]
    # histories that leave EVERY kind of residue (cursor after an in-place GPOS pass, both contexts, properties, level,
    # not-found glyph, flags, allocation) followed by requests that are sensitive to one kind each (tools/props/_life.py)
    rf = _life.residue_font()
    for i in range(ctx.budget(1200, 30000)):
        kind = _life.SENSITIVE[i % len(_life.SENSITIVE)]
        req, fam = _life.sensitive_request(r, kind)
        hist = _life.residue_use(r, fam if r.chance(1, 2) else None)
        if r.chance(1, 3):
            hist = _life.residue_use(r) + ["clear"] + hist
        cases.append((rf, hist, req, r.choice(["shape ", "plan "]) + r.choice(_life.FEATS), kind, None))
    # requests that set their contexts SEVERAL times (longer joining texts, then the effective one: empty, transparent-only,
    # shorter, arbitrary; add() / push_str interleaved), on a recycled or on a brand-new buffer; the reference is a fresh
    # buffer that is only ever given the effective context of each side
    for i in range(ctx.budget(600, 15000)):
        req, eq, fam = _life.recontext_request(r)
        hist = _life.residue_use(r, fam if r.chance(1, 2) else None) if i % 3 else []
        cases.append((rf, hist, req, r.choice(["shape ", "plan "]) + r.choice(_life.FEATS), "recontext", eq))
    # the same on corpus fonts that have GPOS and a dotted circle, with the corpus' own texts: earlier use = the text,
    # request = the text with its first combining mark moved to the front, BEGINNING_OF_TEXT, every cluster level
    cg = _life.corpus_gpos_cases(shim, corpus.load())
    for fs, text in r.shuffle(cg)[:ctx.budget(150, 3000)]:
        m = next(ch for ch in text if _life.is_mark(ch))
        t2 = [ord(m)] + [ord(ch) for ch in text]
        if r.chance(1, 2):
            t2 = t2[:r.range(2, len(t2))]
        hist = ["pre " + _life.hx([ord(ch) for ch in text[-3:]]), "push " + _life.hx([ord(ch) for ch in text]),
                "post " + _life.hx([ord(ch) for ch in text[:3]]), f"flags {r.choice(FLAGS)}", f"level {r.below(3)}",
                r.choice(["shape -", "plan -"])]
        cases.append((fs, hist, ["push " + _life.hx(t2), f"flags {r.choice(_life.FLAGS_BOT)}", f"level {r.below(3)}"],
                      r.choice(["shape -", "plan -"]), "corpus-mark-first", None))
    # residue kind `random`: fonts with AlternateSubst lookups under `rand` (generated + the corpus font); earlier uses draw k
    # alternates (1-3 shapings), the later request has letters the lookup covers: the PRNG position must not be buffer state
    rfonts = _life.rand_fonts(r, ctx.budget(5, 40))
    for i in range(ctx.budget(400, 12000)):
        f, cov, unc = rfonts[i % len(rfonts)]
        hist = _life.rand_use(r, cov, unc)
        if r.chance(1, 5):
            hist = _life.residue_use(r, "latin") + ["clear"] + hist
        fin = r.choice(["shape ", "plan "]) + _life.rand_feats(r)
        cases.append((f, hist, _life.rand_request(r, cov, unc), fin, "random-alternates", None))
    lines = []
    for f, hist, req, fin, kind, eq in cases:
        lines.append(f"lc {f} ; " + " ; ".join((hist + ["clear"] if hist or eq is None else ["new"]) + req + [fin, "dump"]))
        lines.append(f"lc {f} ; " + " ; ".join(["new"] + (eq or req) + [fin, "dump"]))
    outs = vlib.run_lines(shim, lines, timeout=900)
    bad = []
    nontriv = 0
    kinds, badkinds = {}, {}
    for i, (f, hist, req, fin, kind, eq) in enumerate(cases):
        a, b = outs[2 * i], outs[2 * i + 1]
        kinds[kind] = kinds.get(kind, 0) + 1
        nb = len(bad)
        if not a.startswith("ok") or not b.startswith("ok"):
            if a != b or a.startswith(("panic", "abort", "timeout")):
                bad.append((len(lines[2 * i]), i, "crash or reject", a[:300], b[:300]))
                badkinds[kind] = badkinds.get(kind, 0) + 1
            continue
        sa, sb = a[3:].split(" | "), b[3:].split(" | ")
        # compare: the filled buffer right before the shape (content, props) and the shaping result
        fa, fb = public(sa[-3]), public(sb[-3])
        ra, rb = sa[-1], sb[-1]
        if kv(sa[-2]).get("out", "").split("#")[0] not in ("", "0"):
            nontriv += 1
        if fa != fb:
            diff = {k: (fa.get(k), fb.get(k)) for k in set(fa) | set(fb) if fa.get(k) != fb.get(k)}
            bad.append((len(lines[2 * i]), i, f"recycled buffer differs from a fresh one before shaping: {diff}", sa[-3], sb[-3]))
        elif kv(ra).get("dump") != kv(rb).get("dump"):
            bad.append((len(lines[2 * i]), i, "shaping result differs between recycled and fresh buffer", ra[:400], rb[:400]))
        elif ra != rb:
            # same glyphs, but a field of the returned glyph buffer (read through the hook) differs: reported after the
            # cases whose output differs
            da, db = kv(ra), kv(rb)
            diff = sorted(k for k in set(da) | set(db) if da.get(k) != db.get(k))
            bad.append((10 ** 9 + len(lines[2 * i]), i, "same glyphs, but the returned glyph buffer differs between recycled "
                        f"and fresh buffer in the fields {diff} (state line of harness `lc`)", ra[:400], rb[:400]))
        if len(bad) > nb:
            badkinds[kind] = badkinds.get(kind, 0) + 1
    bad.sort()
    # the shortest failing input overall, then the shortest of every other kind of request (at most 4 replays)
    shown, pick = set(), []
    for x in bad:
        k = cases[x[1]][4]
        if not pick or (k not in shown and len(pick) < 4):
            pick.append(x)
            shown.add(k)
    for _, i, what, x, y in pick:
        f, hist, req, fin, kind, eq = cases[i]
        if eq is not None:
            ctx.violation("a buffer whose contexts were set several times is not equivalent to a fresh buffer given only the "
                          f"last context of each side — {what}",
                          {"stage": "search", "stream": "recycle", "kind": kind, "font": f, "history": hist, "request": req,
                           "fresh_request": eq, "final": fin, "recycled": x, "fresh": y})
            continue
        ctx.violation(f"buffer recycled with clear() is not equivalent to a fresh buffer — {what}",
                      {"stage": "search", "stream": "recycle", "kind": kind, "font": f, "history": hist, "request": req,
                       "final": fin, "recycled": x, "fresh": y})
    ctx.note_search("recycle", len(cases), nontriv, deviations=len(bad), kinds=kinds, deviations_per_kind=badkinds,
                    rule="public api only: <earlier use> ; clear ; <request> ; shape  vs  new ; <request> ; shape — the filled "
                         "buffer as its public getters show it (len, direction, script, language, cluster_level, flags) and the "
                         "output must be identical; non-trivial = at least one output glyph.  Earlier uses: random histories "
                         "incl. shapes of empty / non-empty buffers (kind random); uses that leave every kind of residue on a "
                         "generated multi-script font with GDEF / GSUB / GPOS — cursor after an in-place GPOS pass, pre- and "
                         "post-context, direction / script / language, cluster level, not-found glyph, flags, long text — "
                         "followed by a request sensitive to one of them: mark-first text with BEGINNING_OF_TEXT (longer and "
                         "shorter than the earlier output), joining text ending / starting in a dual-joining letter filled by "
                         "push_str without a context call, an unsupported variation selector, no property call at all; and "
                         "corpus fonts with GPOS and U+25CC on the corpus' texts (mark moved to the front), all cluster levels; kind "
                         "recontext: joining text whose pre- and post-context are set SEVERAL times before shaping (1-2 longer texts of "
                         "dual-joining letters, then the effective one: empty, transparent-only, mark+base, one letter, arbitrary; "
                         "set_pre_context / set_post_context / add / push_str in six interleavings), on a recycled (2/3) or brand-new "
                         "(1/3) buffer, vs a fresh buffer that only ever gets the effective context of each side; kind "
                         "random-alternates: generated fonts (and the corpus font) with AlternateSubst sets of 2-5 glyphs under "
                         "`rand` (one or two lookups, also under salt, GPOS kern over the alternates), earlier uses = 1-3 shapings "
                         "that draw k random alternates each, request = letters the lookup covers with rand at its default / set "
                         "explicitly / ranged / off")


def repeat_search(ctx, shim, r, ncases):
    """repeat (same line twice, different processes), recycle 3x (rep=3), shape vs shape_with_plan (mode=plan)"""
    cases = r.shuffle(corpus.load())[:ncases]
    groups, meta = [], []
    for fid, reg, cs in corpus.font_groups(cases):
        reqs = []
        for c in cs:
            base = c.shape_line(fid)
            variants = [base, base + " rep=3", base + " mode=plan", base + " mode=plan rep=2", base]
            # same request after unrelated traffic on the same face/process: other direction, level, flags
            noise = c.shape_line(fid, dir=r.choice(["l", "r", "t", "b"]), level=r.below(3), flags=r.choice(FLAGS))
            variants.insert(4, noise)
            reqs.append(variants)
        groups.append([reg] + [v for vs in reqs for v in vs])
        meta.append(reqs)
    outs = vlib.run_groups(shim, groups, timeout=900)
    total = nontriv = 0
    for reqs, o, g in zip(meta, outs, groups):
        k = 1
        for vs in reqs:
            res = o[k:k + len(vs)]
            k += len(vs)
            ref = res[0]
            total += 4
            if ref.startswith("ok") and len(ref.split()) > 2:
                nontriv += 4
            for name, j in (("rep=3", 1), ("mode=plan", 2), ("mode=plan rep=2", 3), ("repeat", 5)):
                if res[j] != ref:
                    ctx.violation(f"same request gives a different result ({name})",
                                  {"stage": "search", "stream": "repeat", "font_line": g[0], "request": vs[0], "variant": vs[j],
                                   "reference": ref[:600], "observed": res[j][:600]})
    ctx.note_search("repeat", total, nontriv,
                    rule="corpus (font,text,options): fresh vs recycled 3x (GlyphBuffer::clear), shape() vs shape_with_plan with "
                         "the plan of the guessed properties, plan+recycle, and the same request again after an unrelated "
                         "request; non-trivial = output has glyphs")


def tag4(n):
    return n.to_bytes(4, "big").decode("latin1")


def guessed_props(shim, cases):
    """direction / script the crate guesses for each corpus text (public api)"""
    lines = ["lc - ; push " + ",".join(f"{ord(c):x}" for c in c.text) + " ; guess" for c in cases]
    outs = vlib.run_lines(shim, lines)
    props = []
    for o in outs:
        try:
            d = kv(o.split(" | ")[-1])
            props.append((int(d["D"]), None if d["S"] == "-" else tag4(int(d["S"]))))
        except Exception:
            props.append((None, None))
    return props


def plan_texts_search(ctx, shim, r, ncases):
    """one ShapePlan x many texts on one recycled buffer vs every text on its own"""
    cases = [c for c in r.shuffle(corpus.load())[:ncases] if not c.extra and not c.lang and not c.script and not c.dir]
    props = guessed_props(shim, cases)
    by = {}
    for c, (d, s) in zip(cases, props):
        if d and s and all(ch.isprintable() or True for ch in c.text):
            by.setdefault((c.font, c.index, d, s), []).append(c)
    # fonts whose `rand` lookups draw alternates: one plan, many texts of covered letters, one recycled buffer
    class _T:
        def __init__(self, text): self.text = text
    for gi, (f, cov, unc) in enumerate(_life.rand_fonts(r, ctx.budget(3, 20))):
        by[(f, 0, 1, "Latn")] = [_T("".join(chr(c) for c in _life.rand_text(r, cov, unc, 1, 12))) for _ in range(r.range(4, 10))]
    lines, meta = [], []
    for (font, idx, d, s), cs in sorted(by.items()):
        cs = cs[:12]
        fl = r.choice([0, 3])
        lv = r.below(3)
        def fill(c):
            return ["push " + ",".join(f"{ord(ch):x}" for ch in c.text), f"dir {d}", f"script {s}", f"flags {fl}", f"level {lv}"]
        ops = fill(cs[0]) + ["mkplan -", "useplan", "dump"]
        for c in cs[1:]:
            ops += ["clear"] + fill(c) + ["useplan", "dump"]
        lines.append(f"lc {font}@{idx} ; " + " ; ".join(ops))
        singles = []
        for c in cs:
            singles.append(len(lines))
            lines.append(f"lc {font}@{idx} ; " + " ; ".join(fill(c) + ["plan -", "dump"]))
        meta.append((len(lines) - len(cs) - 1, singles, cs, font))
    outs = vlib.run_lines(shim, lines, timeout=900)
    total = nontriv = 0
    for li, singles, cs, font in meta:
        o = outs[li]
        dumps = [kv(s).get("dump") for s in o.split(" | ") if " dump=" in s]
        for j, (si, c) in enumerate(zip(singles, cs)):
            one = [kv(s).get("dump") for s in outs[si].split(" | ") if " dump=" in s]
            total += 1
            got = dumps[j] if j < len(dumps) else None
            exp = one[0] if one else None
            if exp and exp != "ok_0": nontriv += 1
            if got != exp or got is None:
                ctx.violation("one ShapePlan reused for many texts gives a different result than a plan per text",
                              {"stage": "search", "stream": "plan-texts", "font": font, "request": lines[li][:3000],
                               "text_index": j, "single": lines[si], "expected": str(exp)[:500], "observed": str(got)[:500]})
                break
    ctx.note_search("plan-texts", total, nontriv,
                    rule="corpus texts grouped by (font, guessed direction, guessed script): ShapePlan built once, then every text "
                         "through the same plan and the same recycled buffer, compared with shaping each text alone; plus generated "
                         "fonts / the corpus font with AlternateSubst under `rand` x 4-10 texts of covered letters; "
                         "non-trivial = output has glyphs")


def rle(text):
    return ",".join(f"{ord(c):x}" for c in text) or "-"


def threads_search(ctx, shim, r, nfonts, threads, iters):
    """8-16 threads sharing &Face / &ShapePlan, barrier start, compared bit for bit with the sequential run"""
    cases = [c for c in corpus.load() if not c.extra and not c.script and not c.dir]
    props = guessed_props(shim, cases)
    by = {}
    for c, (d, s) in zip(cases, props):
        if d and s:
            by.setdefault((c.font, c.index, d, s), []).append(c)
    keys = sorted(by, key=lambda k: -len(by[k]))
    keys = keys[:nfonts // 2] + r.sample(keys[nfonts // 2:], nfonts - nfonts // 2)
    groups = []
    for gi, (font, idx, d, s) in enumerate(keys):
        cs = by[(font, idx, d, s)][:24]
        texts = [rle(c.text) for c in cs] + [rle(cs[0].text * 40), "-"]
        lang = "-"
        g = [f"fontfile M{gi} {font} {idx}"]
        for mode in ("plan", "shape"):
            th = r.choice(threads)
            g.append(f"shapemt M{gi} {th} {iters} {mode} {d} {s} {lang} {r.choice([0, 3, 0x40])} {r.below(3)} "
                     f"{r.choice(FEATS[:4])} " + " ".join(texts))
        groups.append(g)
    for f, cov, unc in _life.rand_fonts(r, max(nfonts // 3, 2)):
        gi = len(groups)
        texts = [rle("".join(chr(c) for c in _life.rand_text(r, cov, unc, 1, 14))) for _ in range(r.range(3, 8))]
        g = [f"fontfile M{gi} {f} 0"]
        for mode in ("plan", "shape"):
            g.append(f"shapemt M{gi} {r.choice(threads)} {iters} {mode} 1 Latn - {r.choice([0, 3])} {r.below(3)} - " + " ".join(texts))
        groups.append(g)
    outs = vlib.run_groups(shim, groups, timeout=900, nproc=4)
    shapes = nontriv = 0
    for g, o in zip(groups, outs):
        for ln, rep in zip(g[1:], o[1:]):
            d = kv(rep)
            if not rep.startswith("ok") or int(d.get("mismatches", 1)) or int(d.get("panicked", 1)):
                ctx.violation("concurrent shaping (shared Face/ShapePlan) differs from the sequential run or crashed",
                              {"stage": "search", "stream": "threads", "font_line": g[0], "request": ln[:3000], "observed": rep})
            else:
                shapes += int(d["shapes"])
                if int(d["nonempty"]):
                    nontriv += int(d["shapes"])
    ctx.note_search("threads", shapes, nontriv, threads=threads, iters=iters,
                    rule="shapemt: per (font, direction, script) up to 26 texts; reference = sequential shape on fresh buffers; then "
                         "N threads (barrier start) sharing &Face (and one &ShapePlan in plan mode), each with its own recycled "
                         "buffer and a rotated text order; every thread result compared bit for bit; counted = thread shapings; "
                         "fonts: corpus + generated fonts with AlternateSubst under `rand` (texts of covered letters)")


def run(ctx):
    ctx.assumptions += [
        "the pipeline between enter() and leave() is an arbitrary function in the model; that it never writes buffer.flags / "
        "max_len and only decrements max_ops is a premise checked by the site inventory (tools/inventory.py) and exercised by "
        "the public-api search streams",
        "C05_schedule_independent is the frame argument in an abstract interleaving semantics; its premise (no hidden shared "
        "mutable state) is tied to the crate by inventory/sites.json (regenerated scan for statics, Cell/RefCell, atomics, "
        "thread_local, lazy statics, unsafe) and by the shapemt stream; real memory models / allocators are outside the model",
    ]
    ctx.regen()
    ctx.prove(MODULE)
    shim = vlib.build_harness()
    import inventory
    inventory.check(ctx)
    r = ctx.rng("lifecycle")
    ctx.correspond("lifecycle", lines=lifecycle_lines(r, shim, ctx.budget(3000, 100000)), classify=classify, canon=strip_out)
    _, _, canon = unicode_tables(shim)
    ctx.correspond("clear-probe", lines=clear_probe_lines(ctx.rng("clearprobe"), ctx.budget(3000, 60000),
                                                          [str(canon[s_]) for s_ in canon_scripts(canon)]))
    F = pick_fonts(ctx.rng("rand"), 0)[0]
    rr = ctx.rng("rand2")
    rand_lines = [f"lcrand {F} {n}" for n in (0, 1, 5, 64, 1000)]
    # the sequence ACROSS shape() calls on one recycled buffer: fonts whose `rand` lookups draw alternates (generated + corpus),
    # 1-4 earlier shapings of covered letters (shape / shape_with_plan), then the PRNG of the next apply context on that buffer
    for f, cov, unc in _life.rand_fonts(rr, ctx.budget(4, 30)):
        for _ in range(ctx.budget(12, 200)):
            texts = [("p:" if rr.chance(1, 3) else "") + _life.hx(_life.rand_text(rr, cov, unc, 1, 12)) for _ in range(rr.range(1, 4))]
            rand_lines.append(f"lcrand {f} {rr.choice([0, 1, 3, 16])} " + " ".join(texts))
    ctx.correspond("rand", lines=rand_lines,
                   classify=lambda ln, out: ["earlier-shapes:" + str(len(ln.split()) - 3), "n:" + ln.split()[2]])
    recycle_search(ctx, shim, ctx.rng("recycle"), ctx.budget(1500, 40000))
    repeat_search(ctx, shim, ctx.rng("repeat"), ctx.budget(200, 2128))
    plan_texts_search(ctx, shim, ctx.rng("plantexts"), ctx.budget(400, 2128))
    threads_search(ctx, shim, ctx.rng("threads"), ctx.budget(6, 40), [8, 12, 16], ctx.budget(2, 6))


def replay(ctx, rp):
    shim = vlib.build_harness()
    st = rp.get("stream")
    if st == "recycle":
        f = rp["font"]
        eq = rp.get("fresh_request")
        a = f"lc {f} ; " + " ; ".join((rp["history"] + ["clear"] if rp["history"] or eq is None else ["new"]) + rp["request"] + [rp["final"], "dump"])
        b = f"lc {f} ; " + " ; ".join(["new"] + (eq or rp["request"]) + [rp["final"], "dump"])
        oa, ob = vlib.run_lines(shim, [a, b], nproc=1)
        sa, sb = oa.split(" | "), ob.split(" | ")
        print("recycled request:", a[:2000]); print("fresh request   :", b[:2000])
        print("recycled, filled:", sa[-3][:600]); print("fresh, filled   :", sb[-3][:600])
        print("recycled, shaped:", sa[-1][:600]); print("fresh, shaped   :", sb[-1][:600])
        fa, fb = public(sa[-3]), public(sb[-3])
        print("public getters  : recycled", fa, "fresh", fb)
        return 0 if (fa == fb and sa[-1] == sb[-1]) else 1
    if st == "repeat":
        o = vlib.run_groups(shim, [[rp["font_line"], rp["request"], rp["variant"]]], nproc=1)[0]
        print("reference:", o[1][:1500]); print("variant  :", o[2][:1500])
        return 0 if o[1] == o[2] else 1
    if st == "threads":
        o = vlib.run_groups(shim, [[rp["font_line"], rp["request"]]], nproc=1)[0]
        print(o[1])
        d = kv(o[1])
        return 0 if o[1].startswith("ok") and d.get("mismatches") == "0" and d.get("panicked") == "0" else 1
    if st == "plan-texts":
        o = vlib.run_lines(shim, [rp["request"], rp["single"]], nproc=1)
        d1 = [kv(s).get("dump") for s in o[0].split(" | ") if " dump=" in s]
        d2 = [kv(s).get("dump") for s in o[1].split(" | ") if " dump=" in s]
        j = rp["text_index"]
        print("shared plan:", (d1[j] if j < len(d1) else None)); print("own plan   :", d2[0] if d2 else None)
        return 0 if j < len(d1) and d2 and d1[j] == d2[0] else 1
    if "request" in rp:
        model = vlib.build_model()
        a = vlib.run_lines(shim, [rp["request"]], nproc=1)[0]
        b = vlib.run_lines(model, [rp["request"]], nproc=1)[0]
        print("impl :", a[:3000]); print("model:", b[:3000])
        return 0 if strip_out(a) == b else 1
    print(rp)
    return 1
