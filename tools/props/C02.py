"""C02 — output clusters come from the input and are monotone in the text direction.

Primitive level: `clut` requests (buffer state + primitives, state after every primitive comes back) go to the crate
and to the Lean model (correspondence), and the crate's traces are checked against the statements of Props/C02.lean
(values ⊆, minimum kept, monotone kept, merges never split a cluster).  Shape level: `shape()` through the public API
over the corpus fonts (see shape_search).  C15.py reuses the generators of this file for the relabelled runs."""
import os, re
import vlib, bufgen, corpus

MODULE = "RbModel.Props.C02"
LEVEL = "proof"
U32MAX = 4294967295

# var2 = unicode_props: general category in the low 5 bits (< 30), 0x80 = grapheme continuation;
# the value 1 is also the "delete me" mark of the `delin` hook
VAR2 = [0, 0, 1, 5, 7, 7, 13, 12, 0x8C, 0x8C, 0x87, 0x8A, 21]
SCRIPTS = [("-", 0), ("Latn", 1), ("Arab", 2), ("Hebr", 2), ("Runr", 0), ("Deva", 1)]


def canon(x):
    if x.startswith("panic"):
        if "assertion" in x or "unreachable" in x: return "panic assert"
        if any(k in x for k in ("index out of bounds", "out of range", "slice index", "range end", "range start")):
            return "panic oob"
    return x


# ------------------------------------------------------------------------------------------------
# states


def rand_mask(r):
    """a glyph's mask: glyph flags in the low three bits (glyph_flag::DEFINED), feature bits above; half of the glyphs
    carry random feature bits (what set_masks leaves behind for ranged features), often different from their neighbours'"""
    if r.chance(1, 2):
        return r.choice([0, 0, 8, 24, 0x100, 3])
    return (r.next() & 0xFFFFFFF8 if r.chance(1, 2) else r.choice([8, 0x10, 0x20, 0x40, 0x80, 0x100]) << r.below(20)) | r.choice([0, 0, 0, 1, 2, 3, 4, 7])


def mk_items(r, cl, base=100):
    return [(base + i, rand_mask(r), c, r.choice([0, 0, 1, 2, 3, 230, 220]), r.choice(VAR2))
            for i, c in enumerate(cl)]


def junk(r, k):
    return [(990 + j, r.choice([0, 7]), r.below(9), 0, r.choice([0, 0x80, 1])) for j in range(k)]


def inplace_state(r, mono, level=None, n=None):
    n = r.range(0, 9) if n is None else n
    its = mk_items(r, bufgen.clusters(mono, r, n))
    slack = r.below(3)
    info = its + junk(r, slack)
    return {"L": r.below(3) if level is None else level, "F": r.choice(bufgen.FLAG_SETS), "M": 1000, "h": 0, "s": 0,
            "i": 0, "n": n, "o": 0, "sc": r.choice([0, 1, 1, 1]), "I": info, "U": junk(r, len(info))}


def two_sided_state(r, mono, level=None):
    """an in/out state injected directly: logical sequence O ++ R with the given cluster shape"""
    n = r.range(1, 9)
    its = mk_items(r, bufgen.clusters(mono, r, n))
    k = r.range(0, n)
    O, R = its[:k], its[k:]
    slack = r.below(3)
    sep = r.below(2)
    if sep:
        g = r.below(3)
        info = junk(r, g) + R + junk(r, slack)
        pad = max(0, k - len(info))
        info += junk(r, pad)
        out = O + junk(r, len(info) - k)
        idx = g
    else:
        g = r.below(3)
        info = O + junk(r, g) + R + junk(r, slack)
        out = junk(r, len(info))
        idx = k + g
    return {"L": r.below(3) if level is None else level, "F": r.choice(bufgen.FLAG_SETS),
            "M": 1000 if r.chance(9, 10) else r.range(len(info), len(info) + 2), "h": 1, "s": sep,
            "i": idx, "n": idx + len(R), "o": k, "sc": 0, "I": info, "U": out}


def permute_range(r, st):
    """shuffle the records of a random range of the unconsumed input; returns (s, e) or None"""
    lo, hi = st["i"], st["n"]
    if hi - lo < 2:
        return None
    s = r.range(lo, hi - 2); e = r.range(s + 2, hi)
    seg = r.shuffle(st["I"][s:e])
    st["I"] = st["I"][:s] + seg + st["I"][e:]
    return s, e


# ------------------------------------------------------------------------------------------------
# walks


def walk2(r, st, steps, sync=True):
    """in/out primitives from an injected two-sided state (no leading clear_output)"""
    t = bufgen.Track(st)
    ops = []
    for _ in range(steps):
        rem = t.len - t.idx
        cand = ["outg", "moveto"]
        if rem > 0:
            cand += ["next", "repl", "repls", "repls", "copy", "del", "del", "nexts", "utbo", "utco", "outi"]
        if rem > 1:
            cand += ["merge", "merge", "merge", "utb", "utc", "tatweel"]
        if t.out > 1:
            cand += ["mergeout", "mergeout"]
        k = r.choice(cand)
        if k == "next": ops.append("next"); t.idx += 1; t.out += 1
        elif k == "nexts":
            n = r.range(0, rem); ops.append(f"nexts {n}"); t.idx += n; t.out += n
        elif k == "copy": ops.append("copy"); t.out += 1
        elif k == "repl": ops.append(f"repl {t.gid()}"); t.idx += 1; t.out += 1
        elif k == "repls":
            nin = r.range(1, min(3, rem)); no = r.range(0, 3)
            ops.append(f"repls {nin} " + " ".join(str(t.gid()) for _ in range(no))); t.idx += nin; t.out += no
        elif k == "outg": ops.append(f"outg {t.gid()}"); t.out += 1 if (rem > 0 or t.out > 0) else 0
        elif k == "outi": ops.append(f"outi {t.gid()}:{r.choice([0, 1, 3, 8])}:{r.below(8)}:0:0"); t.out += 1
        elif k == "del": ops.append("del"); t.idx += 1
        elif k == "merge":
            s = r.range(t.idx, t.len - 2); e = r.range(s + 2, t.len) if not r.chance(1, 8) else s + 1
            ops.append(f"merge {s} {e}")
        elif k == "mergeout":
            s = r.range(0, t.out - 2); e = r.range(s + 2, t.out)
            ops.append(f"mergeout {s} {e}")
        elif k == "moveto":
            total = t.out + rem
            i = r.range(0, total)
            ops.append(f"moveto {i}")
            if i > t.out:
                c = i - t.out; t.idx += c; t.out += c
            elif i < t.out:
                c = t.out - i
                if t.idx < c:
                    sft = c - t.idx; t.len += sft; t.idx += sft
                t.idx -= c; t.out -= c
        elif k in ("utb", "utc", "tatweel"):
            s = r.range(t.idx, t.len - 1); e = r.range(s + 1, t.len)
            ops.append(f"{k} {s} {e}")
        elif k in ("utbo", "utco"):
            s = r.range(0, t.out); e = r.range(t.idx, t.len)
            ops.append(f"{k} {s} {e}")
    if sync:
        ops.append("sync")
    return ops


def inplace_walk(r, st, steps):
    n = st["n"]
    ops = []
    for _ in range(steps):
        cand = ["setmasks", "rev", "revg", "revgr", "formcl", "native", "finalrev", "delin"]
        if n > 1:
            cand += ["merge", "merge", "merge", "revr", "sort", "sort", "utb"]
        k = r.choice(cand)
        if k in ("merge", "utb", "revr", "sort"):
            s = r.range(0, n - 2); e = r.range(s + 1, n)
            ops.append(f"{k} {s} {e}")
        elif k == "setmasks":
            m = r.choice([8, 0x10, 0x18, 0x100, 0])
            a = r.below(5)
            ops.append(f"setmasks {r.choice([0, m, 0xFFFF])} {m} {a} {r.choice([a + r.below(6), U32MAX])}")
        elif k == "revg": ops.append(f"revg {r.below(2)}")
        elif k == "native":
            sc, hor = r.choice(SCRIPTS)
            ops.append(f"native {r.below(5)} {sc} {hor}")
        elif k == "finalrev": ops.append(f"finalrev {r.below(5)}")
        elif k == "delin":
            ops.append("delin"); break
        else: ops.append(k)
    return ops


def line(st, ops):
    return f"clut {bufgen.state_str(st)} ; " + " ; ".join(ops)


def prim_lines(r, n):
    """the primitive stream: monotone / permuted / two-sided states at the three levels"""
    lines = []
    for _ in range(n):
        k = r.below(12)
        mono = r.choice(["asc", "asc", "desc", "desc", "rand"])
        if k < 4:      # two-sided, one to four primitives
            st = two_sided_state(r, mono)
            lines.append(line(st, walk2(r, st, r.range(1, 4), sync=r.chance(1, 3))))
        elif k < 6:    # two-sided, a single merge (the D4 shape: merge at / near the in/out boundary)
            st = two_sided_state(r, mono)
            rem = st["n"] - st["i"]
            if rem >= 2:
                s = r.range(st["i"], min(st["i"] + 1, st["n"] - 2)); e = r.range(s + 2, st["n"])
                lines.append(line(st, [f"merge {s} {e}"]))
            elif st["o"] >= 2:
                s = r.range(0, st["o"] - 2); e = r.range(s + 2, st["o"])
                lines.append(line(st, [f"mergeout {s} {e}"]))
            else:
                lines.append(line(st, ["del"] if rem else ["outg 7"]))
        elif k < 8:    # permuted inside a range, then merged over it (move-then-merge sites)
            st = two_sided_state(r, mono) if r.chance(1, 2) else inplace_state(r, mono, n=r.range(2, 9))
            se = permute_range(r, st)
            ops = [f"merge {se[0]} {se[1]}"] if se else ["rev" if not st["h"] else "next"] if st["n"] > st["i"] else ["outg 5"]
            lines.append(line(st, ops))
        elif k < 11:   # in-place mode: merges, sort, reversals, graphemes, deletion
            st = inplace_state(r, mono)
            lines.append(line(st, inplace_walk(r, st, r.range(1, 4))))
        else:          # from a fresh buffer through clear_output … sync
            st = bufgen.fresh_state(r, r.range(0, 7), mono=mono)
            lines.append("clut" + bufgen.walk_line(st, bufgen.gen_out_walk(r, st, r.range(1, 8)))[4:])
    return lines


def classify(ln, out):
    ks = []
    for op in ln.split(" ; ")[1:]:
        ks.append("op:" + op.split()[0])
    m = re.search(r" L=(\d)", " " + ln)
    ks.append("level:" + (m.group(1) if m else "?"))
    ks.append("two-sided" if " h=1 " in ln.split(" ; ")[0] else "in-place")
    ks.append("panic" if out.startswith("panic") else "ok")
    return ks


# ------------------------------------------------------------------------------------------------
# oracles on a trace of the crate


def cl_view(st):
    O, R = bufgen.view(st)
    return [x[2] for x in O + R]


def asc(c): return all(a <= b for a, b in zip(c, c[1:]))
def desc(c): return all(a >= b for a, b in zip(c, c[1:]))


NO_SUBSET = {"clearout", "clear"}
NO_MIN = {"clearout", "clear", "skip", "outi", "add"}
NO_MONO = {"clearout", "clear", "outi", "add", "rev", "revr", "revg", "revgr", "native", "finalrev"}
MERGES = {"merge", "mergeout"}


def grapheme_groups(items):
    g = []
    for x in items:
        if g and x[4] & 0x80:
            g[-1].append(x)
        else:
            g.append([x])
    return g


def check_trace(ln, reply):
    """deviations of one crate trace from the statements of Props/C02.lean (list of dicts, empty = fine)"""
    parts = ln.split(" ; ")
    st0 = bufgen.parse_state(parts[0].split(" ", 1)[1])
    ops = [o.strip() for o in parts[1:]]
    tr = bufgen.parse_trace(reply)
    if tr is None:
        return []          # a panic on an adversarial request: compared by the correspondence stream, not here
    rets, states = tr
    bad = []
    prev = st0
    for k, (op, st) in enumerate(zip(ops, states)):
        name = op.split()[0]
        args = op.split()[1:]
        if prev.get("ok", 1) != 1 or st.get("ok", 1) != 1:
            prev = st; continue
        before, after = cl_view(prev), cl_view(st)
        lvl = prev["L"]
        supplied = set()
        if name == "outi": supplied.add(int(args[0].split(":")[2]))
        if name == "add": supplied.add(int(args[1]))
        dev = lambda kind, **kw: bad.append(dict(kind=kind, step=k, op=op, before=before, after=after, **kw))
        if name not in NO_SUBSET and not set(after) <= set(before) | supplied:
            dev("subset", extra=sorted(set(after) - set(before) - supplied))
        keeps_min = name not in NO_MIN and not (name == "repls" and len(args) == 1)
        if keeps_min and lvl <= 1 and after and before and min(after) != min(before):
            dev("minimum")
        if name not in NO_MONO and lvl <= 1:   # level 2 (Characters) never merges: reordering primitives leave clusters unordered by design
            if asc(before) and not asc(after): dev("monotone-asc")
            if desc(before) and not desc(after): dev("monotone-desc")
        if name in MERGES and lvl <= 1 and (asc(before) or desc(before)) and len(before) == len(after):
            for i in range(len(before) - 1):
                if before[i] == before[i + 1] and after[i] != after[i + 1]:
                    dev("cluster-split", at=i); break
        if name in ("rev", "finalrev", "revg") and not prev["h"]:
            flipped = name != "finalrev" or int(args[0]) in (0, 2, 4)
            if flipped and asc(before) and not desc(after): dev("reverse-asc")
            if flipped and desc(before) and not asc(after): dev("reverse-desc")
        if name == "revgr" and not prev["h"] and lvl <= 1:
            items = prev["I"][:prev["n"]]
            closed = all(len({x[2] for x in g}) == 1 for g in grapheme_groups(items))
            if (closed or lvl == 1) and asc(before) and not desc(after): dev("reverse-graphemes-asc")
            if (closed or lvl == 1) and desc(before) and not asc(after): dev("reverse-graphemes-desc")
        if name == "revgr" and not prev["h"] and lvl != 1:
            # every grapheme keeps its internal order, the groups come out in reverse order
            items = prev["I"][:prev["n"]]
            want = [x for g in reversed(grapheme_groups(items)) for x in g]
            if want != st["I"][:st["n"]]: dev("reverse-graphemes-order")
        prev = st
    return bad


def prim_search(ctx, shim, r, n, stream="cluster-prims"):
    lines = prim_lines(r, n)
    outs = vlib.run_lines(shim, lines)
    bad = []
    kinds = {}
    evals = 0
    for ln, o in zip(lines, outs):
        evals += max(1, len(ln.split(" ; ")) - 1)
        for d in check_trace(ln, o):
            kinds[d["kind"]] = kinds.get(d["kind"], 0) + 1
            bad.append((len(ln), ln, d, o))
    bad.sort(key=lambda x: x[0])
    seen = set()
    for _, ln, d, o in bad:
        if d["kind"] in seen:
            continue
        seen.add(d["kind"])
        ctx.violation(f"buffer primitive breaks the cluster discipline: {d['kind']} at step {d['step']} ({d['op']}): "
                      f"clusters {d['before']} -> {d['after']}",
                      {"stage": "search", "stream": stream, "request": ln, "deviation": d, "observed": o[:3000]})
    ctx.note_search(stream, evals, len(set(lines)), deviations=kinds,
                    rule="primitive walks on injected monotone / permuted / two-sided (in+out) buffer states at the three cluster "
                         "levels; after every primitive of the crate's trace: cluster values ⊆ before ∪ supplied, minimum kept "
                         "(levels 0/1), ascending stays ascending and descending stays descending, a merge on a monotone state "
                         "never separates two glyphs that shared a cluster, reversals flip the order; cases = primitives "
                         "checked, distinct = distinct request lines")
    return kinds


# ------------------------------------------------------------------------------------------------
# shape() level


def parse_shape(reply):
    """`ok n gid:cluster:flags:xa:ya:xo:yo …` -> list of 7-tuples, or None (reject / panic / abort)"""
    if not reply.startswith("ok "):
        return None
    t = reply.split()
    return [tuple(int(x) for x in g.split(":")) for g in t[2:]]


JOINERS = [chr(0x200D), chr(0x200C), " ", chr(0x25CC)]


def mutate_text(r, text, k, alphabet=None):
    t = list(text)
    if k == 7 and alphabet:   # random string over everything the corpus ever shapes with this font, plus joiners / space
        pool = alphabet + JOINERS
        return "".join(r.choice(pool) for _ in range(r.range(2, 8)))
    if k == 0: return text
    if k == 1: return "".join(r.shuffle(t))
    if k == 2: return "".join(t + t[: r.below(len(t) + 1)])              # repeated
    if k == 3:
        a = r.below(len(t)); return "".join(t[a:a + r.range(1, 8)]) or text   # sliced
    if k == 4: return "".join(r.choice(t) for _ in range(r.range(1, 10)))   # resampled
    if k == 5:   # text whose direction stays backward when shaped rtl: script-neutral and natively right-to-left characters
        pool = t + list(" .-12") + [chr(x) for x in (0x5D0, 0x5D1, 0x5E9, 0x627, 0x628, 0x644, 0x645)]
        return "".join(r.choice(pool) for _ in range(r.range(2, 8)))
    if k == 6:   # neutral characters only (no script: the requested direction is kept as it is)
        return "".join(r.choice(t + list(" .-")) if r.chance(1, 4) else r.choice(" .-,:") for _ in range(r.range(2, 6)))
    return "".join(reversed(t))


def input_clusters(r, n, kind):
    """non-decreasing input numbering: 0..n-1, with gaps, with repeats, byte-offset style"""
    if kind == 0: return list(range(n))
    c, out = r.below(4), []
    for _ in range(n):
        out.append(c)
        if kind == 1: c += r.range(1, 4)
        elif kind == 2: c += r.below(2)
        else: c += r.choice([0, 1, 1, 2, 3, 4])
    return out


KERN_OFF = ("kern", 0, 0, U32MAX)
DIRS = [None, "l", "r", "t", "b"]
FLAGS = [0, 0, 3, 8, 4, 0x10, 0x40, 0x43]


def shape_requests(r, ncases, ntexts, full_grid):
    """[(font registration line, [(request line, meta)])]; meta = (case name, input clusters, dir, level, kern_off)"""
    cases = r.shuffle(corpus.load())[:ncases]
    groups = []
    for fid, reg, cs in corpus.font_groups(cases):
        reqs = []
        alphabet = sorted(set("".join(c.text for c in cs)))
        for c in cs:
            for ti in range(ntexts):
                text = mutate_text(r, c.text, 0 if ti == 0 else r.range(1, 8), alphabet)[:48]
                if not text:
                    continue
                cl = input_clusters(r, len(text), 0 if ti == 0 else r.below(4))
                flags = c.flags if ti == 0 else r.choice(FLAGS)
                grid = [(d, lv, ko) for d in DIRS for lv in (0, 1, 2) for ko in (False, True)]
                if not full_grid:
                    grid = r.sample(grid, 10) + [("r", 0, True), ("b", 1, True)]
                for d, lv, ko in grid:
                    ln = c.shape_line(fid, text=text, clusters=cl, dir=d or (c.dir if ti == 0 else None), level=lv,
                                      flags=flags, feats=[KERN_OFF] if ko else [])
                    reqs.append((ln, (c.name, cl, d or (c.dir if ti == 0 else None), lv, ko)))
        groups.append((reg, reqs))
    return groups


def block_pool(alphabet):
    """every assigned character of the 128-blocks the corpus texts of a font touch (non-ASCII blocks), plus joiners"""
    import unicodedata
    blocks = sorted({ord(ch) & ~0x7F for ch in alphabet if ord(ch) >= 0x300 and ord(ch) < 0x20000})
    pool = []
    for b in blocks[:6]:
        pool += [chr(cp) for cp in range(b, b + 0x80) if unicodedata.category(chr(cp)) not in ("Cn", "Cs", "Co")]
    return pool


def script_requests(r, per_font, only_fonts=None):
    """random short strings over the Unicode blocks of each corpus font's texts (the reordering shapers' repertoire,
    ill-formed sequences included), x directions x levels 0/1"""
    groups = []
    for fid, reg, cs in corpus.font_groups(corpus.load()):
        if only_fonts and not any(x in reg for x in only_fonts):
            continue
        alphabet = sorted(set("".join(c.text for c in cs)))
        pool = block_pool(alphabet)
        if not pool:
            continue
        marks = [ch for ch in pool if __import__("unicodedata").category(ch) in ("Mn", "Mc", "Cf")] or pool
        c = cs[0]
        reqs = []
        for _ in range(per_font):
            n = r.range(2, 8)
            text = "".join(r.choice(JOINERS) if r.chance(1, 5) else (r.choice(marks) if r.chance(1, 3) else r.choice(pool))
                           for _ in range(n))
            cl = input_clusters(r, n, r.choice([0, 0, 1, 3]))
            d = r.choice(DIRS)
            lv = r.below(2)
            flags = r.choice([0, 0, 3, 0x43, 0x10])
            ko = r.chance(1, 4)
            ln = c.shape_line(fid, text=text, clusters=cl, dir=d, level=lv, flags=flags, feats=[KERN_OFF] if ko else [])
            reqs.append((ln, (c.name, cl, d, lv, ko)))
        groups.append((reg, reqs))
    return groups


def _opts(r, n, native_only=False):
    cl = input_clusters(r, n, r.choice([0, 0, 1, 1, 3]))
    d = None if native_only else r.choice(DIRS)
    return cl, d


def markrun_requests(r, per_font, ncorpus, scripts=None):
    """base + 2..6 combining marks of the script (see scriptgen.mark_run_text), distinct or gapped input clusters, all
    directions, levels 0/1 (every 8th request level 2), on the synthetic and corpus fonts of every script"""
    import scriptgen
    groups = []
    for name in scripts or sorted(scriptgen.C08.SCRIPTS):
        ro = scriptgen.roles(name)
        for fid, reg, c, _ in scriptgen.fonts_for(name, r, ncorpus):
            reqs = []
            for _ in range(per_font):
                text = "".join(map(chr, scriptgen.mark_run_text(r, ro)))
                cl, d = _opts(r, len(text))
                lv = 2 if r.chance(1, 8) else r.below(2)
                flags = r.choice([0, 0, 4, 3, 0x10, 0x14])
                ko = r.chance(1, 6)
                ln = c.shape_line(fid, text=text, clusters=cl, dir=d, level=lv, flags=flags, feats=[KERN_OFF] if ko else [])
                reqs.append((ln, (c.name, cl, d, lv, ko)))
            groups.append((reg, reqs))
    return groups


def special_requests(r, exh_len, grid, per_font, ncorpus, scripts=None):
    """role sequences (scriptgen.special_symbols): every order up to `exh_len` symbols x `grid` of (level, flags) in the
    guessed (native) direction with consecutive clusters, then `per_font` random longer ones with random options"""
    import scriptgen
    groups = []
    for name in scripts or sorted(scriptgen.C08.SCRIPTS):
        ro = scriptgen.roles(name)
        for fid, reg, c, _ in scriptgen.fonts_for(name, r, ncorpus):
            sym = scriptgen.special_symbols(r, ro)
            reqs = []
            for seq in scriptgen.all_orders([cp for _, cp in sym], exh_len):
                text = "".join(map(chr, seq))
                cl = list(range(len(text)))
                for lv, flags in grid:
                    reqs.append((c.shape_line(fid, text=text, clusters=cl, dir=None, level=lv, flags=flags, feats=[]),
                                 (c.name, cl, None, lv, False)))
            for _ in range(per_font):
                text = "".join(map(chr, scriptgen.special_random_text(r, ro, sym)))
                cl, d = _opts(r, len(text))
                lv = r.below(2)
                flags = r.choice([4, 4, 0, 0, 0x14, 7])
                reqs.append((c.shape_line(fid, text=text, clusters=cl, dir=d, level=lv, flags=flags, feats=[]),
                             (c.name, cl, d, lv, False)))
            groups.append((reg, reqs))
    return groups


def check_shape(meta, glyphs):
    """C02 oracles on one shaping; returns a list of (kind, detail)"""
    name, cl_in, d, lv, ko = meta
    out = [g[1] for g in glyphs]
    bad = []
    if not set(out) <= set(cl_in):
        bad.append(("subset", sorted(set(out) - set(cl_in))))
    if lv <= 1 and out and min(cl_in) not in out:
        bad.append(("minimum", min(cl_in)))
    if lv <= 1:
        if d in ("l", "t") and not asc(out): bad.append(("monotone", "not non-decreasing"))
        elif d in ("r", "b") and not desc(out): bad.append(("monotone", "not non-increasing"))
        elif d is None and not (asc(out) or desc(out)): bad.append(("monotone", "neither"))
    return bad


def shape_search(ctx, shim, r, ncases, ntexts, full_grid):
    groups = shape_requests(r, ncases, ntexts, full_grid)
    return run_shape_groups(ctx, shim, groups, "shape-clusters",
                            "corpus (font, text, options) of tests/shaping plus shuffled / repeated / sliced / resampled / rtl-neutral "
                            "texts and random strings over the font's corpus alphabet, with non-decreasing input clusters (consecutive, "
                            "gapped, repeated), x {guessed, ltr, rtl, ttb, btt} x levels 0/1/2 x kerning on / kern=0 x buffer flags")


def script_search(ctx, shim, r, per_font):
    groups = script_requests(r, per_font)
    return run_shape_groups(ctx, shim, groups, "shape-script-random",
                            "every corpus font whose texts leave ASCII: random strings of 2-8 characters over the Unicode blocks of its "
                            "corpus texts (marks and joiners over-represented, ill-formed syllables included), random direction / "
                            "level 0 or 1 / flags / kern=0")


def markrun_search(ctx, shim, r, per_font, ncorpus):
    return run_shape_groups(ctx, shim, markrun_requests(r, per_font, ncorpus), "shape-mark-runs",
                            "per script (28 scripts of C08.SCRIPTS): 1-3 runs of base + 2-6 combining marks drawn from the script's own "
                            "marks, the mark code points written in its shaper's source over-represented (e.g. the Arabic modifier "
                            "combining marks), a small working set per text so that several marks of one class meet, now and then a "
                            "generic mark / CGJ / joiner; synthetic fonts whose GSUB names the script tag (old spec, new spec, USE; with "
                            "and without U+25CC) plus corpus fonts of the script; distinct / gapped / partly repeated input clusters, "
                            "5 directions, levels 0/1 (1 in 8: level 2), flags")


def special_search(ctx, shim, r, exh_len, grid, per_font, ncorpus):
    return run_shape_groups(ctx, shim, special_requests(r, exh_len, grid, per_font, ncorpus), "shape-special-seq",
                            f"per script: EVERY order of up to {exh_len} symbols over the script's roles (RA, virama(s), ZWJ, ZWNJ, nukta, "
                            f"two consonants, a matra; roles from the Unicode names / combining classes) at (level, flags) in {grid}, "
                            "guessed direction, consecutive clusters (flag 4 = PRESERVE_DEFAULT_IGNORABLES and fonts with a space glyph, "
                            "so that joiners survive); then random sequences of 4-7 characters over the roles, other consonants / matras "
                            "of the script and the code points written in the shaper's source, random direction / level 0,1 / flags / "
                            "input clusters; same fonts as shape-mark-runs")


def shaper_class(q):
    """which family of shapers the text of a shape request goes to (by the blocks of its characters)"""
    cps = [int(t.split(":")[0], 16) for t in q.split()[10].split(",") if t and t != "-"]
    if any(0x0900 <= c <= 0x0D7F for c in cps): return "indic-shaper"
    if any(0x1780 <= c <= 0x17FF or 0x1000 <= c <= 0x109F or 0xA9E0 <= c <= 0xA9FF or 0xAA60 <= c <= 0xAA7F for c in cps): return "khmer-myanmar-shaper"
    if any(0x0590 <= c <= 0x08FF or 0x1800 <= c <= 0x18AF for c in cps): return "joining-hebrew-shaper"
    if any(0x0E00 <= c <= 0x0EFF for c in cps): return "thai-shaper"
    if any(0x1100 <= c <= 0x11FF or 0xAC00 <= c <= 0xD7FF for c in cps): return "hangul-shaper"
    if any(c >= 0x0D80 and not (0x2000 <= c <= 0x2BFF) and not (0xE000 <= c <= 0xF8FF) for c in cps): return "use-or-default-shaper"
    return "default-shaper"


INDIC_BLOCKS = {0x0900: "devanagari", 0x0980: "bengali", 0x0A00: "gurmukhi", 0x0A80: "gujarati", 0x0B00: "oriya",
                0x0B80: "tamil", 0x0C00: "telugu", 0x0C80: "kannada", 0x0D00: "malayalam"}


_prebase = {}


def prebase_matras(shim, name):
    """the characters of an Indic script that its shaper places BEFORE the consonant they follow (left matras and the left
    parts of two-part vowels), found by probing the crate: <KA, x> is shaped at level 2 (no cluster merging) on a synthetic
    font of the script; x is pre-base iff the first glyph that comes out carries x's cluster"""
    if name in _prebase:
        return _prebase[name]
    import scriptgen
    ro = scriptgen.roles(name)
    rec, cmap = scriptgen.synth_font(name, scriptgen.OT_TAGS[name][0], dotted=True)
    ka = scriptgen.special_symbols(vlib.Rng(0, "probe"), ro)
    ka = dict(ka).get("C1", ro["cons"][0])
    lines = [f"font PB {scriptgen.fontbuild.hexfont(rec)}"]
    for m in ro["marks"]:
        lines.append(f"shape PB l - - 0 2 - - - {ka:x}:0,{m:x}:1")
    o = vlib.run_groups(shim, [lines], nproc=1)[0]
    res = set()
    for m, rep in zip(ro["marks"], o[1:]):
        gl = parse_shape(rep)
        if gl and gl[0][1] == 1:
            res.add(m)
    _prebase[name] = res
    return res


def request_class(shim, q):
    """shaper_class, with the Indic blocks split into the class of the known finding F13 and the rest.
    F13 (class 'indic-shaper') is the Indic shaper's handling of pre-base (left) matras: initial reordering sorts them to
    the front of the syllable and leaves the clusters before the base to final reordering, which merges only from the
    matra's final position to the base.  Its class is 'Indic text that contains a pre-base matra (or a two-part vowel
    with a left part)', decided by probing the crate (prebase_matras).  Indic text without such a character is
    'indic-shaper:no-prebase-matra' and is NOT covered by the known finding."""
    c = shaper_class(q)
    if c != "indic-shaper":
        return c
    cps = [int(x.split(":")[0], 16) for x in q.split()[10].split(",")]
    for cp in cps:
        name = INDIC_BLOCKS.get(cp & ~0x7F)
        if name and cp in prebase_matras(shim, name):
            return "indic-shaper"
    return "indic-shaper:no-prebase-matra"


def _font_name(reg):
    t = reg.split()
    return t[2] if t[0] == "fontfile" else "synthetic:" + t[1]


def run_shape_groups(ctx, shim, groups, stream, what):
    lines = [[reg] + [q for q, _ in reqs] for reg, reqs in groups]
    outs = vlib.run_groups(shim, lines, timeout=1200)
    total = nontriv = crashed = 0
    dist = {"dir": {}, "level": {}, "kern_off": 0, "backward+kern_off": 0, "multi-glyph": 0}
    found = {}
    for (reg, reqs), o in zip(groups, outs):
        for (q, meta), rep in zip(reqs, o[1:]):
            total += 1
            gl = parse_shape(rep)
            if gl is None:
                if rep not in ("reject", "bad-op"): crashed += 1   # bad-op: a corpus feature string the crate's parser refuses
                continue
            if len(gl) > 1: dist["multi-glyph"] += 1
            if gl: nontriv += 1
            dist["dir"][str(meta[2])] = dist["dir"].get(str(meta[2]), 0) + 1
            dist["level"][meta[3]] = dist["level"].get(meta[3], 0) + 1
            if meta[4]:
                dist["kern_off"] += 1
                if meta[2] in ("r", "b"): dist["backward+kern_off"] += 1
            for kind, detail in check_shape(meta, gl):
                cls = request_class(shim, q)
                key = (kind, "kern=0" if meta[4] else "kern", meta[2] in ("r", "b"), cls) if stream == "shape-clusters" else (kind, f"level {meta[3]}", cls)
                found.setdefault(key, []).append((len(q), reg, q, meta, rep, detail))
    for key, lst in sorted(found.items(), key=lambda kv: str(kv[0])):
        lst.sort(key=lambda x: x[0])
        _, reg, q, meta, rep, detail = lst[0]
        ctx.violation(f"shape(): output clusters violate C02 ({key[0]}, {key[1]}, {(('backward' if key[2] else 'forward/guessed') + ' direction, ' + key[3]) if stream == 'shape-clusters' else stream + ' ' + str(key[2])}; "
                      f"{len(lst)} shapings, {len(set(x[1] for x in lst))} fonts): {detail}; text {q.split()[10]}, input clusters {meta[1]}, "
                      f"output clusters {[g[1] for g in parse_shape(rep)]}",
                      {"stage": "search", "stream": stream, "font_line": reg, "request": q, "case": meta[0],
                       "input_clusters": meta[1], "dir": meta[2], "level": meta[3], "kern_off": meta[4], "kind": key[0],
                       "class": key[-1],
                       "observed": rep[:3000], "fonts": sorted(set(_font_name(x[1]) for x in lst))[:40], "count": len(lst),
                       "more_examples": [{"font": _font_name(x[1]), "request": x[2], "reply": x[4][:600]} for x in lst[1:6]]})
    ctx.note_search(stream, total, nontriv, crashed_or_aborted=crashed, distribution=dist,
                    violations_by_kind={str(k): len(v) for k, v in found.items()},
                    rule=what + "; oracles: output cluster values ⊆ input values; the smallest input value is "
                         "present (levels 0/1, non-empty output); non-decreasing for ltr/ttb, non-increasing for rtl/btt, either for a "
                         "guessed direction (levels 0/1); non-trivial = at least one glyph came out")
    return found


# ------------------------------------------------------------------------------------------------
# synthetic kern / kerx fonts (the corpus has no font with a `kerx` table)

import struct


def _pairs(fmt_u32):
    prs = sorted([(1, 2, -60), (2, 3, -40), (3, 1, 30), (7, 1, -25), (8, 9, -70), (10, 11, -55), (1, 7, 15)])
    n = len(prs)
    es = n.bit_length() - 1
    sr = (1 << es) * 6
    hdr = struct.pack(">IIII" if fmt_u32 else ">HHHH", n, sr, es, n * 6 - sr)
    return hdr + b"".join(struct.pack(">HHh", a, b, v) for a, b, v in prs)


def mini_font(kind, nsub):
    """head/hhea/maxp/hmtx/cmap + a `kern` (version 0) or `kerx` (version 2) table of `nsub` format-0 subtables.
    glyphs: 1..6 = U+05D0.., 7 = space, 8/9 = '1' '2', 10/11 = 'a' 'b', 12 = '.'"""
    ng = 13
    cmap_map = [(0x20, 0x20, 7), (0x2E, 0x2E, 12), (0x31, 0x32, 8), (0x61, 0x62, 10), (0x5D0, 0x5D5, 1)]
    sub = struct.pack(">HHIII", 12, 0, 16 + 12 * len(cmap_map), 0, len(cmap_map)) + b"".join(struct.pack(">III", *g) for g in cmap_map)
    cmap = struct.pack(">HHHHI", 0, 1, 3, 10, 12) + sub
    head = struct.pack(">IIIIHHQQhhhhHHhhh", 0x00010000, 0x00010000, 0, 0x5F0F3CF5, 0, 1000, 0, 0, 0, 0, 1000, 1000, 0, 8, 2, 0, 0)
    hhea = struct.pack(">IhhhHhhhhhhhhhhhH", 0x00010000, 800, -200, 0, 700, 0, 0, 700, 1, 0, 0, 0, 0, 0, 0, 0, ng)
    maxp = struct.pack(">IH", 0x00005000, ng)
    hmtx = b"".join(struct.pack(">Hh", 500 + 10 * g, 0) for g in range(ng))
    if kind == "kern":
        body = _pairs(False)
        kt = struct.pack(">HH", 0, nsub) + b"".join(struct.pack(">HHH", 0, 6 + len(body), 0x0001) + body for _ in range(nsub))
    else:
        body = _pairs(True)
        kt = struct.pack(">HHI", 2, 0, nsub) + b"".join(struct.pack(">III", 12 + len(body), 0, 0) + body for _ in range(nsub))
    tables = {b"cmap": cmap, b"head": head, b"hhea": hhea, b"hmtx": hmtx, b"maxp": maxp, kind.encode(): kt}
    tags = sorted(tables)
    off = 12 + 16 * len(tags)
    dirs, data = b"", b""
    for t in tags:
        d = tables[t] + b"\0" * (-len(tables[t]) % 4)
        dirs += t + struct.pack(">III", 0, off + len(data), len(tables[t]))
        data += d
    es = len(tags).bit_length() - 1
    return struct.pack(">IHHHH", 0x00010000, len(tags), (1 << es) * 16, es, len(tags) * 16 - (1 << es) * 16) + dirs + data


class _SynthCase(corpus.Case):
    pass


def synth_search(ctx, shim, r, ntexts):
    pool = [chr(0x5D0 + i) for i in range(6)] * 2 + list(" 12ab.")
    groups = []
    for kind in ("kern", "kerx"):
        for nsub in (1, 2, 3):
            fid = f"S{kind}{nsub}"
            reg = f"font {fid} {mini_font(kind, nsub).hex()}"
            c = _SynthCase()
            c.name = f"synthetic::{kind}x{nsub}"; c.font = fid; c.index = 0; c.text = ""; c.dir = None; c.script = None
            c.lang = None; c.flags = 0; c.level = 0; c.feats = []; c.pre = ""; c.post = ""; c.extra = []; c.opts = ""
            reqs = []
            for _ in range(ntexts):
                text = "".join(r.choice(pool) for _ in range(r.range(2, 6)))
                cl = input_clusters(r, len(text), r.below(4))
                for d in DIRS:
                    for lv in (0, 1, 2):
                        for ko in (False, True):
                            ln = c.shape_line(fid, text=text, clusters=cl, dir=d, level=lv, feats=[KERN_OFF] if ko else [])
                            reqs.append((ln, (c.name, cl, d, lv, ko)))
            groups.append((reg, reqs))
    outs = vlib.run_groups(shim, [[reg] + [q for q, _ in reqs] for reg, reqs in groups], timeout=600)
    total = nontriv = kerned = crashed = 0
    found = {}
    for (reg, reqs), o in zip(groups, outs):
        if o[0] != "ok":
            ctx.violation(f"synthetic {reg.split()[1]} font was not accepted by the crate: {o[0]}",
                          {"stage": "search", "stream": "shape-synth-kern", "font_line": reg[:200]}, found_input=False)
            continue
        adv = {}
        for (q, meta), rep in zip(reqs, o[1:]):
            total += 1
            gl = parse_shape(rep)
            if gl is None:
                crashed += 1; continue
            if gl: nontriv += 1
            key = (tuple(meta[1]), q.split()[10], meta[2], meta[3])
            a = sorted((g[1], g[0], g[3], g[4]) for g in gl)
            if key in adv and adv[key] != a: kerned += 1
            adv[key] = a
            for kind, detail in check_shape(meta, gl):
                found.setdefault((kind, meta[0], "kern=0" if meta[4] else "kern"), []).append((len(q), reg, q, meta, rep, detail))
    for key, lst in sorted(found.items()):
        lst.sort(key=lambda x: x[0])
        _, reg, q, meta, rep, detail = lst[0]
        ctx.violation(f"shape() on a synthetic font ({key[1]}, {key[2]}): output clusters violate C02 ({key[0]}; {len(lst)} shapings): "
                      f"{detail}; direction {meta[2]}, input clusters {meta[1]}, output clusters {[g[1] for g in parse_shape(rep)]}",
                      {"stage": "search", "stream": "shape-clusters", "font_line": reg, "request": q, "case": meta[0],
                       "input_clusters": meta[1], "dir": meta[2], "level": meta[3], "kern_off": meta[4], "kind": key[0],
                       "observed": rep[:3000], "count": len(lst)})
    ctx.note_search("shape-synth-kern", total, nontriv, crashed_or_aborted=crashed, kerning_changed_advances=kerned,
                    violations_by_kind={str(k): len(v) for k, v in found.items()},
                    rule="six synthetic cmap+hmtx fonts with 1/2/3 format-0 subtables in a `kern` (version 0) resp. `kerx` table; texts "
                         "over Hebrew letters / digits / space / latin (so that the buffer direction stays backward for rtl), x 5 "
                         "directions x 3 levels x kerning on / kern=0; same oracles as shape-clusters; kerning_changed_advances counts "
                         "request pairs whose advances differ between kerning on and off (the table is live)")
    return found


def run(ctx):
    ctx.assumptions += [
        "theorems are about the Lean model of the buffer primitives (Buf.lean) and of form_clusters / ensure_native_direction / "
        "reverse_graphemes / the final reverse (Cluster.lean); the tie to the crate is the cluster-prims correspondence stream",
        "the shapers' own reordering code (Indic, USE, Khmer, Myanmar, Thai, Hangul, Arabic mark reordering, morx rearrangement) is "
        "not modelled: for it the property rests on the shape()-level search over the corpus fonts and the per-script synthetic fonts "
        "(random strings, structured mark runs, exhaustive short role sequences)",
        "known finding F13 is matched only by Indic text that contains a pre-base matra (class 'indic-shaper', decided by probing the "
        "crate); Indic text without one is class 'indic-shaper:no-prebase-matra' and is a violation",
        "the kern/kerx driver bracket (D3) is modelled by the C07 core; here it is covered by the search with kerning disabled on backward text",
    ]
    ctx.regen()
    ctx.prove(MODULE)
    shim = vlib.build_harness()
    ctx.correspond("cluster-prims", lines=prim_lines(ctx.rng("prims"), ctx.budget(20000, 300000)), classify=classify, canon=canon)
    prim_search(ctx, shim, ctx.rng("prim-search"), ctx.budget(30000, 400000))
    shape_search(ctx, shim, ctx.rng("shape"), ctx.budget(300, 2128), ctx.budget(3, 6), not ctx.quick)
    synth_search(ctx, shim, ctx.rng("synth"), ctx.budget(40, 400))
    script_search(ctx, shim, ctx.rng("script"), ctx.budget(400, 12000))
    markrun_search(ctx, shim, ctx.rng("mark-runs"), ctx.budget(300, 6000), ctx.budget(2, 6))
    special_search(ctx, shim, ctx.rng("special"), ctx.budget(3, 4), [(1, 4), (1, 0), (0, 4)] if ctx.quick else [(1, 4), (1, 0), (0, 4), (0, 0)],
                   ctx.budget(150, 3000), ctx.budget(2, 6))


def replay(ctx, rp):
    shim = vlib.build_harness()
    if rp.get("request", "").startswith("clu"):
        model = vlib.build_model()
        a = vlib.run_lines(shim, [rp["request"]], nproc=1)[0]
        b = vlib.run_lines(model, [rp["request"]], nproc=1)[0]
        print("request:", rp["request"])
        print("impl :", a[:3000]); print("model:", b[:3000])
        d = check_trace(rp["request"], a)
        print("deviations:", d)
        return 1 if (d or canon(a) != b) else 0
    if rp.get("stream") in ("shape-clusters", "shape-script-random", "shape-mark-runs", "shape-special-seq"):
        o = vlib.run_groups(shim, [[rp["font_line"], rp["request"]]], nproc=1)[0]
        print("font   :", rp["font_line"]); print("request:", rp["request"]); print("reply  :", o[1][:3000])
        gl = parse_shape(o[1])
        meta = (rp.get("case"), rp["input_clusters"], rp["dir"], rp["level"], rp["kern_off"])
        bad = check_shape(meta, gl) if gl is not None else [("crash", o[1][:200])]
        print("input clusters :", rp["input_clusters"]); print("output clusters:", [g[1] for g in gl or []])
        print("deviations:", bad)
        return 1 if bad else 0
    print(rp); return 1
