"""Residue-rich buffer histories and residue-sensitive requests for the life-cycle checks (C05; the recycled
end-to-end stream of C11 uses the same idea on its own fonts).

An EARLIER USE of a buffer leaves every kind of state behind that `clear()` has to take back:
  cursor `idx`            an in-place GPOS pass (kern pair / mark attachment) leaves idx = len
  pre- and post-context   set_pre_context / set_post_context with joining letters
  segment properties      direction / script / language, explicit or guessed
  cluster level, not-found-variation-selector glyph, flags, scratch flags, serial, limits
  allocation              a long text (Vec capacity), an out-buffer (have_separate_output through GSUB ligatures)
A LATER REQUEST is sensitive to one of them:
  mark-first text with BEGINNING_OF_TEXT        -> dotted-circle insertion reads the glyph under the cursor
  joining text ending / starting in a dual-joining letter, filled with push_str, no context call
                                                -> the joining automaton reads both contexts
  text with a variation selector the font lacks -> not_found_variation_selector
  text without any property call                -> direction / script / language / cluster level defaults
  letters with alternates under `rand`          -> the position of the PRNG the alternates are drawn from (kind `random`:
                                                   earlier uses that drew k alternates; fonts: generated + the corpus font)
The oracle is always the same request through `UnicodeBuffer::new()`.

Nothing here knows what a particular change breaks: families are (bases, marks, joining letters) of a script, the
fonts are one generated multi-script font (every family, U+25CC, GDEF, GSUB positional forms + ligature, GPOS kern +
mark-to-base) and the corpus fonts that have a GPOS table and a glyph for U+25CC, with the corpus' own texts."""
import os, struct, unicodedata
import vlib

# (bases, marks, dual-joining letters, script) per family; every code point is in the generated font
FAMILIES = {
    "latin": dict(bases=[0x61, 0x62, 0x66, 0x69, 0x41], marks=[0x301, 0x308], dual=[], script="Latn"),
    "arabic": dict(bases=[0x627, 0x628, 0x644], marks=[0x64e, 0x650], dual=[0x628, 0x644], script="Arab"),
    "hebrew": dict(bases=[0x5d0, 0x5d1], marks=[0x5b4], dual=[], script="Hebr"),
    "deva": dict(bases=[0x915, 0x937], marks=[0x94d, 0x93f], dual=[], script="Deva"),
    "thai": dict(bases=[0xe01], marks=[0xe48, 0xe33], dual=[], script="Thai"),
    "syriac": dict(bases=[0x710, 0x712, 0x713], marks=[0x730], dual=[0x712, 0x713], script="Syrc"),
}
VS_ABSENT = 0xfe0f            # no glyph in the generated font: the not-found-variation-selector glyph decides
FLAGS_BOT = [1, 3, 5, 0x41, 0xC3 & ~0x10, 9]          # BEGINNING_OF_TEXT set, DO_NOT_INSERT_DOTTED_CIRCLE (0x10) clear
FLAGS_ANY = [0, 1, 2, 3, 4, 8, 0x10, 0x40, 0xC3, 0xFF]
LANGS = ["en", "ar", "sr", "ur", "he", "TR"]
FEATS = ["-", "6b65726e:0:0:4294967295", "6c696761:0:0:4294967295", "6d61726b:0:0:4294967295", "6b65726e:1:1:3"]


def _letters():
    out = []
    for f in FAMILIES.values():
        for c in f["bases"] + f["marks"]:
            if c not in out:
                out.append(c)
    return out + [0x20, 0x25cc]


def residue_recipe():
    """one font with every family: GDEF (marks = class 3), GSUB (init/medi/fina/isol for the dual-joining letters as
    single substitutions, liga f+i), GPOS (kern: every base pair of a family, mark: every mark on every base and on
    the dotted circle).  Any text with two bases or a base and a mark runs a GPOS lookup."""
    cps = _letters()
    gid = {c: 1 + i for i, c in enumerate(cps)}
    n = 1 + len(cps)
    duals = sorted({gid[c] for f in FAMILIES.values() for c in f["dual"]})
    forms = {}
    for j, tag in enumerate(["isol", "fina", "medi", "init"]):
        forms[tag] = {g: n + j * len(duals) + k for k, g in enumerate(duals)}
    n += 4 * len(duals)
    lig = n
    n += 1
    marks = sorted({gid[c] for f in FAMILIES.values() for c in f["marks"]})
    bases = [g for g in range(1, n) if g not in marks]
    pairs = {}
    for f in FAMILIES.values():
        for a in f["bases"]:
            pairs.setdefault(gid[a], []).extend((gid[b], {"xAdvance": -40}, None) for b in f["bases"])
    lefts = sorted(pairs)
    lookups_sub = [{"type": 1, "flag": 0, "subtables": [{"format": 2, "coverage": duals,
                                                        "subst": [forms[t][g] for g in duals]}]}
                   for t in ("isol", "fina", "medi", "init")]
    lookups_sub.append({"type": 4, "flag": 0, "subtables": [{"coverage": [gid[0x66]],
                                                            "ligsets": [[{"glyph": lig, "components": [gid[0x69]]}]]}]})
    feats_sub = [{"tag": t, "lookups": [j]} for j, t in enumerate(("isol", "fina", "medi", "init"))] + \
                [{"tag": "liga", "lookups": [4]}]
    tags = ["DFLT", "latn", "arab", "hebr", "deva", "dev2", "thai", "syrc"]

    def scripts(nf):
        return [{"tag": t, "default": {"required": None, "features": list(range(nf))}, "langs": []} for t in tags]
    return {
        "num_glyphs": n, "cmap": gid, "advances": [600] * n,
        "gdef": {"classes": {**{g: 1 for g in bases}, **{g: 3 for g in marks}, lig: 2}},
        "gsub": {"scripts": scripts(5), "features": feats_sub, "lookups": lookups_sub},
        "gpos": {"scripts": scripts(2),
                 "features": [{"tag": "kern", "lookups": [0]}, {"tag": "mark", "lookups": [1]}],
                 "lookups": [{"type": 2, "flag": 0, "subtables": [{"format": 1, "coverage": lefts,
                                                                  "pairsets": [pairs[g] for g in lefts]}]},
                             {"type": 4, "flag": 0, "subtables": [{"mark_coverage": marks, "base_coverage": bases,
                                                                  "class_count": 1,
                                                                  "marks": [(0, (0, 600)) for _ in marks],
                                                                  "bases": [[(300, 700)] for _ in bases]}]}]},
    }


def residue_font():
    import fontbuild
    d = os.path.join(vlib.HARN, "target", "c05fonts")
    os.makedirs(d, exist_ok=True)
    data = fontbuild.build(residue_recipe())
    p = os.path.join(d, "residue.ttf")
    if not os.path.exists(p) or open(p, "rb").read() != data:
        open(p, "wb").write(data)
    return p


# ------------------------------------------------------------------------------------------------------------------
# residue kind `random`: the PRNG position of the `rand` feature

RAND_LETTERS = [0x54, 0x55, 0x56, 0x61, 0x62, 0x66, 0x69, 0x41]
RAND_CORPUS_FONT = "in-house/5bb74492f5e0ffa1fbb72e4c881be035120b6513.ttf"      # AlternateSubst for T U V under `rand`
F_RAND = "72616e64"


def rand_recipe(r):
    """A font whose GSUB has AlternateSubst lookups under `rand` (left at its default value the alternate is drawn from the
    minstd PRNG of the apply context): 4-7 of the letters covered by alternate sets of 2-5 glyphs with distinct advances, the
    rest uncovered; one font in two has a SECOND alternate lookup under `rand` (over the first one's outputs: two draws per
    letter), one in three also lists the lookup under `salt` (an ordinary, non-random feature), one in two has a GPOS kern
    lookup over the alternates (the positioning pass sees the drawn glyphs).  -> (recipe, covered letters, uncovered)"""
    letters = list(RAND_LETTERS)
    gid = {c: 1 + i for i, c in enumerate(letters)}
    gid[0x20] = len(letters) + 1
    n = len(letters) + 2
    covered = sorted(r.sample(letters, r.range(4, 7)))
    alts = {}
    for c in covered:
        k = r.range(2, 5)
        alts[gid[c]] = list(range(n, n + k))
        n += k
    lookups = [{"type": 3, "flag": 0, "subtables": [{"coverage": sorted(alts), "alternates": [alts[g] for g in sorted(alts)]}]}]
    feats = [{"tag": "rand", "lookups": [0]}]
    first_out = sorted(g for v in alts.values() for g in v)
    if r.chance(1, 2):
        cov2 = sorted(r.sample(first_out, r.range(1, len(first_out))))
        alts2 = {}
        for g in cov2:
            k = r.range(2, 5)
            alts2[g] = list(range(n, n + k))
            n += k
        lookups.append({"type": 3, "flag": 0, "subtables": [{"coverage": cov2, "alternates": [alts2[g] for g in cov2]}]})
        feats[0]["lookups"].append(1)
    if r.chance(1, 3):
        feats.append({"tag": "salt", "lookups": [0]})
    tags = ["DFLT", "latn"]
    scripts = lambda nf: [{"tag": t, "default": {"required": None, "features": list(range(nf))}, "langs": []} for t in tags]
    rec = {"num_glyphs": n, "cmap": gid, "advances": [500 + 37 * g for g in range(n)],
           "gsub": {"scripts": scripts(len(feats)), "features": feats, "lookups": lookups}}
    if r.chance(1, 2):
        lefts = sorted(r.sample(list(range(1, n)), min(6, n - 1)))
        rec["gpos"] = {"scripts": scripts(1), "features": [{"tag": "kern", "lookups": [0]}],
                       "lookups": [{"type": 2, "flag": 0, "subtables": [{"format": 1, "coverage": lefts, "pairsets": [
                           [(g2, {"xAdvance": r.choice([-70, -30, 20, 55])}, None) for g2 in sorted(r.sample(list(range(1, n)), min(5, n - 1)))]
                           for _ in lefts]}]}]}
    return rec, covered, [c for c in letters if c not in covered] + [0x20]


def rand_fonts(r, k):
    """k generated fonts (files under harness/target/c05fonts, named by content) and the corpus font that has an AlternateSubst
    lookup under `rand`: [(path, covered letters, other letters)]"""
    import fontbuild, hashlib
    d = os.path.join(vlib.HARN, "target", "c05fonts")
    os.makedirs(d, exist_ok=True)
    out = []
    for _ in range(k):
        rec, cov, unc = rand_recipe(r)
        data = fontbuild.build(rec)
        p = os.path.join(d, f"rand-{hashlib.sha1(data).hexdigest()[:12]}.ttf")
        if not os.path.exists(p):
            open(p, "wb").write(data)
        out.append((p, cov, unc))
    cf = os.path.join(vlib.REPO, "tests", "fonts", RAND_CORPUS_FONT)
    if os.path.exists(cf):
        out.append((cf, [0x54, 0x55, 0x56], [0x20, 0x41]))
    return out


def rand_text(r, cov, unc, lo, hi):
    """mostly letters the `rand` lookup covers (each one draws), some it does not"""
    return [r.choice(cov) if (not unc or r.chance(5, 6)) else r.choice(unc) for _ in range(r.range(lo, hi))]


def rand_feats(r):
    """feature string of the request: mostly none (rand at its default: random), sometimes an explicit alternate, a range, the
    feature switched off, or an unrelated feature"""
    k = r.below(10)
    if k < 6: return "-"
    if k == 6: return f"{F_RAND}:{r.range(1, 3)}:0:4294967295"
    if k == 7: return f"{F_RAND}:{r.range(1, 2)}:{r.below(3)}:{r.range(3, 6)}"
    if k == 8: return f"{F_RAND}:0:0:4294967295"
    return "6b65726e:0:0:4294967295"


def rand_use(r, cov, unc):
    """ops of an EARLIER use that advances the PRNG: 1-3 shapings (recycled in between) of texts that draw k alternates each"""
    ops = []
    for j in range(r.range(1, 3)):
        if j:
            ops.append("clear")
        ops.append("push " + hx(rand_text(r, cov, unc, 1, 9)))
        if r.chance(1, 3): ops.append(f"dir {r.range(1, 2)}")
        if r.chance(1, 3): ops.append("script Latn")
        ops.append(f"flags {r.choice([0, 0, 1, 3])}")
        ops.append(r.choice(["shape -", "shape -", "plan -", "shape " + rand_feats(r)]))
    return ops


def rand_request(r, cov, unc):
    """ops of the later request: covered letters, rand left alone (or set explicitly: then nothing is random)"""
    ops = ["push " + hx(rand_text(r, cov, unc, 1, 12))]
    if r.chance(1, 3): ops.append(f"dir {r.range(1, 2)}")
    if r.chance(1, 3): ops.append("script Latn")
    ops.append(f"level {r.below(3)}")
    ops.append(f"flags {r.choice([0, 0, 1, 3])}")
    return ops


def sfnt_tables(path, index=0):
    """table tags of an sfnt / the index-th font of a collection (directory only)"""
    try:
        with open(path, "rb") as f:
            head = f.read(12)
            off = 0
            if head[:4] == b"ttcf":
                n = struct.unpack(">I", head[8:12])[0]
                offs = struct.unpack(f">{n}I", f.read(4 * n))
                off = offs[index] if index < n else offs[0]
                f.seek(off)
                head = f.read(12)
            num = struct.unpack(">H", head[4:6])[0]
            recs = f.read(16 * num)
            return {recs[i * 16:i * 16 + 4] for i in range(num)}
    except Exception:
        return set()


def is_mark(ch):
    return unicodedata.category(ch) in ("Mn", "Mc", "Me")


def hx(cps):
    return ",".join(f"{c:x}" for c in cps) or "-"


def family_text(r, fam, lo, hi):
    """bases with marks after some of them (a base + mark pair and a base + base pair both run GPOS lookups)"""
    f = FAMILIES[fam]
    out = []
    for _ in range(r.range(lo, hi)):
        out.append(r.choice(f["bases"]))
        while f["marks"] and r.chance(1, 3):
            out.append(r.choice(f["marks"]))
    return out


def context_cps(r, fam):
    f = FAMILIES[r.choice([fam, "arabic", "syriac"])]
    pool = f["dual"] or f["bases"]
    return [r.choice(pool) for _ in range(r.range(1, 6))]


def residue_use(r, fam=None, shaped=None):
    """ops of one EARLIER use of a unicode buffer that leaves as much state behind as a caller can: content that runs
    GPOS, both contexts, every property, flags, cluster level, not-found glyph; ends shaped (glyph buffer) or filled"""
    fam = fam or r.choice(sorted(FAMILIES))
    f = FAMILIES[fam]
    t = family_text(r, fam, 1, 7)
    if not any(c in f["marks"] for c in t) and f["marks"]:
        t.append(r.choice(f["marks"]))
    ops = []
    if r.chance(1, 12):
        ops.append(f"pushn {r.choice(f['bases']):x} {r.choice([40, 300, 2000])}")
    if r.chance(3, 4): ops.append("pre " + hx(context_cps(r, fam)))
    if r.chance(2, 3):
        ops.append("push " + hx(t))
    else:
        ops += [f"add {c:x} {i}" for i, c in enumerate(t)]
    if r.chance(3, 4): ops.append("post " + hx(context_cps(r, fam)))
    if r.chance(1, 2): ops.append(f"dir {r.range(1, 4)}")
    if r.chance(1, 2): ops.append(f"script {r.choice([f['script'], f['script'], 'Latn', 'Arab'])}")
    if r.chance(1, 2): ops.append("lang x" + r.choice(LANGS).encode().hex())
    ops.append(f"flags {r.choice(FLAGS_ANY)}")
    if r.chance(2, 3): ops.append(f"level {r.below(3)}")
    if r.chance(1, 3): ops.append(f"nfvs {r.range(1, 5)}")
    if shaped is None:
        shaped = r.chance(5, 6)
    if shaped:
        ops.append(r.choice(["shape ", "plan "]) + r.choice(FEATS))
    return ops


SENSITIVE = ("mark-first", "joining-tail", "joining-head", "selector", "defaults", "mark-first-short")


def sensitive_request(r, kind, fam=None):
    """ops of a request whose result depends on one kind of buffer state (see the module text); (ops, family)"""
    if kind in ("joining-tail", "joining-head"):
        fam = r.choice(["arabic", "syriac"])
    fam = fam or r.choice(sorted(FAMILIES))
    f = FAMILIES[fam]
    ops = []
    flags = r.choice(FLAGS_ANY)
    if kind in ("mark-first", "mark-first-short"):
        marks = f["marks"] or FAMILIES["latin"]["marks"]
        t = [r.choice(marks)] + (family_text(r, fam, 0, 2) if kind.endswith("short") else family_text(r, fam, 2, 9))
        flags = r.choice(FLAGS_BOT)
    elif kind == "joining-tail":
        t = family_text(r, fam, 0, 5) + [r.choice(f["dual"])] + ([r.choice(f["marks"])] if r.chance(1, 4) else [])
        if r.chance(1, 3): ops.append("pre " + hx(context_cps(r, fam)))
    elif kind == "joining-head":
        t = [r.choice(f["dual"])] + family_text(r, fam, 0, 5)
    elif kind == "selector":
        t = family_text(r, fam, 1, 4)
        t.insert(r.range(1, len(t)), VS_ABSENT)
    else:
        t = family_text(r, fam, 1, 8)
    # joining-tail must be filled by push_str (`add` zeroes the post-context length itself)
    if kind == "joining-tail" or r.chance(2, 3):
        ops.append("push " + hx(t))
    else:
        cl = 0
        for c in t:
            ops.append(f"add {c:x} {cl}")
            cl += r.range(1, 2)
    if kind == "joining-head" and r.chance(1, 3): ops.append("post " + hx(context_cps(r, fam)))
    if kind != "defaults":
        if r.chance(1, 3): ops.append(f"dir {r.range(1, 2)}")
        if r.chance(1, 3): ops.append(f"script {f['script']}")
        if r.chance(1, 4): ops.append("lang x" + r.choice(LANGS).encode().hex())
        ops.append(f"level {r.below(3)}")
    ops.append(f"flags {flags}")                 # flags survive clear() by design: a request always states them
    return ops, fam


def context_calls(r, fam, side):
    """ops that set ONE side's context several times on the same buffer without a clear(): 1-2 longer texts of dual-joining
    letters first, then the LAST call — empty, transparent-only (marks of the family), one letter, or an arbitrary
    context.  -> (all ops, the last op alone)"""
    f = FAMILIES[fam]
    ops = [f"{side} " + hx([r.choice(f["dual"]) for _ in range(r.range(2, 6))]) for _ in range(r.range(1, 2))]
    k = r.below(5)
    if k == 0: last = []
    elif k == 1: last = [r.choice(f["marks"]) for _ in range(r.range(1, 3))]
    elif k == 2: last = [r.choice(f["marks"]) for _ in range(r.range(0, 2))] + [r.choice(f["bases"])]
    elif k == 3: last = [r.choice(f["dual"])]
    else: last = context_cps(r, fam)
    last = f"{side} " + hx(last)
    return ops + [last], last


def recontext_request(r):
    """A request whose contexts are set SEVERAL times before shaping (a caller that re-uses one UnicodeBuffer object for the
    runs of a paragraph and updates the context as it goes), with add() / push_str interleaved; the text starts and ends
    in a dual-joining letter, so both contexts matter.  -> (ops as the caller issues them, ops of the EQUIVALENT request
    on a buffer that only ever sees the effective — last — context of each side, family).
    Semantics used for the equivalent request (documented api): set_pre_context / set_post_context replace the side's
    context; UnicodeBuffer::add drops the post-context; push_str keeps both."""
    fam = r.choice(["arabic", "syriac"])
    f = FAMILIES[fam]
    t = [r.choice(f["dual"])] + family_text(r, fam, 0, 4) + [r.choice(f["dual"])]
    pre_all, pre_last = context_calls(r, fam, "pre")
    post_all, post_last = context_calls(r, fam, "post")
    adds = [f"add {c:x} {i}" for i, c in enumerate(t)]
    push = ["push " + hx(t)]
    k = r.below(6)
    if k == 0:      # everything before the text
        ops, eq = pre_all + post_all + push, [pre_last, post_last] + push
    elif k == 1:    # the classic order
        ops, eq = pre_all + push + post_all, [pre_last] + push + [post_last]
    elif k == 2:    # sides interleaved, text in the middle
        ops, eq = post_all[:1] + pre_all[:1] + push + pre_all[1:] + post_all[1:], push + [pre_last, post_last]
    elif k == 3:    # text by add(): after the adds both sides are set again
        ops, eq = pre_all[:-1] + post_all[:-1] + adds + [post_last, pre_last], adds + [post_last, pre_last]
    elif k == 4:    # add() after the post-context: the post-context is dropped, its array keeps the letters
        ops, eq = post_all + pre_all + adds, [pre_last] + adds
    else:           # two pushes with context calls in between
        h = r.range(1, len(t) - 1)
        ops = pre_all[:1] + ["push " + hx(t[:h])] + post_all + pre_all[1:] + ["push " + hx(t[h:])]
        eq = ["push " + hx(t[:h]), post_last, pre_last, "push " + hx(t[h:])]
    props = []
    if r.chance(1, 3): props.append(f"dir {r.range(1, 2)}")
    if r.chance(1, 2): props.append(f"script {f['script']}")
    props.append(f"level {r.below(3)}")
    props.append(f"flags {r.choice(FLAGS_ANY)}")
    return ops + props, eq + props, fam


def corpus_gpos_cases(shim, cases):
    """corpus (font, text) pairs whose font has a GPOS table and a glyph for U+25CC and whose text has a combining
    mark: [(fontspec, text)]"""
    byfont = {}
    for c in cases:
        if any(is_mark(ch) for ch in c.text) and len(c.text) <= 40 and not c.extra:
            byfont.setdefault((c.font, c.index), []).append(c)
    keys = [k for k in sorted(byfont) if b"GPOS" in sfnt_tables(*k)]
    groups = [[f"fontfile P {p} {i}", "shape P l - - 0 0 - - - 25cc:0"] for p, i in keys]
    outs = vlib.run_groups(shim, groups) if groups else []
    res = []
    for k, o in zip(keys, outs):
        f = o[1].split() if len(o) > 1 else []
        if len(f) >= 3 and f[0] == "ok" and f[1] == "1" and not f[2].startswith("0:"):
            res += [(f"{k[0]}@{k[1]}", c.text) for c in byfont[k]]
    return res
