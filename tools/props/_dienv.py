"""C13 `di-invisible-env`: the invisibility oracle in every POSITIONING environment.

`di-invisible` (C13.py) runs on cmap-only fonts; every step that writes advances or offsets after (or before) the
default-ignorable zeroing of `position_complex` lives in fonts with positioning tables.  This module generates fonts that
carry every combination of

    GPOS kerning (PairPos 1 / 2) / mark attachment (MarkToBase, MarkToMark) / cursive attachment,   legacy `kern`,   `kerx`
    (formats 0 / 2 / 6),   `trak` (horizontal / vertical data) together with a point size,   `morx` (AAT plan),   GDEF (glyph class
    of EVERY glyph — .notdef, space, the default ignorables' own glyphs — drawn from not listed / 1 / 2 / 3 / 4 / 5 / 255, mark
    attachment classes, mark glyph sets),   glyph extents (fallback mark positioning),   vertical metrics,   with / without a
    space glyph

and shapes texts with default ignorables of BOTH kinds (grapheme starting: ZWNJ, SHY, LRM, WJ, ALM, BOM, ZWSP, ...;
grapheme continuations: ZWJ, CGJ, variation selectors, Mongolian FVS, tags) at every position, under flags default / REMOVE /
PRESERVE, four directions, three cluster levels, point sizes none / small / large.

Oracle (the default ignorable ITSELF; what it does to its neighbours is `di-invisible` / `di-vs-fallback`):
    default, font with a space glyph   as many glyphs as characters; exactly the default ignorables show the space glyph, with
                                       zero advance and zero offset on both axes; none of them shows a glyph of its own
    REMOVE, or no space glyph          the default ignorables are gone: no space / own glyph left, length = the other characters
    PRESERVE                           every default ignorable shows its own glyph (.notdef when the font has none)
No lookup of a generated font outputs the space glyph or substitutes / positions a default-ignorable glyph as the CURRENT glyph
of an attachment lookup (those belong to the font's own wish: "that the font's lookups did not substitute"); kerning and class
based lookups DO cover them (their adjustments must be wiped by the zeroing)."""
import os
import struct
import fontbuild
import vlib
import _kerx

PRESERVE, REMOVE = 4, 8

LATIN = [0x41, 0x42, 0x43, 0x44]
HEBREW = [0x5D0, 0x5D1]
MARKS = [0x301, 0x308]
# glyph ids
G_LETTER = {c: i + 1 for i, c in enumerate(LATIN + HEBREW)}       # 1..6
G_MARK = {0x301: 7, 0x308: 8}
G_SPACE = 9
G_ALT = 10            # target of the morx substitution of A
G_DI0 = 11

# the named default ignorables: (code point, kind)
STARTERS = [0x200C, 0xAD, 0x200E, 0x200F, 0x2060, 0x61C, 0xFEFF, 0x200B, 0x180E, 0x2061, 0x2064, 0x202A, 0x202E, 0x2066, 0x2069,
            0x206A, 0x1D173, 0xFFF0, 0xE0001]
CONTINUATIONS = [0x200D, 0x34F, 0xFE00, 0xFE0F, 0xE0100, 0x180B, 0x180F, 0xE0020, 0xE007F, 0x17B4]


def is_cont(chars, c):
    p = chars.p[c]
    return p["gc"] in (10, 11, 12) or c == 0x200D or 0xE0020 <= c <= 0xE007F


def pick_dis(r, chars, di_all, n_extra):
    named = [c for c in STARTERS + CONTINUATIONS if c in di_all]
    cand = named + r.sample([c for c in di_all if c not in named], n_extra)
    chars.load(cand)
    # a code point of the Unicode list that the crate does not treat as default ignorable is the `di-set` finding (reported
    # there, and seen end to end by `di-invisible`): not a default ignorable for this stream
    return [c for c in cand if chars.p.get(c) and chars.p[c]["di"]]


# ------------------------------------------------------------------------------------------------------------------
# environments

ENV_KEYS = ["gpos_kern", "gpos_mark", "gpos_curs", "kern", "kerx", "kerx_cross", "trak", "morx", "gdef", "extents", "vmtx", "space"]

# always present (every seed): each environment alone and trak next to each of the others
FIXED_ENVS = [
    dict(space=1),
    dict(space=0),
    dict(trak=1, space=1),
    dict(trak=1, space=1, vmtx=1),
    dict(trak=1, space=0),
    dict(trak=1, gpos_kern=1, space=1),
    dict(trak=1, gpos_mark=1, gdef=1, space=1),
    dict(trak=1, gpos_curs=1, space=1),
    dict(trak=1, kern=1, space=1),
    dict(trak=1, kerx=1, space=1),
    dict(trak=1, morx=1, space=1),
    dict(trak=1, morx=1, kerx=1, space=1, vmtx=1),
    dict(trak=1, extents=1, space=1),
    dict(trak=1, gdef=1, extents=1, space=1, vmtx=1),
    dict(gpos_kern=1, gpos_mark=1, gpos_curs=1, gdef=1, space=1),
    dict(kern=1, gdef=1, space=1),
    dict(kerx=1, morx=1, space=1),
    dict(morx=1, space=1),
    dict(extents=1, space=1, vmtx=1),
    dict(gpos_mark=1, extents=1, gdef=1, space=1),
    dict(kerx_cross=1, space=1),            # permanent witness font of the class cross-stream-chain (see cross_stream_only)
    dict(kerx_cross=1, trak=1, space=1),
]


def rand_env(r):
    e = {k: int(r.chance(1, 3)) for k in ENV_KEYS}
    e["space"] = int(r.chance(3, 4))
    e["trak"] = int(r.chance(1, 2))
    e["kerx_cross"] = 0
    return e


def env_name(e):
    return "+".join(k for k in ENV_KEYS if e.get(k)) or "plain"


def fixed_trak():
    """horizontal and vertical data, sizes 9 / 12 / 72, one normal track: -60, 30, 160 (horizontal), 85, -15, 7 (vertical)"""
    def data(off, vals):
        sizes = [9, 12, 72]
        size_off = off + 8 + 8
        val_off = size_off + 4 * 3
        return (struct.pack(">HHI", 1, 3, size_off) + struct.pack(">iHH", 0, 256, val_off)
                + b"".join(struct.pack(">i", z << 16) for z in sizes) + b"".join(struct.pack(">h", v) for v in vals))
    hor = data(12, [-60, 30, 160])
    ver = data(12 + len(hor), [85, -15, 7])
    return struct.pack(">IHHHH", 0x00010000, 0, 12, 12 + len(hor), 0) + hor + ver


# what a ClassDef may say about a glyph: not listed, the four classes of the specification (1 base, 2 ligature, 3 mark,
# 4 component) and values the specification does not define
GDEF_CLASS_VALUES = [None, 1, 2, 3, 4, 5, 255]


def rand_gdef(r, ng, letters, marks):
    """GDEF of a generated font: the glyph class of EVERY glyph (.notdef, the space glyph, the default ignorables' own glyphs, the
    morx target) is drawn independently from GDEF_CLASS_VALUES; the letters and combining marks keep their natural classes in
    two fonts out of three (so that mark attachment / fallback mark positioning still run) and are drawn like the others in the
    third.  Mark attachment classes and mark glyph sets are drawn the same way (any glyph, whatever its class)."""
    natural = r.chance(2, 3)
    cls = {}
    for g in range(ng):
        k = r.choice(GDEF_CLASS_VALUES)
        if natural and g in letters: k = 1
        if natural and g in marks: k = 3
        if k is not None: cls[g] = k
    gd = {"classes": cls}
    if r.chance(1, 2):
        gd["mark_attach"] = {g: r.choice([1, 2, 3, 4, 16, 255]) for g in range(ng) if r.chance(1, 2)}
    if r.chance(1, 3):
        gd["mark_sets"] = [sorted(r.sample(list(range(ng)), r.range(0, min(6, ng)))) for _ in range(r.range(1, 2))]
    return gd


def build_env_font(r, env, dis, trak_table=None):
    """returns (hex, info) — info: di_gid {cp: gid or 0}, space gid or None"""
    ng = G_DI0 + len(dis)
    cmap = dict(G_LETTER)
    cmap.update(G_MARK)
    if env.get("space"):
        cmap[0x20] = G_SPACE
    di_gid = {}
    for i, c in enumerate(dis):
        # about one in five has no glyph of its own (.notdef is what gets hidden)
        if r.chance(4, 5):
            di_gid[c] = G_DI0 + i
            cmap[c] = G_DI0 + i
        else:
            di_gid[c] = 0
    rec = {"num_glyphs": ng, "cmap": cmap, "advances": [400 + 13 * g for g in range(ng)]}
    if env.get("vmtx"):
        rec["vadvances"] = [900 + 7 * g for g in range(ng)]
    letters = sorted(G_LETTER.values())
    marks = sorted(G_MARK.values())
    digl = sorted(g for g in di_gid.values() if g)
    anyg = letters + marks + digl + [G_ALT]
    gl = lambda: r.choice(anyg)
    val = lambda: r.choice([-90, -35, 17, 60, 140])
    lookups, feats = [], []
    if env.get("gpos_kern"):
        first = sorted(set(gl() for _ in range(8)) | set(letters[:2]))
        lookups.append({"type": 2, "flag": 0, "subtables": [{"format": 1, "coverage": first, "pairsets": [
            [(s2, {"xAdvance": val(), "yAdvance": val(), "xPlacement": val()}, {"xAdvance": val(), "yPlacement": val()})
             for s2 in sorted(set(gl() for _ in range(6)))] for _ in first]}]})
        feats.append({"tag": "kern", "lookups": [len(lookups) - 1]})
        # class based: every glyph (default-ignorable glyphs included) is in some class
        cd = {g: r.range(1, 2) for g in anyg}
        lookups.append({"type": 2, "flag": 0, "subtables": [{"format": 2, "coverage": sorted(anyg), "classdef1": cd, "classdef2": cd,
                        "matrix": [[({"xAdvance": val() if r.chance(1, 2) else 0, "yAdvance": val() if r.chance(1, 3) else 0},
                                     {"xPlacement": val() if r.chance(1, 3) else 0, "yAdvance": 0})
                                    for _ in range(3)] for _ in range(3)]}]})
        feats.append({"tag": "dist", "lookups": [len(lookups) - 1]})
    if env.get("gpos_mark"):
        lookups.append({"type": 4, "flag": 0, "subtables": [{
            "mark_coverage": marks, "base_coverage": letters, "class_count": 1,
            "marks": [(0, (r.range(-50, 50), r.range(300, 500))) for _ in marks],
            "bases": [[(r.range(100, 400), r.range(500, 800))] for _ in letters]}]})
        lookups.append({"type": 6, "flag": 0, "subtables": [{
            "mark1_coverage": marks, "mark2_coverage": marks, "class_count": 1,
            "marks": [(0, (r.range(-50, 50), r.range(100, 200))) for _ in marks],
            "mark2": [[(r.range(-30, 30), r.range(600, 900))] for _ in marks]}]})
        feats.append({"tag": "mark", "lookups": [len(lookups) - 2]})
        feats.append({"tag": "mkmk", "lookups": [len(lookups) - 1]})
    if env.get("gpos_curs"):
        lookups.append({"type": 3, "flag": r.choice([0, 1]), "subtables": [{
            "coverage": letters, "entry_exit": [((r.range(0, 80), r.range(-100, 100)), (r.range(300, 420), r.range(-100, 100)))
                                                for _ in letters]}]})
        feats.append({"tag": "curs", "lookups": [len(lookups) - 1]})
    if lookups:
        rec["gpos"] = {"features": feats, "lookups": lookups}
    if env.get("kern"):
        rec["kern"] = [{"pairs": [(a, b, v) for (a, b), v in sorted({(gl(), gl()): val() for _ in range(14)}.items())]}]
    if env.get("gdef"):
        rec["gdef"] = rand_gdef(r, ng, letters, marks)
    if env.get("extents"):
        ext = {g: [20, -10 - g, 380, 600 + 5 * g] for g in letters + [G_ALT]}
        ext.update({g: [-200, 650, -40, 780] for g in marks})
        for g in digl:
            if r.chance(1, 2): ext[g] = [10, 0, 90, 400 + g]
        rec["extents"] = ext
    if env.get("morx"):
        rec["morx"] = {"version": 2, "chains": [{"default_flags": 1, "features": [], "subtables": [
            {"kind": "noncontextual", "feature_flags": 1, "map": {G_LETTER[0x41]: G_ALT}}]}]}
    tables = {}
    cross = False
    if env.get("trak"):
        tables["trak"] = trak_table if trak_table is not None else fixed_trak()
    if env.get("kerx"):
        subs = _kerx.rand_subs(r, r.sample(anyg, min(6, len(anyg))), anyg, lo=1, hi=2, simple_only=True)
        tables["kerx"] = _kerx.kerx_table(subs)
        cross = any(s_["c"] for s_ in subs)
    if env.get("kerx_cross"):
        # one format 0 cross-stream subtable over the letters: A B -> -40, B C -> 25 (the second glyph is shifted across the line)
        tables["kerx"] = _kerx.kerx_table([{"fmt": 0, "h": 1, "c": 1, "v": 0, "pairs": {(1, 2): -40, (2, 3): 25, (1, 1): 12}}])
        cross = True
    if tables:
        rec["tables"] = tables
    return fontbuild.build(rec).hex(), {"di_gid": di_gid, "space": G_SPACE if env.get("space") else None, "cross": cross}


# ------------------------------------------------------------------------------------------------------------------
# texts

def texts_for(r, d, d2, letters):
    a, b, c = letters[0], letters[1 % len(letters)], letters[-1]
    m = r.choice(MARKS)
    return [
        ("lead", [d, a, b]), ("mid", [a, d, b, c]), ("trail", [a, b, d]), ("pair", [a, d, d2, b]), ("only", [d]),
        ("after-mark", [a, m, d, b]), ("before-mark", [a, d, m, b]), ("twice", [d, a, d]),
    ]


PTEMS = [None, None, "1", "9", "12", "40", "72", "144", "1000", "10.5"]


def judge(text, fl, info, reply):
    """None or what is wrong with the default ignorables of this result"""
    t = reply.split()
    if not t or t[0] != "ok":
        return f"shape failed: {reply[:80]}"
    gl = [tuple(int(x) for x in g.split(":")) for g in t[2:]]       # gid cluster flags xa ya xo yo
    di_gid, sp = info["di_gid"], info["space"]
    dis = [c for c in text if c in di_gid]
    own = {di_gid[c] for c in dis}                                    # 0 = .notdef
    n = len(text)
    if fl & PRESERVE:
        if len(gl) != n:
            return f"PRESERVE: {len(gl)} glyphs for {n} characters"
        shown = sum(1 for g in gl if g[0] in own)
        if shown != len(dis):
            return f"PRESERVE: {shown} glyphs of default ignorables shown, expected {len(dis)}"
        return None
    if (fl & REMOVE) or sp is None:
        left = [g for g in gl if g[0] in own or g[0] == sp]
        if left:
            return f"a default ignorable was not removed: glyph {left[0][0]} (cluster {left[0][1]}) is still there"
        if len(gl) != n - len(dis):
            return f"{len(gl)} glyphs left, expected the {n - len(dis)} other characters"
        return None
    if len(gl) != n:
        return f"{len(gl)} glyphs for {n} characters (nothing should be removed)"
    vis = [g for g in gl if g[0] in own]
    if vis:
        return f"a default ignorable shows glyph {vis[0][0]} instead of the space glyph {sp}"
    hidden = [g for g in gl if g[0] == sp]
    if len(hidden) != len(dis):
        return f"{len(hidden)} space glyphs for {len(dis)} default ignorables"
    for g in hidden:
        if g[3:] != (0, 0, 0, 0):
            return (f"the hidden default ignorable (space glyph {sp}, cluster {g[1]}) has advance ({g[3]}, {g[4]}) and offset "
                    f"({g[5]}, {g[6]}): expected zero advance and zero offset")
    return None


def cross_stream_only(text, fl, info, reply, dr):
    """is everything that is wrong with this result a CROSS-axis offset on hidden default ignorables of a font that has a
    cross-stream kerx subtable?  (kerx cross-stream kerning chains all glyphs cursively; the shift of a glyph is handed on to
    every later glyph of the line by propagate_attachment_offsets, which runs after the zeroing - as in HarfBuzz.)"""
    if not info.get("cross") or (fl & (PRESERVE | REMOVE)) or info["space"] is None:
        return False
    t = reply.split()
    if not t or t[0] != "ok":
        return False
    gl = [tuple(int(x) for x in g.split(":")) for g in t[2:]]
    fixed = []
    for g in gl:
        if g[0] == info["space"]:
            g = g[:5] + ((g[5], 0) if dr in "lr" else (0, g[6]))
        fixed.append(":".join(map(str, g)))
    return judge(text, fl, info, " ".join(t[:2] + fixed)) is None


def search(ctx, shim, chars, di_all, r):
    nrand = ctx.budget(14, 150)
    n_extra = ctx.budget(4, 20)
    envs = [dict(e) for e in FIXED_ENVS] + [rand_env(r) for _ in range(nrand)]
    trakttf = os.path.join(vlib.REPO, "tests", "fonts", "in-house", "TRAK.ttf")
    import C15
    fonts = []
    for k, env in enumerate(envs):
        dis = pick_dis(r, chars, di_all, n_extra)
        chars.load(dis)
        tt = None if k < len(FIXED_ENVS) or r.chance(1, 3) else C15.trak_table(r)
        hx, info = build_env_font(r, env, dis, tt)
        fonts.append((env_name(env), [f"font F {hx}"], hx, info, dis, bool(env.get("trak")), LATIN + HEBREW))
    if os.path.exists(trakttf):
        # the corpus font: A B C and a space glyph, no default ignorable has a glyph
        dis = pick_dis(r, chars, di_all, n_extra)
        chars.load(dis)
        fonts.append(("corpus:TRAK.ttf", [f"fontfile F {trakttf} 0"], None, {"di_gid": {c: 0 for c in dis}, "space": 1}, dis, True,
                      [0x41, 0x42, 0x43]))
    groups, meta = [], []
    for name, reg, hx, info, dis, has_trak, letters in fonts:
        if hx is None:
            # space glyph of the corpus font, asked from the crate
            o = vlib.run_groups(shim, [reg + ["shape F l Latn - 0 0 - - - 20:0"]], nproc=1)[0][1].split()
            info["space"] = int(o[2].split(":")[0]) if len(o) > 2 else None
        lines, ms = list(reg), []
        for d in dis:
            d2 = r.choice(dis)
            lat = [c for c in letters if c < 0x5D0][:3]
            heb = [c for c in letters if c >= 0x5D0]
            for vname, text in texts_for(r, d, d2, heb if (heb and r.chance(1, 4)) else lat):
                if hx is None and any(c in MARKS for c in text):
                    continue
                script = "Hebr" if text and any(c >= 0x5D0 and c < 0x600 for c in text) else "Latn"
                for dr in "lrtb":
                    for fl in (0, REMOVE, PRESERVE):
                        if fl and vname not in ("mid", "lead", "pair") and not r.chance(1, 3):
                            continue
                        lv = r.below(3)
                        pt = r.choice(PTEMS[2:] if (has_trak and r.chance(3, 4)) else PTEMS)
                        ex = [f"ptem={pt}"] if pt else []
                        if r.chance(1, 6): ex.append("ppem=" + r.choice(["9", "24"]))
                        tt = ",".join(f"{c:x}:{i}" for i, c in enumerate(text))
                        lines.append(" ".join([f"shape F {dr} {script} - {fl} {lv} - - - {tt}"] + ex))
                        ms.append((name, vname, text, dr, fl, lv, pt))
        groups.append(lines); meta.append((ms, hx, info, len(reg)))
    outs = vlib.run_groups(shim, groups, timeout=1200)
    total = bad = 0
    dist, reported, cross = {}, {}, []
    for (ms, hx, info, nreg), o, g in zip(meta, outs, groups):
        for (name, vname, text, dr, fl, lv, pt), reply, req in zip(ms, o[nreg:], g[nreg:]):
            total += 1
            dis = [c for c in text if c in info["di_gid"]]
            kind = "continuation" if is_cont(chars, dis[0]) else "starter"
            key = f"{name}|{vname}|{dr}|f{fl}|{kind}|{'ptem' if pt else 'noptem'}"
            dist[key] = dist.get(key, 0) + 1
            err = judge(text, fl, info, reply)
            if not err:
                continue
            if cross_stream_only(text, fl, info, reply, dr):
                cross.append((err, req, text, dr, fl, lv, pt, hx, reply, name, kind))
                continue
            bad += 1
            # one report per (environment family, kind, flags): the smallest text first
            rk = (name, kind, fl)
            if rk in reported and len(reported[rk][2]) <= len(text):
                continue
            reported[rk] = (err, req, text, dr, fl, lv, pt, hx, reply, name, kind)
    shown = 0
    for rk in sorted(reported, key=lambda k: (len(reported[k][2]), k)):
        err, req, text, dr, fl, lv, pt, hx, reply, name, kind = reported[rk]
        if shown >= 3:
            break
        shown += 1
        d = next((c for c in text if chars.p.get(c) and chars.p[c]["di"]), text[0])
        rp = {"stage": "search", "stream": "di-invisible-env", "environment": name, "kind": kind, "codepoint": d,
              "text": [f"{c:04X}" for c in text], "direction": dr, "flags": fl, "level": lv, "ptem": pt,
              "request": req, "reply": reply}
        if hx is not None:
            rp["font_hex"] = hx
        else:
            rp["fontfile"] = "tests/fonts/in-house/TRAK.ttf"
        ctx.violation(f"default ignorable U+{d:04X} ({kind}) not invisible on a font with [{name}]"
                      f"{' at ptem ' + pt if pt else ''}, direction {dr}, flags {fl}: {err}", rp)
    if cross:
        # recorded upstream behaviour (class cross-stream-chain): reported through the known-findings channel when a signature is
        # registered for it, otherwise listed in the evidence as a finding that awaits registration
        err, req, text, dr, fl, lv, pt, hx, reply, name, kind = min(cross, key=lambda x: (len(x[2]), x[1]))
        d = next((c for c in text if chars.p.get(c) and chars.p[c]["di"]), text[0])
        rp = {"stage": "search", "stream": "di-invisible-env", "class": "cross-stream-chain", "environment": name, "codepoint": d,
              "text": [f"{c:04X}" for c in text], "direction": dr, "flags": fl, "level": lv, "font_hex": hx, "request": req,
              "reply": reply}
        what = (f"hidden default ignorable U+{d:04X} inherits the cross-stream shift of the glyph before it (kerx cross-stream "
                f"subtable; every glyph is chained cursively and propagate_attachment_offsets runs after the zeroing): {err}")
        if any(k.get("status") == "known" and k.get("property") == ctx.prop and vlib.matches_known(k, rp) for k in ctx.kf):
            ctx.violation(what, rp)
        else:
            ctx.cov.setdefault("findings_awaiting_registration", []).append(
                {"class": "cross-stream-chain", "cases": len(cross), "what": what,
                 "example": {k: v for k, v in rp.items() if k != "font_hex"}, "font_hex": hx})
    ctx.note_search("di-invisible-env", total, total, distribution_keys=len(dist), violations=bad, cross_stream_chain=len(cross),
                    fonts=len(fonts),
                    environments=sorted({f[0] for f in fonts})[:60],
                    rule="shape() on generated fonts carrying every combination of GPOS kern / mark / cursive lookups, kern, kerx, "
                         "trak (+ point size none / small / large), morx, GDEF (glyph class of every glyph incl. .notdef / space / the default "
                         "ignorables' glyphs from {not listed, 1, 2, 3, 4, 5, 255}, mark attachment classes, mark glyph sets), glyph extents "
                         "(fallback mark positioning), vertical "
                         "metrics, with / without space glyph, and on the corpus TRAK.ttf; default ignorables of both kinds "
                         "(grapheme starting / continuation; named + sampled) x 8 positions x {default, REMOVE, PRESERVE} x 4 "
                         "directions x levels; oracle: the default ignorable itself shows the space glyph with zero advance and "
                         "zero offset, or is removed, or (PRESERVE) keeps its own glyph")
    return total, bad


# ------------------------------------------------------------------------------------------------------------------
# correspondence: the whole of position_complex on trak-only fonts (hook) against Trak.positionComplex

def position_complex_lines(shim, r, nfonts, per_font):
    """`trak poscx` requests: fonts whose only layout table is `trak` (the fixed one and generated ones), point
    size none / small / large, 4 directions, flags, levels; slots with random general category (Format / letter / nonspacing
    mark), IGNORABLE and CONTINUATION bits, glyph classes (none, base, mark, SUBSTITUTED) and trak bit.  The tracking amount
    (interpolated in floats by the crate) is read off a one-slot probe and handed to the model."""
    import C15
    fonts = [fontbuild.build({"num_glyphs": 3, "cmap": {0x41: 1, 0x20: 2}, "tables": {"trak": fixed_trak()}}).hex()]
    # (the corpus TRAK.ttf also has GPOS / GDEF: outside this model, it is in the di-invisible-env search)
    for _ in range(nfonts):
        fonts.append(fontbuild.build({"num_glyphs": 3, "cmap": {0x41: 1, 0x20: 2}, "tables": {"trak": C15.trak_table(r)}}).hex())
    cases = []
    for fi in range(len(fonts)):
        for _ in range(per_font):
            cases.append((fi, r.choice(["-", "1", "9", "12", "40", "72", "144", "1000", "10.5", "0"]), r.choice("llrtb")))
    probes = sorted(set(c for c in cases if c[1] != "-"))
    po = vlib.run_lines(shim, [f"trak apply {fonts[fi]} {pt} {d} 0 0 0.0.1" for fi, pt, d in probes])
    amount = {}
    for (fi, pt, d), x in zip(probes, po):
        v = [int(z) for z in x.split()[1].split(":")] if x.startswith("ok") else None
        amount[(fi, pt, d)] = None if v is None else (v[0] - 1000 if d in "lr" else v[1] - 1000)
    lines = []
    for fi, pt, d in cases:
        t = 0 if pt == "-" else amount[(fi, pt, d)]
        if t is None:
            continue
        for _ in range(4):
            n = r.range(1, 7)
            items, k = [], r.below(3)
            for i in range(n):
                gc = r.choice([1, 1, 7, 7, 12])
                ign = gc != 7 and r.chance(2, 3)
                cont = i > 0 and (gc == 12 or r.chance(1, 4))
                props = gc | (0x20 if ign else 0) | (0x80 if cont else 0)
                gprops = r.choice([0, 2, 2, 8, 0x12])
                items.append(f"{k}.{props}.{gprops}.{0 if r.chance(1, 6) else 1}")
                k += r.below(3)
            flags = r.choice([0, 0, 0, 1, PRESERVE, REMOVE, PRESERVE | REMOVE])
            scratch = 2 if r.chance(5, 6) else 0
            lines.append(f"trak poscx {fonts[fi]} {pt} {d} {flags} {r.below(3)} {scratch} {t} " + ",".join(items))
    return lines


def gdef_props_lines(r, nfonts):
    """`gdefprops` requests: generated fonts whose GDEF gives every glyph a class value from not listed / 0..7 / 255 / 256 /
    65535 and a mark attachment class value likewise (ClassDef format 1 or 2 as the builder chooses for the shape of the
    table; fonts without glyph class definition / without GDEF too); every glyph is asked."""
    lines = []
    for _ in range(nfonts):
        ng = r.range(1, 40)
        cv = r.choice([[None, 1, 2, 3, 4, 5, 255], [None, 0, 1, 2, 3, 4, 5, 6, 7, 255, 256, 65535], [3, 4], [None, 4]])
        kind = r.below(8)            # 0: no GDEF, 1: GDEF without glyph classes, else both tables
        cls = {g: c for g in range(ng) for c in [r.choice(cv)] if c is not None and kind > 1}
        att = {g: a for g in range(ng) for a in [r.choice([None, None, 0, 1, 2, 7, 255, 256, 65535])] if a is not None and kind > 0}
        if r.chance(1, 4) and kind > 1:
            # long runs of one class (ClassDef format 2 ranges / format 1 arrays)
            lo = r.below(ng); c = r.choice([1, 3, 4])
            for g in range(lo, min(ng, lo + r.range(1, 12))): cls[g] = c
        rec = {"num_glyphs": ng, "cmap": {0x41: min(1, ng - 1)}}
        if kind > 0:
            rec["gdef"] = {"mark_attach": att} if kind == 1 else {"classes": cls, "mark_attach": att}
            if r.chance(1, 4): rec["gdef"]["mark_sets"] = [sorted(cls)[:3]]
        items = ",".join(f"{g}:{cls.get(g, '-')}:{att.get(g, '-')}" for g in range(ng))
        lines.append(f"gdefprops {fontbuild.build(rec).hex()} {items}")
    return lines


def classify_gdef_props(ln, out):
    ks = set()
    for it in ln.split()[2].split(","):
        g, c, a = it.split(":")
        ks.add("class:" + c)
        if c == "3": ks.add("mark-attach:" + a)
    return sorted(ks)


def classify_poscx(ln, out):
    q = ln.split()
    its = [x.split(".") for x in q[9].split(",")]
    ks = ["dir:" + q[4], "flags:" + q[5], "amount:" + ("0" if q[8] == "0" else "nonzero"), "ptem:" + ("none" if q[3] == "-" else "set")]
    if any(int(p) & 0x20 and not int(p) & 0x80 and o == "1" for _, p, _, o in its): ks.append("tracked-starter-ignorable")
    if any(int(p) & 0x20 and int(p) & 0x80 for _, p, _, o in its): ks.append("continuation-ignorable")
    if any(int(g) & 8 for _, _, g, _ in its): ks.append("gdef-mark")
    return ks


def replay(shim, rp):
    reg = [f"font F {rp['font_hex']}"] if "font_hex" in rp else [f"fontfile F {os.path.join(vlib.REPO, rp['fontfile'])} 0"]
    o = vlib.run_groups(shim, [reg + [rp["request"]]], nproc=1)[0]
    print("request :", rp["request"]); print("reply   :", o[1]); print("recorded:", rp.get("reply"))
    return 0 if o[1] != rp.get("reply") else 1
