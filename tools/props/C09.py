"""C09 — normalization picks composed/decomposed forms per font support (and the normalizer part of C08)."""
import os, struct, sys, unicodedata
import vlib
import _lattice as L

sys.path.insert(0, os.path.join(os.path.dirname(os.path.dirname(os.path.abspath(__file__))), "gens"))

MODULE = "RbModel.Props.C09"
LEVEL = "proof"

# ------------------------------------------------------------------------------------------------
# minimal sfnt with one cmap format-12 subtable (3,10): head/hhea/maxp/hmtx/cmap is what ttf-parser needs


def _sfnt(tables):
    tags = sorted(tables)
    n = len(tags)
    es = 0
    while (1 << (es + 1)) <= n:
        es += 1
    sr = (1 << es) * 16
    out = struct.pack(">IHHHH", 0x00010000, n, sr, es, n * 16 - sr)
    off = 12 + 16 * n
    body = b""
    for t in tags:
        d = tables[t]
        pad = (-len(d)) % 4
        out += struct.pack(">4sIII", t.encode(), 0, off, len(d))
        body += d + b"\0" * pad
        off += len(d) + pad
    return out + body


_HEAD = struct.pack(">IIIIHHqqhhhhHHhhh", 0x00010000, 0x00010000, 0, 0x5F0F3CF5, 0, 1000, 0, 0, 0, 0, 1000, 1000, 0, 8, 2, 0, 0)
_HHEA = struct.pack(">IhhhHhhhhhhhhhhhH", 0x00010000, 800, -200, 0, 1000, 0, 0, 1000, 1, 0, 0, 0, 0, 0, 0, 0, 1)


def build_font(groups, uvs=None):
    """groups: sorted, disjoint (start, end, start_gid); glyph = start_gid + (c - start).
    uvs: None | [(base, selector, gid | None)] -> an additional cmap format 14 subtable (0,5); gid None = default
    UVS entry (the variant is the nominal glyph of the base)."""
    ng = 1
    for s, e, g in groups:
        ng = max(ng, min(65535, g + (e - s) + 1))
    # the glyph count only sizes hmtx; neither ttf-parser's cmap lookup nor get_nominal_glyph compares a
    # glyph id with it (the face is probed against the cmap spec by the `norm run` request), so keep the
    # fonts of the "everything but ..." patterns small
    ng = min(ng, 300)
    maxp = struct.pack(">IH", 0x00005000, ng)
    hmtx = struct.pack(">Hh", 600, 0) + b"\0\0" * (ng - 1)
    sub = struct.pack(">HHIII", 12, 0, 16 + 12 * len(groups), 0, len(groups))
    for s, e, g in groups:
        sub += struct.pack(">III", s, e, g)
    if uvs:
        import fontbuild
        sub14 = fontbuild._cmap_subtable({"format": 14, "uvs": [list(u) for u in uvs]})
        cmap = struct.pack(">HHHHIHHI", 0, 2, 0, 5, 20, 3, 10, 20 + len(sub14)) + sub14 + sub
    else:
        cmap = struct.pack(">HHHHI", 0, 1, 3, 10, 12) + sub
    return _sfnt({"head": _HEAD, "hhea": _HHEA, "maxp": maxp, "hmtx": hmtx, "cmap": cmap})


def cmap_spec(groups):
    return ",".join(f"{s}-{e}:{g}" for s, e, g in groups) if groups else "-"


def uvs_spec(uvs):
    """the `uvs` token of `norm runv`: vs:d:lo:hi (default UVS range) | vs:n:cp:gid (non-default mapping)"""
    if not uvs:
        return "-"
    return ",".join(f"{v}:d:{c}:{c}" if g is None else f"{v}:n:{c}:{g}" for c, v, g in uvs)


def groups_from_set(cps, gid_of=None):
    """explicit support set -> one group per maximal run; gids are 1.. in code point order unless given"""
    cps = sorted(set(cps))
    groups = []
    gid = 1
    i = 0
    while i < len(cps):
        j = i
        while j + 1 < len(cps) and cps[j + 1] == cps[j] + 1:
            j += 1
        groups.append((cps[i], cps[j], gid))
        gid += j - i + 1
        i = j + 1
    return groups


def groups_all_but(holes):
    """every scalar value except `holes`; glyph ids repeat per 0x8000 block (1 + c % 0x8000)"""
    holes = set(holes)
    groups = []
    for blk in range(0, 0x110000, 0x8000):
        lo = blk
        hs = sorted(h for h in holes if blk <= h < blk + 0x8000)
        for h in hs + [blk + 0x8000]:
            if lo <= h - 1:
                groups.append((lo, h - 1, 1 + (lo - blk)))
            lo = h + 1
    return groups


def glyph_of(groups, c):
    for s, e, g in groups:
        if s <= c <= e:
            v = g + (c - s)
            return v if v < 65536 else None
    return None


# ------------------------------------------------------------------------------------------------
# Unicode data of the crate (for the generators) and of CPython (reference oracles)


class UData:
    def __init__(self, shim):
        import norm as gnorm
        d = gnorm.dump(shim)
        self.decomp = {}
        for t in d["decomp"].split():
            c, a, b = (int(x) for x in t.split(":"))
            self.decomp[c] = (a, b)
        self.comp = {}
        for t in d["comp"].split():
            k, c = (int(x) for x in t.split(":"))
            self.comp[(k >> 32, k & 0xFFFFFFFF)] = c
        self.mcc = {}
        for lo, hi, v in gnorm._ranges(d["mcc"]):
            for c in range(lo, hi + 1):
                self.mcc[c] = v
        self.ccc = {}
        for lo, hi, v in gnorm._ranges(d["ccc"]):
            for c in range(lo, hi + 1):
                self.ccc[c] = v
        self.marks = set()
        for lo, hi, v in gnorm._ranges(d["marks"]):
            self.marks.update(range(lo, hi + 1))
        self.vs = set()
        for lo, hi, v in gnorm._ranges(d["vs"]):
            self.vs.update(range(lo, hi + 1))
        self.di = [(lo, hi) for lo, hi, v in gnorm._ranges(d["di"])]
        self.hangul = [int(x) for x in d["hangul"].split()]
        self.max_marks = int(d["consts"].split()[0])

    def dec1(self, c):
        S, L, V, T, LC, VC, TC, NC, SC = self.hangul
        if S <= c < S + SC:
            si = c - S
            if si % TC:
                return (S + si // TC * TC, T + si % TC)
            return (L + si // NC, V + (si % NC) // TC)
        return self.decomp.get(c)

    def closure(self, c):
        """c and everything reachable through decomposition"""
        out, todo = [], [c]
        while todo:
            x = todo.pop()
            if x in out or x == 0:
                continue
            out.append(x)
            d = self.dec1(x)
            if d:
                todo += [d[0], d[1]]
        return out

    def full(self, c):
        d = self.dec1(c)
        if not d:
            return [c]
        return self.full(d[0]) + ([d[1]] if d[1] else [])


def assigned14(c):
    return unicodedata.category(chr(c)) != "Cn"


# ------------------------------------------------------------------------------------------------
# correspondence stream norm-run


def pools(U):
    dec = sorted(U.decomp)
    by_ccc = {}
    for c in sorted(U.marks):
        if c in U.vs:
            continue
        by_ccc.setdefault(U.mcc.get(c, 0), []).append(c)
    latin_marks = [c for c in range(0x300, 0x370) if c != 0x34F]
    starters_with_comp = sorted({a for (a, b) in U.comp})
    seconds = sorted({b for (a, b) in U.comp})
    return {
        "dec": dec, "by_ccc": by_ccc, "latin_marks": latin_marks, "starters": starters_with_comp,
        "seconds": seconds, "marks0": by_ccc.get(0, []),
        "enclosing": [c for c in by_ccc.get(0, []) if unicodedata.category(chr(c)) == "Me"],
        "special": [0x20, 0xA0, 0x1680, 0x2000, 0x2003, 0x2007, 0x200A, 0x202F, 0x205F, 0x3000, 0x2011, 0x2010,
                    0x34F, 0x200C, 0x200D, 0xAD, 0x180B, 0x180F, 0xE0020, 0x61C, 0x25CC, 0x7F, 0x80, 0x41, 0x61],
    }


def rand_char(r, P, U):
    k = r.below(16)
    if k < 3: return r.choice(P["dec"])
    if k < 5: return r.choice(P["starters"])
    if k < 8: return r.choice(P["seconds"])
    if k < 10: return r.choice(P["latin_marks"])
    if k == 10:
        ccc = r.choice(sorted(P["by_ccc"]))
        return r.choice(P["by_ccc"][ccc])
    if k == 11: return r.choice(P["special"])
    if k == 12: return 0xAC00 + r.below(11172) if r.chance(1, 2) else r.choice([0x1100 + r.below(19), 0x1161 + r.below(21), 0x11A7 + r.below(28)])
    if k == 13: return r.choice(P["marks0"])
    if k == 14: return r.choice([0x34F, 0x300, 0x323, 0x5B0 + r.below(0x10), 0x64B + r.below(8), 0xE38, 0xE48, 0xF71, 0xF72, 0xF74])
    c = r.below(0x3000)
    return c


def rand_text(r, P, U):
    k = r.below(10)
    if k == 0:
        n = 1
    elif k < 7:
        n = r.range(2, 7)
    elif k < 9:
        n = r.range(8, 16)
    else:
        n = r.range(30, 40)
    t = []
    if k == 9:
        # long mark run around MAX_COMBINING_MARKS
        t.append(r.choice(P["starters"]))
        m = r.choice([U.max_marks - 1, U.max_marks, U.max_marks + 1, U.max_marks + 2])
        pool = [r.choice(P["latin_marks"]) for _ in range(3)] + [0x323, 0x301]
        t += [r.choice(pool) for _ in range(m)]
        t += [rand_char(r, P, U) for _ in range(r.below(3))]
    else:
        while len(t) < n:
            q = r.below(6)
            if q == 0:
                t.append(rand_char(r, P, U))
            elif q < 4:
                # a pair that composes, possibly with marks in between
                a, b = r.choice(P["pairs"])
                t.append(a)
                for _ in range(r.below(3)):
                    q2 = r.below(6)
                    t.append(r.choice(P["latin_marks"] + [0x34F]) if q2 < 3 else
                             r.choice(P["enclosing"]) if q2 == 3 else
                             r.choice(P["marks0"]) if q2 == 4 else rand_char(r, P, U))
                t.append(b)
            else:
                t.append(r.choice(P["dec"]))
                for _ in range(r.below(3)):
                    t.append(r.choice(P["seconds"]))
    t = [c for c in t if c not in U.vs and not (0xD800 <= c <= 0xDFFF)]
    t = t or [0x41]
    if r.chance(1, 8):
        # the buffer BEGINS with a mark run (no base in front): 2..5 marks of drawn classes, in no particular order
        lead = []
        for _ in range(r.range(2, 5)):
            if r.chance(1, 2):
                lead.append(r.choice(P["latin_marks"]))
            else:
                lead.append(r.choice(P["by_ccc"][r.choice(sorted(P["by_ccc"]))]))
        t = [c for c in lead if c not in U.vs] + t
    if r.chance(2, 5):
        t = add_selectors(r, t, U, P)
    return t


VS_POOL = [0xFE00, 0xFE01, 0xFE0E, 0xFE0F, 0xE0100, 0xE0101, 0xE01EF]


def vs_run(r, lo=1):
    """one selector, or several consecutive ones"""
    n = r.choice([1, 1, 1, 2, 2, 3]) if lo == 1 else r.choice([2, 2, 3])
    return [r.choice(VS_POOL) for _ in range(n)]


def add_selectors(r, t, U, P):
    """variation selectors at the places the normalizer distinguishes: after a base, after a mark / inside a mark
    run, at the end of a mark run, at the very start, and in a LATER unrelated cluster of the same text (the clusters
    before it must be normalized as if it were not there)"""
    t = list(t)
    marks = [i for i, c in enumerate(t) if c in U.marks]
    bases = [i for i, c in enumerate(t) if c not in U.marks]
    for _ in range(r.choice([1, 1, 2, 3])):
        k = r.below(8)
        if k < 2 and bases:                       # after a base
            i = r.choice(bases)
            t[i + 1:i + 1] = vs_run(r)
        elif k < 4 and marks:                     # after a mark (inside or at the end of a mark run)
            i = r.choice(marks)
            t[i + 1:i + 1] = vs_run(r)
        elif k == 4:                              # at the start of the buffer
            t[0:0] = vs_run(r)
        elif k == 5:                              # a later unrelated cluster: base + selector(s) [+ mark]
            t += [r.choice([0x78, 0x4E00, 0x2205, 0x41])] + vs_run(r) + ([r.choice(P["latin_marks"])] if r.chance(1, 3) else [])
        elif k == 6:                              # a later cluster: base + mark + selector
            t += [r.choice([0x78, 0x61, 0xE1])] + [r.choice(P["latin_marks"])] + vs_run(r)
        else:                                     # a later simple character, then a lone base + selector at the end
            t += [0x20, r.choice([0x78, 0x2205])] + vs_run(r)
        marks = [i for i, c in enumerate(t) if c in U.marks]
        bases = [i for i, c in enumerate(t) if c not in U.marks]
    return t


def rand_uvs(r, text, U):
    """cmap format 14 content relevant to `text`: none, or default / non-default entries for some of the
    (character, selector) pairs that occur adjacently (and a few that do not)"""
    sel = [c for c in text if c in U.vs]
    if not sel or r.chance(2, 5):
        return None
    pairs = []
    for i in range(len(text) - 1):
        if text[i + 1] in U.vs and (text[i], text[i + 1]) not in pairs:
            pairs.append((text[i], text[i + 1]))
    # (selector, selector) and (non-adjacent base, selector) pairs keep the binary searches honest
    extra = [(r.choice(text), r.choice(sel)) for _ in range(2)]
    out = {}
    for c, v in pairs + extra:
        if c >= 0x1000000 or not r.chance(3, 4):
            continue
        out[(c, v)] = None if r.chance(1, 3) else 300 + r.below(200)
    return [(c, v, g) for (c, v), g in sorted(out.items())] or None


def rand_clusters(r, text, U):
    k = r.below(5)
    n = len(text)
    if k == 0:
        return list(range(n))
    if k == 1:
        out, cur = [], 0
        for i, c in enumerate(text):
            if not (c in U.marks and i > 0):
                cur = i
            out.append(cur)
        return out
    if k == 2:
        return [7] * n
    if k == 3:
        out, cur = [], 0
        for i in range(n):
            if r.chance(1, 2):
                cur += r.range(1, 3)
            out.append(cur)
        return out
    out, cur = [], 3 * n
    for i in range(n):
        if r.chance(2, 3):
            cur -= r.range(1, 3)
        out.append(cur)
    return out


def rand_support(r, text, U):
    """format-12 groups for a support pattern relevant to `text`"""
    rel = []
    for c in text:
        for x in U.closure(c):
            if x not in rel:
                rel.append(x)
    # compositions of adjacent-ish pairs are relevant too
    extra = []
    for i, a in enumerate(text):
        for b in text[i + 1:i + 4]:
            for x in U.closure(a)[:3]:
                c = U.comp.get((x, b))
                if c is not None:
                    extra.append(c)
    rel += [c for c in extra if c not in rel]
    rel += [0x20, 0x2010]
    k = r.below(9)
    if k in (0, 8):
        return groups_all_but([])
    if k == 1:
        return [] if r.chance(1, 3) else groups_all_but([c for c in rel if r.chance(1, 6)])
    p = r.choice([1, 2, 3, 3])
    chosen = [c for c in rel if r.below(4) < p]
    if k < 5:
        return groups_all_but([c for c in rel if c not in chosen])
    return groups_from_set(chosen)


def run_line(mode, level, inv, groups, text, clusters, masks, uvs=None, nfvs=None):
    f = build_font(groups, uvs)
    t = ",".join(f"{c}:{cl}:{m}" for c, cl, m in zip(text, clusters, masks))
    return (f"norm runv {mode} {level} {inv if inv is not None else '-'} {nfvs if nfvs is not None else '-'} "
            f"{f.hex()} {cmap_spec(groups)} {uvs_spec(uvs)} {t}")


def gen_run_lines(r, n, U):
    P = pools(U)
    P["pairs"] = sorted(U.comp)
    lines = []
    for _ in range(n):
        text = rand_text(r, P, U)
        groups = rand_support(r, text, U)
        clusters = rand_clusters(r, text, U)
        mk = r.below(4)
        masks = [0] * len(text) if mk < 2 else [r.choice([0, 1, 2, 3, 7, 0x80000000, 0x80000005]) for _ in text]
        mode = r.choice([0, 1, 2, 2, 3, 4, 4])
        inv = r.choice([None, None, None, 3])
        uvs = rand_uvs(r, text, U)
        nfvs = r.choice([None, None, 5]) if any(c in U.vs for c in text) else None
        lines.append(run_line(mode, r.below(2), inv, groups, text, clusters, masks, uvs, nfvs))
    return lines


# ------------------------------------------------------------------------------------------------
# correspondence stream norm-run-shaper: the normalizer under a shaper record that has a `reorder_marks` callback
# (hook verif::normalize::normalize_shaper, model NormMarks.lean); added after the seeded change C01h

MODELLED_SHAPERS = ["arabic", "default"]      # the records Drv/NormMarks.lean carries; the others answer `unmodelled`


def shaper_marks(shim, U):
    """marks the callback distinguishes, read from the crate: the modifier combining marks (`normsh consts`), the other
    marks of the two classes it scans for, marks of smaller / larger classes (crate's modified classes)"""
    t = vlib.run_lines(shim, ["normsh consts"], nproc=1)[0].split()
    cc = [int(t[0]), int(t[2])]
    mods = [int(x) for x in t[5].split(",")]
    arab = [c for c in sorted(U.marks) if (0x600 <= c <= 0x6FF or 0x8A0 <= c <= 0x8FF or 0x700 <= c <= 0x74F) and c not in U.vs]
    return {"cc": cc, "mods": mods, "cap": int(t[4]),
            "mods_by": {k: [m for m in mods if U.mcc.get(m, 0) == k] for k in cc},
            "same": {k: [c for c in arab + [0x301, 0x323, 0x300, 0x331] if U.mcc.get(c, 0) == k and c not in mods] for k in cc},
            "lower": [c for c in arab if 0 < U.mcc.get(c, 0) < cc[0]],
            "between": [c for c in sorted(U.marks) if cc[0] < U.mcc.get(c, 0) < cc[1] and c < 0x3000][:8],
            "higher": [c for c in sorted(U.marks) if U.mcc.get(c, 0) > cc[1] and c < 0x3000][:4],
            "zero": [c for c in arab if U.mcc.get(c, 0) == 0][:6] + [0x34F],
            "bases": [0x628, 0x627, 0x644, 0x710, 0x61, 0x20, 0x25CC, 0x622]}


def shaper_text(r, M, U):
    """one or more base + mark-run clusters aimed at reorder_marks: runs of modifier marks of one class — short, and of 31..34
    (around the cap) — after marks of lower classes, mixed with non-modifier marks of the same class, both classes in one
    run, marks of other classes in between; the run at the very start of the buffer; several runs"""
    t = []
    for _ in range(r.choice([1, 1, 1, 2, 3])):
        if not (not t and r.chance(1, 6)):
            t.append(r.choice(M["bases"]))
        run = []
        k = r.below(10)
        near_cap = k >= 7
        total = r.choice([M["cap"] - 1, M["cap"], M["cap"] + 1, M["cap"] + 2]) if near_cap else r.range(1, 9)
        for c in (M["cc"] if r.chance(2, 3) else [r.choice(M["cc"])]):
            pool = M["mods_by"].get(c) or M["mods"]
            n = total if near_cap and r.chance(1, 2) else r.range(0, min(total, 6))
            pat = r.below(4)
            for j in range(n):
                if pat == 0: run.append(pool[0])
                elif pat == 1: run.append(r.choice(pool))
                elif pat == 2: run.append(r.choice(pool) if r.chance(4, 5) else r.choice(M["same"][c] or pool))
                else: run.append(r.choice(pool + M["same"][c]))
        extra = []
        for _ in range(r.below(4)):
            q = r.below(8)
            extra.append(r.choice(M["lower"]) if q < 3 and M["lower"] else r.choice(M["between"]) if q == 3 and M["between"] else
                         r.choice(M["higher"]) if q == 4 and M["higher"] else r.choice(M["zero"]) if q == 5 else
                         r.choice(M["mods"]))
        k2 = r.below(4)
        if k2 == 0: run = extra + run
        elif k2 == 1: run = run + extra
        elif k2 == 2: run = r.shuffle(run + extra)
        while near_cap and len(run) > total and r.chance(1, 2):
            run.pop()
        if near_cap and len(run) < total:
            run += [r.choice(M["mods"]) for _ in range(total - len(run))]
        t += run
    return [c for c in t if c not in U.vs] or [0x628, M["mods"][0]]


def gen_shaper_run_lines(r, n, U, shim):
    M = shaper_marks(shim, U)
    lines = []
    for _ in range(n):
        text = shaper_text(r, M, U)
        if r.chance(1, 10):
            text = add_selectors(r, text, U, pools(U))
        groups = rand_support(r, text, U)
        clusters = rand_clusters(r, text, U)
        masks = [0] * len(text) if r.chance(1, 2) else [r.choice([0, 1, 2, 3, 7, 0x80000000, 0x80000005]) for _ in text]
        uvs = rand_uvs(r, text, U)
        f = build_font(groups, uvs)
        tt = ",".join(f"{c}:{cl}:{m}" for c, cl, m in zip(text, clusters, masks))
        sh = r.choice(["arabic"] * 5 + ["default"])
        lines.append(f"normsh run {sh} {r.below(2)} {r.below(2)} {r.choice(['-', '-', '3'])} - {f.hex()} {cmap_spec(groups)} "
                     f"{uvs_spec(uvs)} {tt}")
    return lines


def canon_shaper_run(x):
    return "panic" if x.startswith("panic") else x


def classify_shaper_run(ln, out):
    t = ln.split()
    ks = ["shaper:" + t[2], "reply:" + out.split()[0]]
    inp = [x[0] for x in parse_text_tok(t[10])]
    best = cur = 0
    for c in inp:
        cur = cur + 1 if unicodedata.combining(chr(c)) else 0
        best = max(best, cur)
    ks.append("longest-mark-run:" + ("1-8" if best <= 8 else "9-30" if best <= 30 else str(best) if best <= 34 else ">34"))
    if out.startswith("ok"):
        # a mark whose class is one of the two the callback renumbers to (no input mark of this stream has them)
        his = {x.split(":")[5] for x in out.split()[3:] if x.split(":")[4] == "1"}
        if his & {"25", "26"} and t[2] != "default": ks.append("callback-moved-a-run")
    return ks


def promote_shaper_disagreements(ctx, shim, dis, limit):
    """a `norm-run-shaper` request on which the crate PANICS is handed to shape() under a script of that shaper (asked from
    the crate) on the request's own font: a panic there is a failing input of the property"""
    cands = [d for d in dis if d["impl"].startswith("panic")][:limit]
    n = bad = 0
    if cands:
        tags = ["Arab", "Syrc", "Hebr", "Latn"]
        names = vlib.run_lines(shim, [f"shaper {int.from_bytes(t.encode(), 'big')} 1 -" for t in tags], nproc=1)
        for d in cands:
            t = d["request"].split()
            tag = next((tg for tg, nm in zip(tags, names) if nm == t[2]), None)
            if tag is None:
                continue
            text = [x[0] for x in parse_text_tok(t[10])]
            grp = [f"font p {t[7]}", f"shape p r {tag} - 0 {t[4]} - - - " + ",".join(f"{c:x}:{i}" for i, c in enumerate(text))]
            o = vlib.run_groups(shim, [grp], nproc=1)[0]
            n += 1
            reply = o[1] if len(o) > 1 else "abort"
            if not reply.startswith("ok"):
                bad += 1
                if bad <= 2:
                    ctx.violation(f"normalization panics: text {['%04X' % c for c in text]} under the {t[2]} shaper (script {tag}): "
                                  f"{reply[:160]}",
                                  {"stage": "search", "stream": "promoted-norm-run-shaper", "font_line": grp[0], "request": grp[1],
                                   "hook_request": d["request"], "observed": reply[:300]})
    ctx.note_search("promoted-norm-run-shaper", n, n, deviations=bad, disagreements=len(dis),
                    rule="norm-run-shaper requests on which the crate panics, handed to shape() with the script of that shaper on "
                         "the request's own font; oracle: shape() returns")


def parse_text_tok(tok):
    return [tuple(int(x) for x in t.split(":")) for t in tok.split(",")]


def classify_run(ln, out):
    t = ln.split()
    ks = ["mode" + t[2]]
    if not out.startswith("ok"):
        return ks + ["reply:" + out.split()[0]]
    ttok = t[9] if t[1] == "runv" else t[7]
    inp = [x[0] for x in parse_text_tok(ttok)]
    vs_at = [i for i, c in enumerate(inp) if 0xFE00 <= c <= 0xFE0F or 0xE0100 <= c <= 0xE01EF]
    if vs_at:
        ks.append("vs")
        if any(j + 1 in vs_at for j in vs_at): ks.append("vs:consecutive")
        if vs_at[-1] == len(inp) - 1: ks.append("vs:at-end")
        if vs_at[0] == 0: ks.append("vs:at-start")
        if any(unicodedata.category(chr(inp[j - 1])).startswith("M") and j - 1 not in vs_at for j in vs_at if j): ks.append("vs:after-mark")
        # a base + marks cluster without a selector that precedes a selector
        first = vs_at[0]
        b = first
        while b > 0 and unicodedata.category(chr(inp[b])).startswith("M"): b -= 1
        if any(unicodedata.category(chr(inp[j])).startswith("M") for j in range(1, b)): ks.append("vs:later-than-a-mark-cluster")
        if t[1] == "runv":
            if t[8] != "-": ks.append("vs:font-has-format14")
            if t[5] != "-": ks.append("vs:not-found-glyph-set")
            fl = int(out.split()[2])
            if fl & 128: ks.append("vs:fallback-flag")
    o = out.split()
    recs = [tuple(int(x) for x in z.split(":")) for z in o[3:]]
    outc = [x[0] for x in recs]
    if outc == inp:
        ks.append("unchanged")
    elif len(outc) > len(inp):
        ks.append("longer")
    elif len(outc) < len(inp):
        ks.append("shorter")
    elif sorted(outc) == sorted(inp):
        ks.append("reordered")
    else:
        ks.append("same-length-changed")
    if any(x[3] == 0 for x in recs):
        ks.append("has-notdef")
    if len(inp) == 1:
        ks.append("single")
    if len(inp) > 32:
        ks.append("len>32")
    if len(inp) > 1:
        try:
            if unicodedata.combining(chr(inp[0])) and unicodedata.combining(chr(inp[1])):
                ks.append("leading-mark-run")
                if unicodedata.combining(chr(inp[0])) > unicodedata.combining(chr(inp[1])):
                    ks.append("leading-mark-run:out-of-order")
        except ValueError:
            pass
    for j in range(1, len(inp) - 1):
        try:
            ch, nx = chr(inp[j]), chr(inp[j + 1])
        except ValueError:
            continue
        if unicodedata.category(ch).startswith("M") and unicodedata.combining(ch) == 0 and not (j in vs_at) \
                and unicodedata.category(nx).startswith("M") and unicodedata.combining(nx) != 0:
            ks.append("class-0-mark-before-mark:" + unicodedata.category(ch))
            break
    fl = int(o[2])
    if fl & 4: ks.append("space-fallback")
    if fl & 16: ks.append("cgj")
    if any(x[7] == 0 and x[0] == 0x34F for x in recs): ks.append("cgj-unhidden")
    if len(set(x[1] for x in recs)) < len(set(x[1] for x in parse_text_tok(ttok))): ks.append("clusters-merged")
    if vs_at and len([c for c in outc if 0xFE00 <= c <= 0xFE0F or 0xE0100 <= c <= 0xE01EF]) < len(vs_at): ks.append("vs:absorbed-by-variant")
    return ks


def prim_lines(U, r, n, full=False):
    lines = []
    # every row of both tables, Hangul borders, and random pairs
    for c in sorted(U.decomp):
        lines.append(f"norm decompose {c}")
    for (a, b) in sorted(U.comp):
        lines.append(f"norm compose {a} {b}")
    S, L, V, T, LC, VC, TC, NC, SC = U.hangul
    for c in [S - 1, S, S + 1, S + TC - 1, S + TC, S + SC - 1, S + SC, L, V, T, 0, 0x10FFFF, 0xD7FF, 0xE000]:
        lines.append(f"norm decompose {c}")
        lines.append(f"norm props {c}")
    for a in [L - 1, L, L + LC - 1, L + LC, S, S + TC, S + SC - TC, S + SC - 1, S + 1]:
        for b in [V - 1, V, V + VC - 1, V + VC, T - 1, T, T + 1, T + TC - 1, T + TC]:
            lines.append(f"norm compose {a} {b}")
    # decomposition chain depth over the whole code space (the model's recursion budget must suffice)
    step = 0x2000 if full else 0x110000
    for lo in (range(0, 0x110000, step) if full else [0, 0xAC00, 0x1D100, 0x2F800]):
        lines.append(f"norm depth {lo} {min(lo + (step if full else 0x2FFF), 0x110000) - 1}")
    P = pools(U)
    for _ in range(n):
        k = r.below(4)
        if k == 0:
            lines.append(f"norm compose {r.choice(P['starters'])} {r.choice(P['seconds'])}")
        elif k == 1:
            c = r.below(0x110000)
            if 0xD800 <= c <= 0xDFFF: c = 0x41
            lines.append(f"norm props {c}")
        elif k == 2:
            c = r.below(0x30000)
            if 0xD800 <= c <= 0xDFFF: c = 0x41
            lines.append(f"norm decompose {c}")
        else:
            lines.append(f"norm compose {S + r.below(SC)} {T + r.below(TC)}" if r.chance(1, 2)
                         else f"norm compose {L + r.below(LC)} {V + r.below(VC)}")
    return lines


# ------------------------------------------------------------------------------------------------
# search: end to end through shape() (public API) against the CPython reference


def ref_tables():
    """one-step canonical mappings and primary composites of CPython's unicodedata"""
    dec, comp = {}, {}
    for c in range(0x110000):
        if 0xD800 <= c <= 0xDFFF or 0xAC00 <= c < 0xAC00 + 11172:
            continue
        dm = unicodedata.decomposition(chr(c))
        if not dm or dm.startswith("<"):
            continue
        parts = [int(x, 16) for x in dm.split()]
        dec[c] = (parts[0], parts[1] if len(parts) == 2 else 0)
        if len(parts) == 2 and unicodedata.normalize("NFC", chr(parts[0]) + chr(parts[1])) == chr(c):
            comp[(parts[0], parts[1])] = c
    return dec, comp


def nfd(text):
    return [ord(x) for x in unicodedata.normalize("NFD", "".join(chr(c) for c in text))]


def nfc_restricted(text, supported, RC):
    """UAX #15 composition of NFD(text) where a primary composite may only be formed if `supported`;
    with supported = everything this is NFC (asserted by the caller on a sample)"""
    d = nfd(text)
    if not d:
        return d
    out = [d[0]]
    starter = 0
    for c in d[1:]:
        cc = unicodedata.combining(chr(c))
        is_mark = unicodedata.category(chr(c)).startswith("M")
        last_cc = unicodedata.combining(chr(out[-1]))
        if is_mark and (starter == len(out) - 1 or last_cc < cc):
            comp = RC.get((out[starter], c))
            if comp is not None and supported(comp):
                out[starter] = comp
                continue
        out.append(c)
        if cc == 0:
            starter = len(out) - 1
    return out


def shape_line(fid, text, flags=0, extra=""):
    t = ",".join(f"{c:x}:{i}" for i, c in enumerate(text))
    return f"shape {fid} l Latn - {flags} 0 - - - {t}{extra}"


def parse_shape(out):
    if not out.startswith("ok"):
        return None
    return [int(g.split(":")[0]) for g in out.split()[2:]]


def search_singles(ctx, shim, U, RD, stride):
    """every character with a canonical decomposition x 3 support variants"""
    chars = [c for c in sorted(U.decomp)]
    chars = chars[::stride]
    groups, meta = [], []
    for c in chars:
        clo = U.closure(c)
        full = U.full(c)
        a, b = U.decomp[c]
        variants = [
            ("all", sorted(set(clo)), [c]),
            ("not-self", sorted(set(clo) - {c}), None),
            ("leaves", sorted(set(full)), full),
        ]
        for name, sup, expect in variants:
            if not sup:
                continue
            if expect is None:
                # shortest decomposition whose pieces the font has: with every piece but c itself supported
                # that is the one-step mapping
                expect = [a] + ([b] if b else [])
            g = groups_from_set(sup)
            groups.append([f"font s {build_font(g).hex()}", shape_line("s", [c])])
            meta.append((c, name, g, expect))
    outs = vlib.run_groups(shim, groups, timeout=900)
    n = nontriv = bad = 0
    dist = {}
    for (c, name, g, expect), o, grp in zip(meta, outs, groups):
        n += 1
        got = parse_shape(o[1])
        want = [glyph_of(g, x) for x in expect]
        dist[name] = dist.get(name, 0) + 1
        if name != "all":
            nontriv += 1
        ok = got == want
        why = "shape() disagrees with the crate's own table"
        # reference: the expectation itself must agree with CPython for characters it knows
        if assigned14(c):
            if name == "not-self" and RD.get(c) != (U.decomp[c]):
                ok = False
                why = f"the crate's mapping differs from CPython's {RD.get(c)}"
            if name == "leaves" and nfd([c]) != expect:
                ok = False
                why = f"the crate's full decomposition differs from CPython's NFD {['%04X' % x for x in nfd([c])]}"
        if not ok:
            bad += 1
            ctx.violation(f"single U+{c:04X} ({name} supported): shape() gave glyphs {got}, expected {want} "
                          f"(chars {['%04X' % x for x in expect]}); {why}",
                          {"stage": "search", "stream": "singles", "font_line": grp[0], "request": grp[1],
                           "expected_glyphs": want, "observed": o[1], "variant": name, "char": c})
    ctx.note_search("singles", n, nontriv, distribution=dist, stride=stride,
                    rule="every character of the crate's decomposition table (stride in quick) shaped alone with a "
                         "cmap-only font supporting (all) its whole decomposition closure, (not-self) the closure "
                         "without the character, (leaves) only its full decomposition; expected [c] / the one-step "
                         "mapping / NFD(c); for characters assigned in CPython's Unicode the expectation is "
                         "cross-checked against unicodedata; non-trivial = the two variants that decompose")


def lgc_material(U, RD, RC):
    """Latin/Greek/Cyrillic starters and the marks they compose with (reference data, Unicode 14)"""
    def lgc(c):
        try:
            n = unicodedata.name(chr(c))
        except ValueError:
            return False
        return n.startswith(("LATIN", "GREEK", "CYRILLIC"))
    starters, marks = set(), set()
    for (a, b), c in RC.items():
        if lgc(a) and unicodedata.combining(chr(b)) != 0 and b < 0x10000:
            starters.add(a)
            marks.add(b)
    return sorted(starters), sorted(marks)


def search_strings(ctx, shim, U, RD, RC, r, n_starters, kmax_exh, n_random):
    starters, marks = lgc_material(U, RD, RC)
    Zc, zsec = zero_marks(U)
    # class-0 marks that neither decompose nor are the second component of a composition
    # (and are not default ignorable: these texts are shaped with the default flags)
    Z0 = {cat: [c for c in cs if c not in U.decomp and c not in zsec and c not in RD and not is_di(U, c)]
          for cat, cs in Zc.items()}
    # composites reachable from a base letter
    by_base = {}
    for c in RD:
        if 0xD800 <= c <= 0xDFFF:
            continue
        f = nfd([c])
        if all(x in marks for x in f[1:]) and len(f) > 1:
            by_base.setdefault(f[0], []).append(c)
    chosen = starters if n_starters >= len(starters) else r.sample(starters, n_starters)
    groups, meta = [], []
    # self-check of the reference implementation: with everything supported it is NFC
    for s in chosen[:50]:
        for m1 in marks[:8]:
            for m2 in marks[:8]:
                t = [s, m1, m2]
                assert nfc_restricted(t, lambda c: True, RC) == [ord(x) for x in unicodedata.normalize("NFC", "".join(map(chr, t)))]
    for s in chosen:
        base = nfd([s])[0]
        comps = sorted(set(by_base.get(base, [])) | {s})
        leaves = sorted({base} | set(marks))
        texts = [[s]]
        for k in range(1, kmax_exh + 1):
            idx = [0] * k
            while True:
                texts.append([s] + [marks[i] for i in idx])
                j = k - 1
                while j >= 0:
                    idx[j] += 1
                    if idx[j] < len(marks):
                        break
                    idx[j] = 0
                    j -= 1
                if j < 0:
                    break
        zs = set()
        for _ in range(n_random):
            k = r.range(kmax_exh + 1, 4) if kmax_exh < 4 else 4
            t = [s] + [r.choice(marks) for _ in range(k)]
            if r.chance(1, 3):
                # a mark of combining class 0 (Mn / Me / Mc) somewhere in the run: it ends the reordering run and
                # blocks composition with the starter for everything after it
                z = draw_zero(r, Z0, cgj=False)
                t.insert(r.range(1, len(t)), z)
                zs.add(z)
            texts.append(t)
        leaves = sorted(set(leaves) | zs)
        half = [c for c in comps if r.chance(1, 2)]
        # the same texts followed by a LATER unrelated cluster `x + variation selector(s)`: the starter + marks
        # before it must come out as without it (PRESERVE_DEFAULT_IGNORABLES, so the selectors stay visible)
        later = [(t, [0x78] + vs_run(r)) for t in texts if len(t) > 1 and r.chance(1, 6)]
        ctx_chars = [0x78] + VS_POOL
        for vname, sup in (("all", sorted(set(leaves) | set(comps))), ("leaves", leaves),
                           ("half", sorted(set(leaves) | set(half)))):
            g = groups_from_set(sorted(set(sup) | set(ctx_chars)))
            supset = set(sup)
            lines = [f"font t {build_font(g).hex()}"] + [shape_line("t", t) for t in texts] + \
                    [shape_line("t", t + sfx, flags=4) for t, sfx in later]
            groups.append(lines)
            meta.append((vname, g, supset, texts, later))
    outs = vlib.run_groups(shim, groups, timeout=1800)
    n = nontriv = nbad = 0
    dist = {}
    for (vname, g, supset, texts, later), o, grp in zip(meta, outs, groups):
        inv = {}
        for s_, e_, g_ in g:
            for c in range(s_, e_ + 1):
                inv[g_ + (c - s_)] = c
        cases = [(t, []) for t in texts] + later
        for (t, sfx), out, ln in zip(cases, o[1:], grp[1:]):
            n += 1
            got = parse_shape(out)
            if len(t) == 1:
                # one-character buffers are not normalized when the font has the character
                expect = t if t[0] in supset else nfc_restricted(t, lambda c: c in supset, RC)
            else:
                expect = nfc_restricted(t, lambda c: c in supset, RC)
            if vname == "leaves" and len(t) > 1:
                assert expect == nfd(t)
            expect = expect + sfx
            t = t + sfx
            want = [glyph_of(g, c) for c in expect]
            key = f"{vname}:{len(t) - 1 - len(sfx)}marks" + (":later-selector-cluster" if sfx else "") + \
                  (":with-class-0-mark" if any(c in U.marks and U.mcc.get(c, 0) == 0 for c in t[1:len(t) - len(sfx)]) else "")
            dist[key] = dist.get(key, 0) + 1
            if expect != t:
                nontriv += 1
            if got != want:
                nbad += 1
                if nbad > 3:
                    continue
                gotc = [inv.get(x, 0) for x in (got or [])]
                ctx.violation(f"{vname}: text {['%04X' % c for c in t]} shaped to {['%04X' % c for c in gotc]}, "
                              f"reference (NFC restricted to the font's characters) {['%04X' % c for c in expect]}",
                              {"stage": "search", "stream": "strings", "font_line": grp[0], "request": ln,
                               "expected_glyphs": want, "observed": out, "variant": vname})
    ctx.note_search("strings", n, nontriv, distribution=dist, starters=len(chosen), marks=len(marks), deviations=nbad,
                    rule="Latin/Greek/Cyrillic starter (every first component of a primary composite) + all strings of "
                         f"0..{kmax_exh} marks (the {len(marks)} BMP second components) + random longer ones up to 4 (one in "
                         "three with a mark of class 0 and category Mn / Me / Mc inserted anywhere after the starter), shaped "
                         "with cmap-only fonts: (all) every composite of the base letter, (leaves) base letters and marks "
                         "only, (half) a random half of the composites; expected = UAX #15 composition over CPython "
                         "data restricted to supported composites (= NFC / NFD for all / leaves); one text in six is "
                         "shaped again followed by a later unrelated cluster x + 1..3 variation selectors (the font has "
                         "their glyphs, PRESERVE_DEFAULT_IGNORABLES): same expectation, then x and the selectors; "
                         "non-trivial = expected differs from the input")


def zero_marks(U):
    """marks (general category Mn / Me / Mc) of canonical combining class 0 — starters that the normalizer puts into
    the cluster of the preceding base: enclosing marks, U+034F, spacing and non-spacing vowel signs ... — on which
    the crate and CPython agree (category M*, class 0, modified class 0); variation selectors excluded.
    -> {category: [chars]} and the set of those that are second components of a composition"""
    by_cat = {}
    for c in sorted(U.marks):
        if c in U.vs or U.mcc.get(c, 0) != 0 or U.ccc.get(c, 0) != 0:
            continue
        if not assigned14(c):
            continue
        cat = unicodedata.category(chr(c))
        if not cat.startswith("M") or unicodedata.combining(chr(c)) != 0:
            continue
        # U+0C48 decomposes to U+0C46 U+0C56; U+0C56 (class 91) and U+0C55 (84) have the modified class 0 on purpose
        # (C09_mcc_classes (4), as in HarfBuzz), so they are not reordered as the reference would: out of scope here
        # as in the reorder search
        if any(U.ccc.get(x, 0) != 0 and U.mcc.get(x, 0) == 0 for x in U.full(c)):
            continue
        by_cat.setdefault(cat, []).append(c)
    seconds = {b for (a, b) in U.comp}
    return by_cat, seconds


def draw_zero(r, Z, cgj=True):
    """one ccc-0 mark: the three categories equally often (Me has 13 characters, Mn / Mc hundreds); U+034F often"""
    k = r.below(7)
    if k == 0 and cgj:
        return 0x34F
    cat = ("Me", "Mn", "Mc")[k % 3]
    return r.choice(Z[cat])


def is_di(U, c):
    return any(lo <= c <= hi for lo, hi in U.di)


def composing_material(U, RC):
    """non-mark starters (any script but Hangul) and, per starter, the marks of non-zero class that have a primary
    composite with it (reference data), restricted to characters the crate classifies alike"""
    by_starter = {}
    for (a, b), c in RC.items():
        if unicodedata.category(chr(a)).startswith("M") or a in U.marks:
            continue
        if unicodedata.combining(chr(b)) == 0 or U.mcc.get(b, 0) == 0 or b not in U.marks:
            continue
        by_starter.setdefault(a, []).append(b)
    return by_starter


def search_blockers(ctx, shim, U, RD, RC, r, n_starters, n_random):
    """recomposition (and reordering) never crosses a mark of combining class 0"""
    Z, zsec = zero_marks(U)
    by_starter = composing_material(U, RC)
    allmarks = sorted({m for ms in by_starter.values() for m in ms})
    starters = sorted(by_starter)
    # every enclosing mark and U+034F is used at least once per run; the rest is drawn
    must = list(Z.get("Me", [])) + [0x34F]
    comps_with_second = {}
    for (a_, b_), c_ in U.comp.items():
        comps_with_second.setdefault(b_, []).append(c_)
    chosen = starters if n_starters >= len(starters) else r.sample(starters, n_starters)
    groups, meta = [], []
    checked_ref = 0
    units = []
    for si, s in enumerate(chosen):
        ms = by_starter[s]
        base = nfd([s])[0]
        # marks composing with the base letter as well (s may be precomposed)
        ms_base = sorted(set(ms) | set(by_starter.get(base, [])))
        texts = []

        def z():
            return draw_zero(r, Z)
        for m in ms:
            texts.append(("base Z mark", [s, must[(si + len(texts)) % len(must)], m]))
            texts.append(("base Z mark", [s, z(), m]))
        m = r.choice(ms)
        k = r.choice(allmarks)
        texts.append(("base kept Z mark", [s, k, z(), m]))
        texts.append(("base Z Z mark", [s, z(), z(), m]))
        texts.append(("base mark Z mark", [s, m, z(), r.choice(ms_base)]))
        texts.append(("base Z mark mark", [s, z(), r.choice(ms_base), r.choice(allmarks)]))
        texts.append(("base Z mark mark", [s, z(), r.choice(allmarks), m]))
        comp = RC.get((s, m))
        if comp is not None:
            texts.append(("composite Z mark", [comp, z(), r.choice(ms_base)]))
            texts.append(("base Z mark, later cluster", [s, z(), m, comp, z()]))
        for _ in range(n_random):
            n = r.range(2, 5)
            t = [s]
            for _ in range(n):
                q = r.below(5)
                t.append(z() if q < 2 else r.choice(ms_base) if q < 4 else r.choice(allmarks))
            if not any(c in U.marks and U.mcc.get(c, 0) == 0 for c in t[1:]):
                t.insert(r.range(1, len(t) - 1), z())
            texts.append(("random", t))
        units.append(texts)
    # pairs whose SECOND component is itself a mark of class 0 (two-part vowel signs, Myanmar / Balinese / Chakma ...
    # letters): adjacent they compose, after any kept mark — whatever its class — they are blocked (mcc(prev) < 0 is
    # false) and become the starter
    zpairs = sorted((a, b) for (a, b) in RC if b in zsec and b in U.marks and U.mcc.get(b, 0) == 0
                    and unicodedata.combining(chr(b)) == 0 and not (0x1100 <= a <= 0x11FF or 0xAC00 <= a <= 0xD7A3))
    for a, b in (zpairs if n_starters >= len(starters) else r.sample(zpairs, min(len(zpairs), max(8, n_starters // 3)))):
        pfx = [0x78] if a in U.marks else []
        k = r.choice(allmarks)
        units.append([("Z-second adjacent", pfx + [a, b]), ("Z-second adjacent", pfx + [a, b, k]),
                      ("Z-second after kept mark", pfx + [a, k, b]), ("Z-second after kept mark", pfx + [a, r.choice(allmarks), b, k]),
                      ("Z-second after Z", pfx + [a, draw_zero(r, Z), b]),
                      ("Z-second after Z", pfx + [a, must[len(units) % len(must)], b])])
    for texts in units:
        chars = sorted({c for _, t in texts for c in t})
        leaves = sorted({x for c in chars for x in nfd([c])})
        # every composite whose full decomposition lies inside the leaves of this group
        comps = set()
        for c in chars:
            comps.add(c)
        frontier = set(leaves)
        for _ in range(4):
            add = {c for (a, b), c in RC.items() if a in (frontier | comps) and b in frontier}
            if add <= comps:
                break
            comps |= add
        comps -= set(leaves)
        half = {c for c in comps if r.chance(1, 2)}
        for vname, sup in (("all", set(leaves) | comps), ("leaves", set(leaves)), ("half", set(leaves) | half)):
            g = groups_from_set(sorted(sup))
            lines = [f"font b {build_font(g).hex()}"]
            cases = []
            for kind, t in texts:
                flags = 4 if any(is_di(U, c) for c in t) else 0
                # cut before the last ccc-0 mark that can never be absorbed: each side shaped on its own
                cut = None
                for i in range(len(t) - 1, 0, -1):
                    c = t[i]
                    # (a class-0 mark that decomposes, U+0F73 -> U+0F71 U+0F72, is no blocker after round one)
                    if c in U.marks and U.mcc.get(c, 0) == 0 and c not in U.decomp and \
                            not any(comp_ in sup for comp_ in comps_with_second.get(c, [])):
                        cut = i
                        break
                parts = []
                if cut is not None:
                    parts = [t[:cut], t[cut:]]
                    # one-character clusters are not normalized when the font has the character (short circuit),
                    # longer ones are decomposed and recomposed: the cut is only comparable when it does not leave a
                    # decomposable character alone in its cluster
                    lo = cut - 1
                    while lo > 0 and t[lo] in U.marks:
                        lo -= 1
                    hi = cut + 1
                    while hi < len(t) and t[hi] in U.marks:
                        hi += 1
                    if (cut - lo == 1 and t[lo] in U.decomp) or (hi - cut == 1 and t[cut] in U.decomp):
                        parts = []
                lines.append(shape_line("b", t, flags))
                for p_ in parts:
                    lines.append(shape_line("b", p_, flags))
                cases.append((kind, t, flags, parts))
            groups.append(lines)
            meta.append((vname, g, sup, cases))
    outs = vlib.run_groups(shim, groups, timeout=1800)
    n = nontriv = nbad = nsplit = 0
    dist = {}
    zcats = {}
    for (vname, g, sup, cases), o, grp in zip(meta, outs, groups):
        inv = {}
        for s_, e_, g_ in g:
            for c in range(s_, e_ + 1):
                inv[g_ + (c - s_)] = c
        i = 1
        for kind, t, flags, parts in cases:
            out, ln = o[i], grp[i]
            pouts, plns = o[i + 1:i + 1 + len(parts)], grp[i + 1:i + 1 + len(parts)]
            i += 1 + len(parts)
            n += 1
            got = parse_shape(out)
            expect = nfc_restricted(t, lambda c: c in sup, RC)
            if checked_ref < 400 and vname == "all":
                checked_ref += 1
                full = nfc_restricted(t, lambda c: True, RC)
                assert full == [ord(x) for x in unicodedata.normalize("NFC", "".join(map(chr, t)))], (t, full)
            want = [glyph_of(g, c) for c in expect]
            key = f"{vname}:{kind}"
            dist[key] = dist.get(key, 0) + 1
            for c in t[1:]:
                if c in U.marks and U.mcc.get(c, 0) == 0:
                    cat = unicodedata.category(chr(c)) + (":second-component" if c in zsec else "")
                    zcats[cat] = zcats.get(cat, 0) + 1
            # non-trivial = a mark after the ccc-0 mark has a composite with the (decomposed) starter that the
            # font maps, i.e. ignoring the blocker would change the glyphs
            zi = next(j for j in range(1, len(t)) if t[j] in U.marks and U.mcc.get(t[j], 0) == 0)
            zs_at = [j for j in range(1, len(t)) if t[j] in U.marks and U.mcc.get(t[j], 0) == 0]
            if any(RC.get((a_, t[j2])) in sup
                   for j1 in range(len(t)) for j2 in range(j1 + 2, len(t)) if any(j1 < j <= j2 for j in zs_at)
                   for a_ in (t[j1], nfd([t[j1]])[0])):
                nontriv += 1
            bad = None
            if got != want:
                gotc = [inv.get(x, 0) for x in (got or [])]
                bad = (f"{vname}: text {['%04X' % c for c in t]} shaped to {['%04X' % c for c in gotc]}, reference "
                       f"(canonical composition restricted to the font's characters; U+{t[zi]:04X} has combining "
                       f"class 0 and blocks) {['%04X' % c for c in expect]}",
                       {"stage": "search", "stream": "blockers", "font_line": grp[0], "request": ln,
                        "expected_glyphs": want, "observed": out, "variant": vname, "kind": kind})
            elif parts:
                nsplit += 1
                pg = [parse_shape(x) for x in pouts]
                cat_want = None if any(x is None for x in pg) else [y for x in pg for y in x]
                if cat_want != got:
                    bad = (f"{vname}: text {['%04X' % c for c in t]} shaped to {got}, but cut before the class-0 mark "
                           f"U+{parts[1][0]:04X} the two sides shape to {pg}",
                           {"stage": "search", "stream": "blockers-cut", "font_line": grp[0], "request": ln,
                            "part_requests": plns, "expected_glyphs": cat_want, "observed": out,
                            "observed_parts": pouts, "variant": vname, "kind": kind})
            if bad:
                nbad += 1
                if nbad <= 3:
                    ctx.violation(*bad)
    ctx.note_search("blockers", n, nontriv, distribution=dist, blocker_categories=zcats, starters=len(chosen),
                    cut_comparisons=nsplit, deviations=nbad,
                    rule="non-mark starter of any script (first component of a primary composite with a mark of "
                         "non-zero class) followed by marks among which at least one has general category Mn / Me / Mc "
                         "and combining class 0 (every enclosing mark, U+034F, drawn spacing and non-spacing marks): "
                         "base Z mark for every mark that composes with the base, and base kept Z mark, base Z Z mark, "
                         "base mark Z mark, base Z mark mark, composite Z mark, with a later cluster, and random runs "
                         "of 2..5; and the pairs whose second component is itself a mark of class 0 (two-part vowel signs, "
                         "Myanmar / Balinese / Chakma letters): adjacent, after a kept mark of any class, after a class-0 "
                         "mark; cmap-only fonts with (all) every composite over the leaves, (leaves) no composite, "
                         "(half) a random half; script forced to Latn (default shaper), PRESERVE_DEFAULT_IGNORABLES "
                         "when the text has one. Oracle 1: UAX #15 canonical composition over CPython data restricted to "
                         "supported composites. Oracle 2 (metamorphic, C09_recompose_never_crosses_ccc0 through "
                         "shape()): the text cut before its last class-0 mark that is the second component of no "
                         "supported composite shapes to the concatenation of the two sides. non-trivial = a character after "
                         "(or at) a class-0 mark has a composite, which the font maps, with a character before it that is "
                         "not its neighbour")


def search_reorder(ctx, shim, U, r, per_combo, cross):
    """metamorphic: two adjacent marks with different non-zero canonical classes may be swapped without
    changing the result (canonical equivalence), as long as the modified classes do not zero them"""
    marks = [c for c in sorted(U.ccc) if U.mcc.get(c, 0) != 0]
    Zc, zsec = zero_marks(U)
    Z0 = {cat: [c for c in cs if c not in U.decomp and c not in zsec and not is_di(U, c)] for cat, cs in Zc.items()}
    blocks = {}
    for c in marks:
        blocks.setdefault(c >> 8, []).append(c)
    generic = blocks.get(3, [])
    groups, meta = [], []
    for blk, ms in sorted(blocks.items()):
        combos = {}
        for i, m1 in enumerate(ms):
            for m2 in ms[i + 1:]:
                if U.ccc[m1] != U.ccc[m2]:
                    combos.setdefault((U.ccc[m1], U.ccc[m2]), []).append((m1, m2))
        pairs = []
        for k, ps in sorted(combos.items()):
            pairs += ps if per_combo is None else r.sample(ps, per_combo)
        if blk != 3:
            for m1 in (ms if cross is None else r.sample(ms, min(cross, len(ms)))):
                for m2 in r.sample(generic, 4):
                    if U.ccc[m1] != U.ccc[m2]:
                        pairs.append((m1, m2))
        if not pairs:
            continue
        gz = [draw_zero(r, Z0, cgj=False) for _ in range(3)]
        g = groups_from_set([0x61, 0x78] + VS_POOL + ms + generic + gz)
        lines = [f"font r {build_font(g).hex()}"]
        for m1, m2 in pairs:
            third = r.choice(ms)
            lines.append(shape_line("r", [0x61, m1, m2]))
            lines.append(shape_line("r", [0x61, m2, m1]))
            # and inside a longer run
            lines.append(shape_line("r", [0x61, third, m1, m2]) if U.ccc[third] <= min(U.ccc[m1], U.ccc[m2])
                         else shape_line("r", [0x61, m1, m2, third]))
            lines.append(shape_line("r", [0x61, third, m2, m1]) if U.ccc[third] <= min(U.ccc[m1], U.ccc[m2])
                         else shape_line("r", [0x61, m2, m1, third]))
            # and on a precomposed base the font lacks (U+00E4: the font has a and U+0308), followed by a later
            # unrelated cluster x + variation selector(s)
            sfx = [0x78] + vs_run(r)
            lines.append(shape_line("r", [0xE4, m1, m2] + sfx, flags=4))
            lines.append(shape_line("r", [0xE4, m2, m1] + sfx, flags=4))
            # and separated by a mark of class 0: the two are in different runs, neither order may change
            z = r.choice(gz)
            lines.append(shape_line("r", [0x61, m1, z, m2]))
            lines.append(shape_line("r", [0x61, m2, z, m1]))
        groups.append(lines)
        meta.append((pairs, g))
    outs = vlib.run_groups(shim, groups, timeout=1800)
    n = nontriv = nbad = 0
    classes = set()
    nsep = 0
    for (pairs, g), o, grp in zip(meta, outs, groups):
        for i, (m1, m2) in enumerate(pairs):
            for off in (6, 7):
                ln, out = grp[1 + 8 * i + off], o[1 + 8 * i + off]
                t = [int(x.split(":")[0], 16) for x in ln.split()[10].split(",")]
                if any(c in U.decomp for c in t):
                    continue              # a mark with a decomposition is replaced by its pieces
                n += 1
                nsep += 1
                want = [glyph_of(g, c) for c in t]
                if parse_shape(out) != want:
                    nbad += 1
                    if nbad > 3:
                        continue
                    ctx.violation(f"marks separated by a mark of class 0 are not left in place: text {ln.split()[10]} "
                                  f"(U+{t[2]:04X} has class 0) shaped to {parse_shape(out)}, expected {want}",
                                  {"stage": "search", "stream": "reorder-separated", "font_line": grp[0], "request": ln,
                                   "expected_glyphs": want, "observed": out})
            for off in (0, 2, 4):
                a, b = o[1 + 8 * i + off], o[2 + 8 * i + off]
                ga, gb = parse_shape(a), parse_shape(b)
                n += 2
                nontriv += 2
                classes.add((U.ccc[m1], U.ccc[m2]))
                if ga is None or ga != gb or 0 in (ga or [0]):
                    nbad += 1
                    if nbad > 3:
                        continue          # leave room for the other streams' reports (the count is in the evidence)
                    texts = [grp[1 + 8 * i + off].split()[10], grp[2 + 8 * i + off].split()[10]]
                    what = ("canonically equivalent mark orders shape differently" if ga != gb else
                            "a character whose whole canonical decomposition the font maps is rendered as .notdef")
                    ctx.violation(f"{what}: U+{m1:04X} (ccc {U.ccc[m1]}, "
                                  f"modified {U.mcc[m1]}) / U+{m2:04X} (ccc {U.ccc[m2]}, modified {U.mcc[m2]}), texts "
                                  f"{texts[0]} / {texts[1]}: {ga} vs {gb}",
                                  {"stage": "search", "stream": "reorder", "font_line": grp[0],
                                   "request": grp[1 + 8 * i + off], "request2": grp[2 + 8 * i + off],
                                   "observed": a, "observed2": b})
    ctx.note_search("reorder", n, nontriv, class_pairs=len(classes), blocks=len(groups), deviations=nbad,
                    separated_by_class_0=nsep,
                    rule="letter a + two marks of different non-zero canonical classes (same 256-block, or one from "
                         "U+03xx) in both orders, alone, next to a third mark, and on the precomposed base U+00E4 (the "
                         "font has only a and U+0308) followed by a later unrelated cluster x + 1..3 variation selectors; "
                         "cmap-only font without composites, script forced to Latn (default shaper): both orders must "
                         "give the same glyphs and no .notdef; marks whose modified class is 0 are excluded; and the two "
                         "marks separated by a mark of class 0 (Mn / Me / Mc), in both orders: glyphs of the text as it is")


# scripts whose shaper has a normalization preference other than NONE (ot_shaper_*.rs): tag, blocks of the script's
# own marks, a base letter.  The shaper is chosen by the script alone on a font without GSUB.
LEADING_SCRIPTS = [
    ("Latn", "default", [(0x300, 0x36F), (0x1AB0, 0x1AFF), (0x1DC0, 0x1DFF), (0x20D0, 0x20FF)], 0x61),
    ("Grek", "default", [(0x300, 0x36F)], 0x3B1),
    ("Cyrl", "default", [(0x483, 0x487), (0x2DE0, 0x2DFF), (0xA66F, 0xA69F)], 0x430),
    ("Arab", "arabic", [(0x610, 0x61A), (0x64B, 0x65F), (0x670, 0x670), (0x6D6, 0x6ED), (0x8CA, 0x8FF)], 0x628),
    ("Syrc", "arabic", [(0x711, 0x711), (0x730, 0x74A)], 0x712),
    ("Hebr", "hebrew", [(0x591, 0x5C7)], 0x5D1),
    ("Thai", "thai", [(0xE38, 0xE3A), (0xE48, 0xE4B)], 0xE01),
    ("Laoo", "thai", [(0xEB8, 0xEBA), (0xEC8, 0xECB)], 0xE81),
    ("Deva", "indic", [(0x93C, 0x93C), (0x94D, 0x94D), (0x951, 0x954)], 0x915),
    ("Beng", "indic", [(0x9BC, 0x9BC), (0x9CD, 0x9CD), (0x9FE, 0x9FE)], 0x995),
    ("Telu", "indic", [(0xC3C, 0xC3C), (0xC4D, 0xC4D), (0xC55, 0xC56)], 0xC15),
    ("Khmr", "khmer", [(0x17D2, 0x17D2), (0x17DD, 0x17DD)], 0x1780),
    ("Mymr", "myanmar", [(0x1037, 0x103A), (0x108D, 0x108D)], 0x1000),
    ("Tibt", "use", [(0xF18, 0xF19), (0xF35, 0xF39), (0xF71, 0xF87), (0xFC6, 0xFC6)], 0xF40),
    ("Java", "use", [(0xA9B3, 0xA9B3), (0xA9C0, 0xA9C0)], 0xA984),
    ("Lana", "use", [(0x1A60, 0x1A7F)], 0x1A20),
]


def stable_by_mcc(U, t):
    """every maximal run of characters with a non-zero modified combining class, stably sorted by that class (runs
    longer than MAX_COMBINING_MARKS are documented to stay as they are)"""
    out, i = [], 0
    while i < len(t):
        if U.mcc.get(t[i], 0) == 0:
            out.append(t[i]); i += 1
            continue
        j = i
        while j < len(t) and U.mcc.get(t[j], 0) != 0:
            j += 1
        run = t[i:j]
        out += sorted(run, key=lambda c: U.mcc[c]) if len(run) <= U.max_marks else run
        i = j
    return out


def search_leading(ctx, shim, U, r, per_script):
    """texts that BEGIN with a run of marks (a defective combining sequence at the start of the buffer): every
    permutation of marks with pairwise different classes is canonically equivalent and must give the same glyphs,
    under every shaper that normalizes; for the default shaper the order is also checked absolutely"""
    generic = [c for c in range(0x300, 0x370) if U.mcc.get(c, 0) != 0 and c not in U.decomp]
    groups, meta = [], []
    for tag, shaper, blocks, base in LEADING_SCRIPTS:
        own = [c for lo, hi in blocks for c in range(lo, hi + 1)
               if U.mcc.get(c, 0) != 0 and U.ccc.get(c, 0) != 0 and c not in U.decomp and c in U.marks]
        if not own:
            continue
        tuples = []
        for _ in range(per_script):
            k = r.choice([2, 2, 3, 3, 4, 5])
            pool = own if r.chance(1, 2) else own + generic
            t, seen = [], set()
            for _ in range(40):
                c = r.choice(pool)
                if U.ccc[c] in seen or U.mcc[c] in {U.mcc[x] for x in t}:
                    continue
                seen.add(U.ccc[c]); t.append(c)
                if len(t) == k:
                    break
            if len(t) >= 2:
                tuples.append(t)
        chars = sorted({c for t in tuples for c in t} | {base, 0x20})
        for has_dc in (True, False):
            g = groups_from_set(chars + ([0x25CC] if has_dc else []))
            lines = [f"font L {build_font(g).hex()}"]
            cases = []
            for t in tuples:
                asc = sorted(t, key=lambda c: U.mcc[c])
                desc = asc[::-1]
                mid = r.sample(t, len(t))
                if mid == asc or mid == desc:
                    mid = asc[1:] + asc[:1]
                tail = r.choice([[], [], [base], [base], [base, r.choice(t)], [0x20]])
                flags = r.choice([0, 0, 1, 3, 0x10, 0x11])
                pre = r.choice(["-", "-", "-", f"{base:x}"])
                level = r.below(2)
                d = r.choice(["-", "-", "l", "r"])
                perms = []
                for p in (desc, mid, asc):
                    if p not in perms:
                        perms.append(p)
                for p in perms:
                    txt = p + tail
                    tt = ",".join(f"{c:x}:{i}" for i, c in enumerate(txt))
                    lines.append(f"shape L {d} {tag} - {flags} {level} - {pre} - {tt}")
                cases.append((perms, tail, flags, pre, d))
            groups.append(lines)
            meta.append((tag, shaper, has_dc, g, cases))
    outs = vlib.run_groups(shim, groups, timeout=900)
    n = nontriv = nbad = nabs = 0
    dist = {}
    bad_by = {}
    for (tag, shaper, has_dc, g, cases), o, grp in zip(meta, outs, groups):
        i = 1
        for perms, tail, flags, pre, d in cases:
            lns, res = grp[i:i + len(perms)], o[i:i + len(perms)]
            i += len(perms)
            gl = [parse_shape(x) for x in res]
            n += len(perms)
            nontriv += len(perms) - 1
            dotted = has_dc and (flags & 1) and not (flags & 0x10) and pre == "-"
            for k_ in (shaper, f"marks:{len(perms[0])}", "tail:" + ("none" if not tail else "space" if tail == [0x20] else "base" if len(tail) == 1 else "base+mark"),
                       f"flags:{flags}", "font-has-25CC" if has_dc else "font-lacks-25CC", "pre-context" if pre != "-" else "no-pre-context",
                       "dotted-circle-due" if dotted else "no-dotted-circle"):
                dist[k_] = dist.get(k_, 0) + 1
            bad = None
            if any(x is None for x in gl) or any(x != gl[0] for x in gl[1:]):
                j = next((j for j in range(1, len(gl)) if gl[j] != gl[0]), 0) if None not in gl else gl.index(None)
                j2 = 0 if j else 1 if len(gl) > 1 else 0
                bad = (f"{tag} ({shaper} shaper): texts that begin with the same marks in two canonically equivalent orders "
                       f"shape differently: {lns[j].split()[10]} -> {gl[j]}, {lns[j2].split()[10]} -> {gl[j2]} "
                       f"(classes {[U.ccc[c] for c in perms[0]]})",
                       {"stage": "search", "stream": "reorder-leading", "font_line": grp[0], "request": lns[j], "request2": lns[j2],
                        "observed": res[j], "observed2": res[j2], "script": tag, "shaper": shaper})
            elif shaper == "default" and d != "r":
                # absolute: the glyphs of the canonically ordered text, after a dotted circle where one is due
                nabs += 1
                expect = ([0x25CC] if dotted else []) + stable_by_mcc(U, perms[0] + tail)
                want = [glyph_of(g, c) for c in expect]
                if gl[0] != want:
                    bad = (f"{tag}: text {lns[0].split()[10]} that begins with a mark run is not shaped in canonical order: "
                           f"{gl[0]}, expected {want} ({['%04X' % c for c in expect]})",
                           {"stage": "search", "stream": "reorder-leading", "font_line": grp[0], "request": lns[0],
                            "expected_glyphs": want, "observed": res[0], "script": tag, "shaper": shaper})
            if bad:
                nbad += 1
                bad_by[shaper] = bad_by.get(shaper, 0) + 1
                if nbad <= 3 or (bad_by[shaper] == 1 and nbad <= 6):
                    ctx.violation(*bad)
    ctx.note_search("reorder-leading", n, nontriv, distribution=dist, deviations=nbad, absolute_checks=nabs,
                    deviations_by_shaper=bad_by,
                    rule="texts that begin with a run of 2..5 marks of pairwise different non-zero classes (the script's own "
                         "marks, half of the time mixed with U+03xx), in descending, shuffled and ascending class order, alone "
                         "or followed by a base / base + mark / space; flags default, BEGINNING_OF_TEXT (+END), "
                         "DO_NOT_INSERT_DOTTED_CIRCLE; with and without pre-context; cmap-only fonts with and without U+25CC; "
                         "cluster levels 0/1; native, guessed and forced directions; one script per shaper whose normalization "
                         "preference is not NONE (default, arabic, hebrew, thai, indic, khmer, myanmar, use): all orders must "
                         "give the same glyphs; for the default shaper also the glyphs of the canonically ordered text (after a "
                         "dotted circle where one is due); non-trivial = every order but the first")


def parse_groups_spec(spec):
    if spec == "-":
        return []
    out = []
    for g in spec.split(","):
        rg, gid = g.split(":")
        lo, hi = rg.split("-")
        out.append((int(lo), int(hi), int(gid)))
    return out


def promote_run_disagreements(ctx, shim, U, dis, limit):
    """A `norm-run` request on which the crate and the model disagree is a candidate failing input of the property:
    its text and its font are handed to shape() (public API, default shaper, the request's cluster level) and judged
    by two oracles that need no model: (1) canonical order — the text with every run of marks stably sorted by class
    is canonically equivalent and must give the same glyphs; (2) cut — the text shapes to the concatenation of its
    pieces cut before every non-mark character that follows a mark or precedes one (cluster by cluster).
    Nothing is assumed about WHY the two disagreed."""
    if not dis:
        ctx.note_search("promoted-norm-run", 0, 0, rule="no norm-run disagreement to promote in this run")
        return
    cand = sorted(dis, key=lambda d: len(d["request"].split()[-1]))[:limit]
    groups, meta = [], []
    for d in cand:
        t = d["request"].split()
        if t[1] == "runv":
            level, nfvs, fonthex, ttok = t[3], t[5], t[6], t[9]
        else:
            level, nfvs, fonthex, ttok = t[3], "-", t[5], t[7]
        recs = parse_text_tok(ttok)
        text = [x[0] for x in recs]
        if any(c in U.vs for c in text) or any(is_di(U, c) for c in text):
            flags = 4             # selectors / ignorables stay visible
        else:
            flags = 0
        extra = f" nfvs={nfvs}" if nfvs != "-" else ""

        def line(cps, cls):
            tt = ",".join(f"{c:x}:{cl}" for c, cl in zip(cps, cls))
            return f"shape P l Latn - {flags} {level} - - - {tt}{extra}"
        cls = list(range(len(text)))
        canon = stable_by_mcc(U, text)
        # pieces: cut before a non-mark character whenever a mark is adjacent (the normalizer's own cluster borders)
        cuts = [0]
        for i in range(1, len(text)):
            if text[i] not in U.marks and (text[i - 1] in U.marks or (i + 1 < len(text) and text[i + 1] in U.marks)):
                cuts.append(i)
        cuts.append(len(text))
        pieces = [text[a:b] for a, b in zip(cuts, cuts[1:]) if b > a]
        lines = [f"font P {fonthex}", line(text, cls), line(canon, cls)] + \
                [line(p, cls[:len(p)]) for p in (pieces if len(pieces) > 1 else [])]
        groups.append(lines)
        meta.append((d, text, canon, pieces if len(pieces) > 1 else []))
    outs = vlib.run_groups(shim, groups, timeout=900)
    n = nbad = ntriv = 0
    for (d, text, canon, pieces), o, grp in zip(meta, outs, groups):
        n += 1
        got, gcanon = parse_shape(o[1]), parse_shape(o[2])
        parts = [parse_shape(x) for x in o[3:]]
        bad = None
        if canon != text and (got is None or got != gcanon):
            bad = (f"promoted norm-run disagreement: text {['%04X' % c for c in text]} and its canonical reordering "
                   f"{['%04X' % c for c in canon]} shape differently: {got} vs {gcanon}",
                   {"stage": "search", "stream": "promoted-norm-run", "oracle": "canonical-order", "font_line": grp[0],
                    "request": grp[1], "request2": grp[2], "observed": o[1], "observed2": o[2],
                    "from_correspondence": d["request"][:200] + " …", "impl": d["impl"], "model": d["model"]})
        elif pieces and (got is None or None in parts or got != [y for x in parts for y in x]):
            bad = (f"promoted norm-run disagreement: text {['%04X' % c for c in text]} does not shape to the concatenation "
                   f"of its clusters shaped on their own: {got} vs {parts}",
                   {"stage": "search", "stream": "promoted-norm-run", "oracle": "cut", "font_line": grp[0], "request": grp[1],
                    "part_requests": grp[3:], "expected_glyphs": None if None in parts else [y for x in parts for y in x],
                    "observed": o[1], "observed_parts": o[3:],
                    "from_correspondence": d["request"][:200] + " …", "impl": d["impl"], "model": d["model"]})
        if canon == text and not pieces:
            ntriv += 1
        if bad:
            nbad += 1
            if nbad <= 3:
                ctx.violation(*bad)
    ctx.note_search("promoted-norm-run", n, n - ntriv, deviations=nbad, disagreements=len(dis),
                    rule="the shortest norm-run requests on which crate and model disagree, handed to shape() with their own "
                         "font (default shaper, the request's cluster level): the text must shape like its canonical "
                         "reordering (every mark run stably sorted by class) and like the concatenation of its clusters "
                         "shaped on their own; non-trivial = one of the two comparisons is between different requests")


def context_pieces(r, marks):
    """texts that may stand before / after a starter + marks cluster; each starts with a non-mark (or is a lone run
    of selectors at the very start of the text), so the normalizer treats it as clusters of its own"""
    x = r.choice([0x78, 0x4E00, 0x2205, 0x41])
    k = r.below(10)
    if k == 0: return []
    if k == 1: return [x]
    if k == 2: return [x] + vs_run(r)                              # base + selector(s)
    if k == 3: return [x] + vs_run(r, lo=2)                        # base + several selectors
    if k == 4: return [x, r.choice(marks)] + vs_run(r)             # selector after a mark, at the end of the run
    if k == 5: return [x] + vs_run(r) + [r.choice(marks)]          # selector inside the mark run
    if k == 6: return [x, r.choice(marks)] + vs_run(r) + [r.choice(marks)]
    if k == 7: return [0x20, x] + vs_run(r)                        # after a simple character
    if k == 8: return [x, 0xE4, r.choice(marks)] + vs_run(r)       # precomposed base + mark + selector
    return [x] + vs_run(r) + [x] + vs_run(r)


def search_context(ctx, shim, U, RD, RC, r, n_fonts, per_font):
    """metamorphic: the default shaper normalizes cluster by cluster, so on a cmap-only font shaping P ++ A ++ S
    gives the glyphs of P, of A and of S shaped on their own, when A and S start with a non-mark character.
    A = starter + marks (needing decomposition / reordering / recomposition), P and S are drawn from
    `context_pieces` (most of them contain variation selectors)."""
    starters, marks = lgc_material(U, RD, RC)
    by_base = {}
    for c in RD:
        if 0xD800 <= c <= 0xDFFF:
            continue
        f = nfd([c])
        if all(x in marks for x in f[1:]) and len(f) > 1:
            by_base.setdefault(f[0], []).append(c)
    P = pools(U)
    Zc, zsec = zero_marks(U)
    Z0 = {cat: [c for c in cs if c not in U.decomp and c not in zsec and c not in RD] or cs for cat, cs in Zc.items()}
    ctx_chars = [0x78, 0x4E00, 0x2205, 0x41, 0x20, 0xE4]
    groups, meta = [], []
    for fi in range(n_fonts):
        ss = r.sample(starters, 6)
        leaves, comps = set(marks), set()
        for s_ in ss:
            base = nfd([s_])[0]
            leaves.add(base)
            comps |= set(by_base.get(base, [])) | {s_}
        mode = r.below(4)
        fz = [draw_zero(r, Z0) for _ in range(4)]
        sup = set(leaves) | set(ctx_chars) | set(fz)
        if mode == 0: sup |= comps
        elif mode == 1: sup |= {c for c in comps if r.chance(1, 2)}
        elif mode == 2: sup |= {c for c in comps if r.chance(1, 2)}; sup -= {c for c in ss if r.chance(1, 2)}
        # fonts with and without glyphs for the selectors
        vs_glyphs = r.chance(2, 3)
        if vs_glyphs: sup |= set(VS_POOL)
        if r.chance(1, 3): sup.discard(0x20)
        g = groups_from_set(sorted(sup))
        # fonts with and without variation-sequence support (cmap format 14)
        uvs = None
        if r.chance(1, 2):
            uvs = []
            for c in ctx_chars[:4] + ss[:2]:
                for v in r.sample(VS_POOL, 3):
                    uvs.append((c, v, None if r.chance(1, 3) else 400 + len(uvs)))
        lines = [f"font x {build_font(g, uvs).hex()}"]
        cases = []
        for _ in range(per_font):
            s_ = r.choice(ss)
            if r.chance(3, 4):
                A = [s_] + [r.choice(marks) for _ in range(r.range(1, 3))]
            else:
                A = [r.choice(P["dec"])] + [r.choice(P["seconds"]) for _ in range(r.range(1, 2))]
                A = [c for c in A if c not in U.vs]
            if A[0] in U.marks:
                A = [s_] + A
            if r.chance(1, 3):
                A.insert(r.range(1, len(A)), r.choice(fz))        # a class-0 mark inside the cluster
            pre = context_pieces(r, marks) if r.chance(1, 2) else []
            if r.chance(1, 8):
                pre = vs_run(r)                      # a lone run of selectors at the start of the text
            post = context_pieces(r, marks)
            flags = r.choice([0, 0, 4, 4, 8])
            extra = " nfvs=1" if r.chance(1, 6) else ""
            parts = [p for p in (pre, A, post) if p]
            whole = pre + A + post
            lines.append(shape_line("x", whole, flags, extra))
            for p in parts:
                lines.append(shape_line("x", p, flags, extra))
            cases.append((pre, A, post, len(parts), flags))
        groups.append(lines)
        meta.append((g, uvs, vs_glyphs, cases))
    outs = vlib.run_groups(shim, groups, timeout=1800)
    n = nontriv = nbad = 0
    dist = {}
    for (g, uvs, vs_glyphs, cases), o, grp in zip(meta, outs, groups):
        i = 1
        for pre, A, post, np_, flags in cases:
            whole_out, whole_ln = o[i], grp[i]
            part_outs, part_lns = o[i + 1:i + 1 + np_], grp[i + 1:i + 1 + np_]
            i += 1 + np_
            n += 1
            got = parse_shape(whole_out)
            pieces = [parse_shape(x) for x in part_outs]
            has_vs = any(c in U.vs for c in pre + post)
            later = any(c in U.vs for c in post)
            key = ("selector-later" if later else "selector-before" if has_vs else "no-selector") + \
                  (":format14" if uvs else "") + ("" if vs_glyphs else ":no-selector-glyphs") + f":flags{flags}" + \
                  (":class-0-mark" if any(c in U.marks and U.mcc.get(c, 0) == 0 for c in A[1:]) else "")
            dist[key] = dist.get(key, 0) + 1
            if has_vs:
                nontriv += 1
            want = None if any(x is None for x in pieces) else [y for x in pieces for y in x]
            if got is None or want is None or got != want:
                nbad += 1
                if nbad > 3:
                    continue
                ctx.violation(f"the glyphs of {['%04X' % c for c in A]} depend on the clusters around it: "
                              f"{['%04X' % c for c in pre]} + {['%04X' % c for c in A]} + {['%04X' % c for c in post]} "
                              f"shaped to {got}, the parts on their own to {pieces}",
                              {"stage": "search", "stream": "context", "font_line": grp[0], "request": whole_ln,
                               "part_requests": part_lns, "expected_glyphs": want, "observed": whole_out,
                               "observed_parts": part_outs, "flags": flags, "format14": bool(uvs)})
    ctx.note_search("context", n, nontriv, distribution=dist, fonts=n_fonts, deviations=nbad,
                    rule="P ++ A ++ S against P, A, S shaped on their own (same cmap-only font, flags default / "
                         "PRESERVE_DEFAULT_IGNORABLES / REMOVE_DEFAULT_IGNORABLES, sometimes a not-found-variation-selector "
                         "glyph): A = Latin/Greek/Cyrillic starter (often precomposed) + 1..3 marks (one in three with a mark of "
                         "class 0, category Mn / Me / Mc, inserted), or a decomposable "
                         "character + second components; P, S = nothing, a letter, or clusters with one or several "
                         "consecutive variation selectors after a base, after a mark, inside and at the end of a mark run; "
                         "fonts with all / half / none of the composites, with and without glyphs for the selectors, "
                         "with and without a cmap format 14 subtable; the glyph sequences must concatenate; non-trivial = "
                         "a selector somewhere in the text")


def search_cap(ctx, shim):
    """runs of up to 32 marks are canonically ordered, longer runs are left alone (MAX_COMBINING_MARKS)"""
    g = groups_from_set([0x61, 0x301, 0x323, 0x62])
    lines = [f"font c {build_font(g).hex()}"]
    texts = []
    for n in range(1, 41):
        for pat in ([0x301, 0x323], [0x301, 0x301, 0x323]):
            t = [0x61] + [pat[i % len(pat)] for i in range(n)] + [0x62]
            texts.append((n, t))
            lines.append(shape_line("c", t))
    o = vlib.run_groups(shim, [lines], nproc=1)[0]
    for (n, t), out, ln in zip(texts, o[1:], lines[1:]):
        marks = t[1:-1]
        expect = [0x61] + (sorted(marks, key=lambda c: unicodedata.combining(chr(c))) if n <= 32 else marks) + [0x62]
        want = [glyph_of(g, c) for c in expect]
        if parse_shape(out) != want:
            ctx.violation(f"run of {n} marks: expected {'canonical order' if n <= 32 else 'unchanged order'}",
                          {"stage": "search", "stream": "cap", "font_line": lines[0], "request": ln,
                           "expected_glyphs": want, "observed": out})
    ctx.note_search("cap", len(texts), len(texts),
                    rule="a + n marks alternating U+0301 (230) / U+0323 (220) + b for n = 1..40: stable canonical order "
                         "expected for n <= 32, unchanged order beyond (the documented cap)")


def replay_known(ctx, shim):
    """regression witnesses of the two repaired defects (known_findings.json: comp-non-starter-pairs,
    hangul-tbase); a recurrence is reported with the finding's signature"""
    lines = ["norm compose 776 769", "norm compose 3953 3954", "norm compose 3953 3956", "norm compose 3953 3968",
             "norm compose 44032 4519"]
    outs = vlib.run_lines(shim, lines, nproc=1)
    if any(o != "-" for o in outs[:4]):
        ctx.violation("composition table contains non-starter pairs that Unicode excludes from composition",
                      {"stage": "search", "stream": "known", "finding": "comp-non-starter-pairs", "requests": lines[:4],
                       "observed": outs[:4]})
    if outs[4] != "-":
        ctx.violation("compose_hangul(LV, T_BASE) is defined",
                      {"stage": "search", "stream": "known", "finding": "hangul-tbase", "request": lines[4],
                       "observed": outs[4]})
    # and through the public API: U+0308 U+0301 with a font that has U+0344 must stay two glyphs
    g = groups_from_set([0x308, 0x301, 0x344])
    grp = [f"font k {build_font(g).hex()}", shape_line("k", [0x308, 0x301])]
    o = vlib.run_groups(shim, [grp], nproc=1)[0]
    want = [glyph_of(g, 0x308), glyph_of(g, 0x301)]
    if parse_shape(o[1]) != want:
        ctx.violation("<U+0308 U+0301> is composed to U+0344 (a composition exclusion)",
                      {"stage": "search", "stream": "known-shape", "finding": "comp-non-starter-pairs",
                       "font_line": grp[0], "request": grp[1], "expected_glyphs": want, "observed": o[1]})
    ctx.note_search("known-witnesses", len(lines) + 1, len(lines) + 1,
                    rule="witnesses of the two repaired defects (non-starter pairs in COMPOSITION_TABLE, "
                         "compose_hangul with T_BASE) replayed on the crate")


LATTICE_RULE = ("font support lattice (tools/props/_lattice.py): every character with a canonical decomposition (key families — "
                "the scripts with a dedicated shaper, singletons such as U+2000 / U+2126 / U+0340 / U+0374, spaces, multi-level "
                "marks — exhaustively, the Latin / Greek / CJK bulk sampled in quick), sample Hangul syllables x cmap-only fonts "
                "for every subset of {c, the halves and inner pieces of its decomposition, U+0020 when a space is involved, "
                "U+25CC when c is a mark} x one script per shaper (default first; arabic, hebrew, thai, hangul, indic, khmer, "
                "myanmar, use; dispatch read from the compiled crate) and the script of c's block x {c, c + mark, base + c, base "
                "+ c + mark}; kept: some character of the text is NOT mapped but every one is mapped or has its full canonical "
                "decomposition mapped (characters on which the shaper's own decompose callback differs from "
                "unicode::decompose, probed on the crate, are left out under that shaper); oracles: per cluster the characters "
                "recovered from the glyphs are canonically equivalent to the input (no .notdef, no fallback glyph); c alone under "
                "the default shaper with no intermediate mapped: exactly the glyphs of NFD(c); equivalent-twin: wherever the "
                "normalizer must decompose c all the way (the font maps NFD(c) and c is in a multi-character cluster under a "
                "mode other than NONE, or neither c nor an intermediate is mapped) the text with NFD(c) in place of c (same "
                "cluster values) must give the identical result — glyphs, clusters, positions — under every shaper "
                "(characters whose decomposition is not in the order of the crate's MODIFIED combining classes are left "
                "out: a text of simple clusters skips the reorder round, e.g. U+FB2C)")


def run(ctx):
    ctx.assumptions += [
        "the theorems are about the Lean model of ot_shape_normalize.rs / unicode.rs (Norm.lean); the model is tied to "
        "the crate by the norm-run correspondence stream (hook verif::normalize::normalize on a bare buffer, default "
        "shaper, normalization preference 0..4, cluster level 0/1)",
        "clusters containing a variation selector are modelled (handle_variation_selector_cluster, cmap format 14 as a "
        "parameter); cluster level 2 and shapers that override compose/decompose (Hebrew, Indic, USE, ...) are outside the "
        "model; the Arabic shaper's reorder_marks callback is modelled (NormMarks.lean, stream norm-run-shaper through the hook "
        "verif::normalize::normalize_shaper), Hebrew's is not",
        "Unicode data are the crate's own tables (Gen/Norm.lean, dumped through hooks); the reference (Gen/NormRef.lean) "
        "is CPython unicodedata %s restricted to characters assigned there" % unicodedata.unidata_version,
    ]
    ctx.regen()
    ctx.prove(MODULE)
    shim = vlib.build_harness()
    U = UData(shim)
    ctx.correspond("norm-prims", lines=prim_lines(U, ctx.rng("prims"), ctx.budget(4000, 100000), full=not ctx.quick),
                   classify=lambda ln, out: [ln.split()[1] + (":none" if out == "-" else "") +
                                             (":" + out if ln.split()[1] == "depth" else "")])
    dis = ctx.correspond("norm-run", lines=gen_run_lines(ctx.rng("run"), ctx.budget(30000, 400000), U), classify=classify_run)
    sdis = ctx.correspond("norm-run-shaper", lines=gen_shaper_run_lines(ctx.rng("run-shaper"), ctx.budget(8000, 100000), U, shim),
                          classify=classify_shaper_run, canon=canon_shaper_run)
    promote_shaper_disagreements(ctx, shim, sdis, 20)
    RD, RC = ref_tables()
    replay_known(ctx, shim)
    search_cap(ctx, shim)
    search_reorder(ctx, shim, U, ctx.rng("reorder"), ctx.budget(3, None), ctx.budget(8, None))
    search_leading(ctx, shim, U, ctx.rng("reorder-leading"), ctx.budget(40, 600))
    # a model / crate disagreement is promoted into a property-level input: the disagreeing requests themselves are
    # shaped through the public API and judged by model-free oracles
    promote_run_disagreements(ctx, shim, U, dis, ctx.budget(60, 400))
    # ... and under one script per shaper, judged by the lattice oracles; then the font support lattice itself: every
    # decomposable character x every subset of the glyphs its normalization can depend on, on fonts that LACK a character
    # of the text but map its full canonical decomposition
    env = L.Env(shim)
    L.promote_norm_run(ctx, shim, env, dis, ctx.budget(40, 300), [L.judge_conservation_p], "norm-run")
    L.search(ctx, shim, env, ctx.rng("lattice"), ("decomposable",),
             lambda c, S, text, tag: (not all(x in S for x in text) and all(L.renderable(x, S) for x in text))
             or L.decomposed_twin(env, c, S, text, tag) is not None,
             [L.judge_conservation], LATTICE_RULE, twin=L.decomposed_twin)
    search_singles(ctx, shim, U, RD, ctx.budget(2, 1))
    search_strings(ctx, shim, U, RD, RC, ctx.rng("strings"), ctx.budget(100, 10 ** 6), ctx.budget(1, 2),
                   ctx.budget(40, 120))
    search_context(ctx, shim, U, RD, RC, ctx.rng("context"), ctx.budget(60, 600), ctx.budget(40, 100))
    search_blockers(ctx, shim, U, RD, RC, ctx.rng("blockers"), ctx.budget(80, 10 ** 6), ctx.budget(12, 60))


def replay(ctx, rp):
    shim = vlib.build_harness()
    if rp.get("stream") == L.STREAM:
        return L.replay(shim, rp, [L.judge_conservation])
    if rp.get("stream") == L.PROMOTED:
        return L.replay_promoted(shim, rp, [L.judge_conservation_p])
    if rp.get("stream") in ("reorder", "reorder-leading", "promoted-norm-run") and "request2" in rp:
        o = vlib.run_groups(shim, [[rp["font_line"], rp["request"], rp["request2"]]], nproc=1)[0]
        print("order 1:", o[1]); print("order 2:", o[2])
        return 0 if parse_shape(o[1]) == parse_shape(o[2]) and parse_shape(o[1]) is not None else 1
    if rp.get("stream") in ("context", "blockers-cut") or (rp.get("stream") == "promoted-norm-run" and "part_requests" in rp):
        o = vlib.run_groups(shim, [[rp["font_line"], rp["request"]] + rp["part_requests"]], nproc=1)[0]
        print("whole:", o[1])
        for x in o[2:]:
            print("part :", x)
        parts = [parse_shape(x) for x in o[2:]]
        ok = parse_shape(o[1]) is not None and None not in parts and parse_shape(o[1]) == [y for x in parts for y in x]
        return 0 if ok else 1
    if "font_line" in rp and "expected_glyphs" in rp:
        o = vlib.run_groups(shim, [[rp["font_line"], rp["request"]]], nproc=1)[0]
        print("observed:", o[1]); print("expected glyphs:", rp["expected_glyphs"])
        return 0 if parse_shape(o[1]) == rp["expected_glyphs"] else 1
    if rp.get("stream") == "known":
        reqs = rp.get("requests") or [rp["request"]]
        outs = vlib.run_lines(shim, reqs, nproc=1)
        for q, o in zip(reqs, outs):
            print(q, "->", o)
        return 1 if any(o != "-" for o in outs) else 0
    if rp.get("stream") == "promoted-norm-run-shaper":
        o = vlib.run_groups(shim, [[rp["font_line"], rp["request"]]], nproc=1)[0]
        print("request:", rp["request"]); print("reply  :", o[1] if len(o) > 1 else "abort")
        return 0 if len(o) > 1 and o[1].startswith("ok") else 1
    if "request" in rp:
        model = vlib.build_model()
        a = vlib.run_lines(shim, [rp["request"]], nproc=1)[0]
        b = vlib.run_lines(model, [rp["request"]], nproc=1)[0]
        print("impl :", a); print("model:", b)
        if rp["request"].startswith("normsh "):
            a = canon_shaper_run(a)
        return 0 if a == b else 1
    for b in rp.get("broken", []):
        for d in b.get("smallest", [])[:3]:
            model = vlib.build_model()
            a = vlib.run_lines(shim, [d["request"]], nproc=1)[0]
            m = vlib.run_lines(model, [d["request"]], nproc=1)[0]
            print("request:", d["request"][:200]); print("impl :", a); print("model:", m)
            if a != m:
                return 1
    print({k: v for k, v in rp.items() if k != "broken"})
    return 1 if rp.get("broken") else 0
