"""C09 — normalization picks composed/decomposed forms per font support (and the normalizer part of C08)."""
import os, struct, sys, unicodedata
import vlib

sys.path.insert(0, os.path.join(os.path.dirname(os.path.dirname(os.path.abspath(__file__))), "gens"))

MODULE = "RbModel.Props.C09"
LEVEL = "proof"

# ------------------------------------------------------------------------------------------------
# minimal sfnt with one cmap format-12 subtable (3,10): head/hhea/maxp/hmtx/cmap is what ttf-parser needs


def _sfnt(tables):
    tags = sorted(tables)
    n = len(tags)
    es = 0
    while (1 << (es + 1)) <= n:
        es += 1
    sr = (1 << es) * 16
    out = struct.pack(">IHHHH", 0x00010000, n, sr, es, n * 16 - sr)
    off = 12 + 16 * n
    body = b""
    for t in tags:
        d = tables[t]
        pad = (-len(d)) % 4
        out += struct.pack(">4sIII", t.encode(), 0, off, len(d))
        body += d + b"\0" * pad
        off += len(d) + pad
    return out + body


_HEAD = struct.pack(">IIIIHHqqhhhhHHhhh", 0x00010000, 0x00010000, 0, 0x5F0F3CF5, 0, 1000, 0, 0, 0, 0, 1000, 1000, 0, 8, 2, 0, 0)
_HHEA = struct.pack(">IhhhHhhhhhhhhhhhH", 0x00010000, 800, -200, 0, 1000, 0, 0, 1000, 1, 0, 0, 0, 0, 0, 0, 0, 1)


def build_font(groups):
    """groups: sorted, disjoint (start, end, start_gid); glyph = start_gid + (c - start)."""
    ng = 1
    for s, e, g in groups:
        ng = max(ng, min(65535, g + (e - s) + 1))
    maxp = struct.pack(">IH", 0x00005000, ng)
    hmtx = struct.pack(">Hh", 600, 0) + b"\0\0" * (ng - 1)
    sub = struct.pack(">HHIII", 12, 0, 16 + 12 * len(groups), 0, len(groups))
    for s, e, g in groups:
        sub += struct.pack(">III", s, e, g)
    cmap = struct.pack(">HHHHI", 0, 1, 3, 10, 12) + sub
    return _sfnt({"head": _HEAD, "hhea": _HHEA, "maxp": maxp, "hmtx": hmtx, "cmap": cmap})


def cmap_spec(groups):
    return ",".join(f"{s}-{e}:{g}" for s, e, g in groups) if groups else "-"


def groups_from_set(cps, gid_of=None):
    """explicit support set -> one group per maximal run; gids are 1.. in code point order unless given"""
    cps = sorted(set(cps))
    groups = []
    gid = 1
    i = 0
    while i < len(cps):
        j = i
        while j + 1 < len(cps) and cps[j + 1] == cps[j] + 1:
            j += 1
        groups.append((cps[i], cps[j], gid))
        gid += j - i + 1
        i = j + 1
    return groups


def groups_all_but(holes):
    """every scalar value except `holes`; glyph ids repeat per 0x8000 block (1 + c % 0x8000)"""
    holes = set(holes)
    groups = []
    for blk in range(0, 0x110000, 0x8000):
        lo = blk
        hs = sorted(h for h in holes if blk <= h < blk + 0x8000)
        for h in hs + [blk + 0x8000]:
            if lo <= h - 1:
                groups.append((lo, h - 1, 1 + (lo - blk)))
            lo = h + 1
    return groups


def glyph_of(groups, c):
    for s, e, g in groups:
        if s <= c <= e:
            v = g + (c - s)
            return v if v < 65536 else None
    return None


# ------------------------------------------------------------------------------------------------
# Unicode data of the crate (for the generators) and of CPython (reference oracles)


class UData:
    def __init__(self, shim):
        import norm as gnorm
        d = gnorm.dump(shim)
        self.decomp = {}
        for t in d["decomp"].split():
            c, a, b = (int(x) for x in t.split(":"))
            self.decomp[c] = (a, b)
        self.comp = {}
        for t in d["comp"].split():
            k, c = (int(x) for x in t.split(":"))
            self.comp[(k >> 32, k & 0xFFFFFFFF)] = c
        self.mcc = {}
        for lo, hi, v in gnorm._ranges(d["mcc"]):
            for c in range(lo, hi + 1):
                self.mcc[c] = v
        self.marks = set()
        for lo, hi, v in gnorm._ranges(d["marks"]):
            self.marks.update(range(lo, hi + 1))
        self.vs = set()
        for lo, hi, v in gnorm._ranges(d["vs"]):
            self.vs.update(range(lo, hi + 1))
        self.di = [(lo, hi) for lo, hi, v in gnorm._ranges(d["di"])]
        self.hangul = [int(x) for x in d["hangul"].split()]
        self.max_marks = int(d["consts"].split()[0])

    def dec1(self, c):
        S, L, V, T, LC, VC, TC, NC, SC = self.hangul
        if S <= c < S + SC:
            si = c - S
            if si % TC:
                return (S + si // TC * TC, T + si % TC)
            return (L + si // NC, V + (si % NC) // TC)
        return self.decomp.get(c)

    def closure(self, c):
        """c and everything reachable through decomposition"""
        out, todo = [], [c]
        while todo:
            x = todo.pop()
            if x in out or x == 0:
                continue
            out.append(x)
            d = self.dec1(x)
            if d:
                todo += [d[0], d[1]]
        return out

    def full(self, c):
        d = self.dec1(c)
        if not d:
            return [c]
        return self.full(d[0]) + ([d[1]] if d[1] else [])


def assigned14(c):
    return unicodedata.category(chr(c)) != "Cn"


# ------------------------------------------------------------------------------------------------
# correspondence stream norm-run


def pools(U):
    dec = sorted(U.decomp)
    by_ccc = {}
    for c in sorted(U.marks):
        if c in U.vs:
            continue
        by_ccc.setdefault(U.mcc.get(c, 0), []).append(c)
    latin_marks = [c for c in range(0x300, 0x370) if c != 0x34F]
    starters_with_comp = sorted({a for (a, b) in U.comp})
    seconds = sorted({b for (a, b) in U.comp})
    return {
        "dec": dec, "by_ccc": by_ccc, "latin_marks": latin_marks, "starters": starters_with_comp,
        "seconds": seconds, "marks0": by_ccc.get(0, []),
        "special": [0x20, 0xA0, 0x1680, 0x2000, 0x2003, 0x2007, 0x200A, 0x202F, 0x205F, 0x3000, 0x2011, 0x2010,
                    0x34F, 0x200C, 0x200D, 0xAD, 0x180B, 0x180F, 0xE0020, 0x61C, 0x25CC, 0x7F, 0x80, 0x41, 0x61],
    }


def rand_char(r, P, U):
    k = r.below(16)
    if k < 3: return r.choice(P["dec"])
    if k < 5: return r.choice(P["starters"])
    if k < 8: return r.choice(P["seconds"])
    if k < 10: return r.choice(P["latin_marks"])
    if k == 10:
        ccc = r.choice(sorted(P["by_ccc"]))
        return r.choice(P["by_ccc"][ccc])
    if k == 11: return r.choice(P["special"])
    if k == 12: return 0xAC00 + r.below(11172) if r.chance(1, 2) else r.choice([0x1100 + r.below(19), 0x1161 + r.below(21), 0x11A7 + r.below(28)])
    if k == 13: return r.choice(P["marks0"])
    if k == 14: return r.choice([0x34F, 0x300, 0x323, 0x5B0 + r.below(0x10), 0x64B + r.below(8), 0xE38, 0xE48, 0xF71, 0xF72, 0xF74])
    c = r.below(0x3000)
    return c


def rand_text(r, P, U):
    k = r.below(10)
    if k == 0:
        n = 1
    elif k < 7:
        n = r.range(2, 7)
    elif k < 9:
        n = r.range(8, 16)
    else:
        n = r.range(30, 40)
    t = []
    if k == 9:
        # long mark run around MAX_COMBINING_MARKS
        t.append(r.choice(P["starters"]))
        m = r.choice([U.max_marks - 1, U.max_marks, U.max_marks + 1, U.max_marks + 2])
        pool = [r.choice(P["latin_marks"]) for _ in range(3)] + [0x323, 0x301]
        t += [r.choice(pool) for _ in range(m)]
        t += [rand_char(r, P, U) for _ in range(r.below(3))]
    else:
        while len(t) < n:
            q = r.below(6)
            if q == 0:
                t.append(rand_char(r, P, U))
            elif q < 4:
                # a pair that composes, possibly with marks in between
                a, b = r.choice(P["pairs"])
                t.append(a)
                for _ in range(r.below(3)):
                    t.append(r.choice(P["latin_marks"] + [0x34F]) if r.chance(2, 3) else rand_char(r, P, U))
                t.append(b)
            else:
                t.append(r.choice(P["dec"]))
                for _ in range(r.below(3)):
                    t.append(r.choice(P["seconds"]))
    t = [c for c in t if c not in U.vs and not (0xD800 <= c <= 0xDFFF)]
    return t or [0x41]


def rand_clusters(r, text, U):
    k = r.below(5)
    n = len(text)
    if k == 0:
        return list(range(n))
    if k == 1:
        out, cur = [], 0
        for i, c in enumerate(text):
            if not (c in U.marks and i > 0):
                cur = i
            out.append(cur)
        return out
    if k == 2:
        return [7] * n
    if k == 3:
        out, cur = [], 0
        for i in range(n):
            if r.chance(1, 2):
                cur += r.range(1, 3)
            out.append(cur)
        return out
    out, cur = [], 3 * n
    for i in range(n):
        if r.chance(2, 3):
            cur -= r.range(1, 3)
        out.append(cur)
    return out


def rand_support(r, text, U):
    """format-12 groups for a support pattern relevant to `text`"""
    rel = []
    for c in text:
        for x in U.closure(c):
            if x not in rel:
                rel.append(x)
    # compositions of adjacent-ish pairs are relevant too
    extra = []
    for i, a in enumerate(text):
        for b in text[i + 1:i + 4]:
            for x in U.closure(a)[:3]:
                c = U.comp.get((x, b))
                if c is not None:
                    extra.append(c)
    rel += [c for c in extra if c not in rel]
    rel += [0x20, 0x2010]
    k = r.below(8)
    if k == 0:
        return groups_all_but([])
    if k == 1:
        return []
    p = r.choice([1, 2, 3])
    chosen = [c for c in rel if r.below(4) < p]
    if k < 5:
        return groups_all_but([c for c in rel if c not in chosen])
    return groups_from_set(chosen)


def run_line(mode, level, inv, groups, text, clusters, masks):
    f = build_font(groups)
    t = ",".join(f"{c}:{cl}:{m}" for c, cl, m in zip(text, clusters, masks))
    return f"norm run {mode} {level} {inv if inv is not None else '-'} {f.hex()} {cmap_spec(groups)} {t}"


def gen_run_lines(r, n, U):
    P = pools(U)
    P["pairs"] = sorted(U.comp)
    lines = []
    for _ in range(n):
        text = rand_text(r, P, U)
        groups = rand_support(r, text, U)
        clusters = rand_clusters(r, text, U)
        mk = r.below(4)
        masks = [0] * len(text) if mk < 2 else [r.choice([0, 1, 2, 3, 7, 0x80000000, 0x80000005]) for _ in text]
        mode = r.choice([0, 1, 2, 2, 3, 4, 4])
        inv = r.choice([None, None, None, 3])
        lines.append(run_line(mode, r.below(2), inv, groups, text, clusters, masks))
    return lines


def parse_text_tok(tok):
    return [tuple(int(x) for x in t.split(":")) for t in tok.split(",")]


def classify_run(ln, out):
    t = ln.split()
    ks = ["mode" + t[2]]
    if not out.startswith("ok"):
        return ks + ["reply:" + out.split()[0]]
    inp = [x[0] for x in parse_text_tok(t[7])]
    o = out.split()
    recs = [tuple(int(x) for x in z.split(":")) for z in o[3:]]
    outc = [x[0] for x in recs]
    if outc == inp:
        ks.append("unchanged")
    elif len(outc) > len(inp):
        ks.append("longer")
    elif len(outc) < len(inp):
        ks.append("shorter")
    elif sorted(outc) == sorted(inp):
        ks.append("reordered")
    else:
        ks.append("same-length-changed")
    if any(x[3] == 0 for x in recs):
        ks.append("has-notdef")
    if len(inp) == 1:
        ks.append("single")
    if len(inp) > 32:
        ks.append("len>32")
    fl = int(o[2])
    if fl & 4: ks.append("space-fallback")
    if fl & 16: ks.append("cgj")
    if any(x[7] == 0 and x[0] == 0x34F for x in recs): ks.append("cgj-unhidden")
    if len(set(x[1] for x in recs)) < len(set(x[1] for x in parse_text_tok(t[7]))): ks.append("clusters-merged")
    return ks


def prim_lines(U, r, n):
    lines = []
    # every row of both tables, Hangul borders, and random pairs
    for c in sorted(U.decomp):
        lines.append(f"norm decompose {c}")
    for (a, b) in sorted(U.comp):
        lines.append(f"norm compose {a} {b}")
    S, L, V, T, LC, VC, TC, NC, SC = U.hangul
    for c in [S - 1, S, S + 1, S + TC - 1, S + TC, S + SC - 1, S + SC, L, V, T, 0, 0x10FFFF, 0xD7FF, 0xE000]:
        lines.append(f"norm decompose {c}")
        lines.append(f"norm props {c}")
    for a in [L - 1, L, L + LC - 1, L + LC, S, S + TC, S + SC - TC, S + SC - 1, S + 1]:
        for b in [V - 1, V, V + VC - 1, V + VC, T - 1, T, T + 1, T + TC - 1, T + TC]:
            lines.append(f"norm compose {a} {b}")
    P = pools(U)
    for _ in range(n):
        k = r.below(4)
        if k == 0:
            lines.append(f"norm compose {r.choice(P['starters'])} {r.choice(P['seconds'])}")
        elif k == 1:
            c = r.below(0x110000)
            if 0xD800 <= c <= 0xDFFF: c = 0x41
            lines.append(f"norm props {c}")
        elif k == 2:
            c = r.below(0x30000)
            if 0xD800 <= c <= 0xDFFF: c = 0x41
            lines.append(f"norm decompose {c}")
        else:
            lines.append(f"norm compose {S + r.below(SC)} {T + r.below(TC)}" if r.chance(1, 2)
                         else f"norm compose {L + r.below(LC)} {V + r.below(VC)}")
    return lines


def run(ctx):
    ctx.assumptions += [
        "the theorems are about the Lean model of ot_shape_normalize.rs / unicode.rs (Norm.lean); the model is tied to "
        "the crate by the norm-run correspondence stream (hook verif::normalize::normalize on a bare buffer, default "
        "shaper, normalization preference 0..4, cluster level 0/1)",
        "clusters containing a variation selector, cluster level 2 and shapers that override compose/decompose or "
        "reorder_marks (Hebrew, Arabic, Indic, USE, ...) are outside the model",
        "Unicode data are the crate's own tables (Gen/Norm.lean, dumped through hooks); the reference (Gen/NormRef.lean) "
        "is CPython unicodedata %s restricted to characters assigned there" % unicodedata.unidata_version,
    ]
    ctx.regen()
    ctx.prove(MODULE)
    shim = vlib.build_harness()
    U = UData(shim)
    ctx.correspond("norm-prims", lines=prim_lines(U, ctx.rng("prims"), ctx.budget(4000, 100000)),
                   classify=lambda ln, out: [ln.split()[1] + (":none" if out == "-" else "")])
    ctx.correspond("norm-run", lines=gen_run_lines(ctx.rng("run"), ctx.budget(6000, 150000), U), classify=classify_run)


def replay(ctx, rp):
    shim = vlib.build_harness()
    if "request" in rp:
        model = vlib.build_model()
        a = vlib.run_lines(shim, [rp["request"]], nproc=1)[0]
        b = vlib.run_lines(model, [rp["request"]], nproc=1)[0]
        print("impl :", a); print("model:", b)
        return 0 if a == b else 1
    print(rp); return 1
