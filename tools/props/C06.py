"""C06 — GSUB lookups are applied as the OpenType substitution model prescribes."""
import vlib, bufgen

MODULE = "RbModel.Props.C06"
LEVEL = "proof"


def canon(x):
    if x.startswith("panic"):
        if "assertion" in x: return "panic assert"
        if any(k in x for k in ("index out of bounds", "out of range", "slice index", "range end", "range start")):
            return "panic oob"
    return x


def walks(r, n):
    lines = []
    for _ in range(n):
        k = r.below(10)
        if k < 7:
            st = bufgen.fresh_state(r, r.range(0, 7), mono=r.choice(["asc", "asc", "desc", "rand"]))
            lines.append(bufgen.walk_line(st, bufgen.gen_out_walk(r, st, r.range(1, 10), adversarial=r.chance(1, 10))))
        elif k < 8:
            st = bufgen.fresh_state(r, r.range(0, 7), mono=r.choice(["asc", "desc", "rand"]))
            lines.append(bufgen.walk_line(st, bufgen.gen_inplace_walk(r, st, r.range(1, 6))))
        else:
            lines.append(bufgen.adversarial_case(r))
    return lines


def classify(ln, out):
    ks = []
    for op in ln.split(" ; ")[1:]:
        ks.append("op:" + op.split()[0])
    ks.append("panic" if out.startswith("panic") else "ok")
    if " s=1 " in out: ks.append("separate-output-reached")
    if " ok=0 " in out: ks.append("alloc-failure-reached")
    return ks


def zipper_search(ctx, shim, r, n):
    lines = []
    for _ in range(n):
        st = bufgen.fresh_state(r, r.range(1, 8), mono=r.choice(["asc", "asc", "desc"]), maxlen=1000)
        lines.append(bufgen.walk_line(st, bufgen.gen_out_walk(r, st, r.range(2, 12))))
    outs = vlib.run_lines(shim, lines)
    bad = []
    rewinds = 0
    for ln, o in zip(lines, outs):
        d = bufgen.check_zipper(ln, o)
        if "moveto" in ln: rewinds += 1
        if d:
            bad.append((len(ln), ln, d, o))
    bad.sort()
    for _, ln, d, o in bad[:3]:
        ctx.violation(f"buffer primitive does not act as a list-zipper operation: {d['kind']} at step {d.get('step')} ({d.get('op')})",
                      {"stage": "search", "stream": "buf-zipper", "request": ln, "deviation": d, "observed": o[:2000]})
    ctx.note_search("buf-zipper", len(lines), len(set(lines)), with_move_to=rewinds, deviations=len(bad),
                    rule="random walks of in/out primitives from a fresh buffer (clear_output … sync); after every primitive the "
                         "view (out-prefix, in-suffix) of the crate's buffer is compared with the python list-zipper meaning; "
                         "distinct = distinct request lines")


def run(ctx):
    ctx.assumptions += [
        "part 1 only (buffer ⊑ list zipper): the lookup interpreter model (Gsub) is added later; until then the GSUB "
        "sentence of the property is carried by the repository's own fixtures",
    ]
    ctx.regen()
    ctx.prove(MODULE)
    shim = vlib.build_harness()
    ctx.correspond("buf-walks", lines=walks(ctx.rng("walks"), ctx.budget(20000, 300000)), classify=classify, canon=canon)
    zipper_search(ctx, shim, ctx.rng("zipper"), ctx.budget(20000, 300000))


def replay(ctx, rp):
    shim = vlib.build_harness(); model = vlib.build_model()
    a = vlib.run_lines(shim, [rp["request"]], nproc=1)[0]
    b = vlib.run_lines(model, [rp["request"]], nproc=1)[0]
    print("impl :", a[:3000]); print("model:", b[:3000])
    d = bufgen.check_zipper(rp["request"], a) if rp["request"].startswith("buft") else None
    print("zipper deviation:", d)
    return 1 if (d or canon(a) != b) else 0
