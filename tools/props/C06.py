"""C06 — GSUB lookups are applied as the OpenType substitution model prescribes."""
import vlib, bufgen, gsubgen, fontbuild

MODULE = "RbModel.Props.C06"
LEVEL = "proof"


def canon(x):
    if x.startswith("panic"):
        if "assertion" in x: return "panic assert"
        if any(k in x for k in ("index out of bounds", "out of range", "slice index", "range end", "range start")):
            return "panic oob"
    return x


def walks(r, n):
    lines = []
    for _ in range(n):
        k = r.below(10)
        if k < 7:
            st = bufgen.fresh_state(r, r.range(0, 7), mono=r.choice(["asc", "asc", "desc", "rand"]))
            lines.append(bufgen.walk_line(st, bufgen.gen_out_walk(r, st, r.range(1, 10), adversarial=r.chance(1, 10))))
        elif k < 8:
            st = bufgen.fresh_state(r, r.range(0, 7), mono=r.choice(["asc", "desc", "rand"]))
            lines.append(bufgen.walk_line(st, bufgen.gen_inplace_walk(r, st, r.range(1, 6))))
        else:
            lines.append(bufgen.adversarial_case(r))
    return lines


def classify(ln, out):
    ks = []
    for op in ln.split(" ; ")[1:]:
        ks.append("op:" + op.split()[0])
    ks.append("panic" if out.startswith("panic") else "ok")
    if " s=1 " in out: ks.append("separate-output-reached")
    if " ok=0 " in out: ks.append("alloc-failure-reached")
    return ks


def zipper_search(ctx, shim, r, n):
    lines = []
    for _ in range(n):
        st = bufgen.fresh_state(r, r.range(1, 8), mono=r.choice(["asc", "asc", "desc"]), maxlen=1000)
        lines.append(bufgen.walk_line(st, bufgen.gen_out_walk(r, st, r.range(2, 12))))
    outs = vlib.run_lines(shim, lines)
    bad = []
    rewinds = 0
    for ln, o in zip(lines, outs):
        d = bufgen.check_zipper(ln, o)
        if "moveto" in ln: rewinds += 1
        if d:
            bad.append((len(ln), ln, d, o))
    bad.sort()
    for _, ln, d, o in bad[:3]:
        ctx.violation(f"buffer primitive does not act as a list-zipper operation: {d['kind']} at step {d.get('step')} ({d.get('op')})",
                      {"stage": "search", "stream": "buf-zipper", "request": ln, "deviation": d, "observed": o[:2000]})
    ctx.note_search("buf-zipper", len(lines), len(set(lines)), with_move_to=rewinds, deviations=len(bad),
                    rule="random walks of in/out primitives from a fresh buffer (clear_output … sync); after every primitive the "
                         "view (out-prefix, in-suffix) of the crate's buffer is compared with the python list-zipper meaning; "
                         "distinct = distinct request lines")


def gsub_groups(ctx, shim, r, nfonts, per_font, types=(1, 2, 3, 4, 5, 6, 8)):
    """fonts from random recipes; the plan's lookup list is taken from the crate (planinfo) and handed to the
    model together with the flattened recipe; both then run GSUB on the same injected buffers."""
    fonts, g1 = [], []
    seeds = load_corpus()
    for i in range(len(seeds) + nfonts):
        if i < len(seeds):
            rec, feats = seeds[i]["recipe"], seeds[i].get("feats", "-")
        else:
            rec = gsubgen.rand_recipe(r, types=types)
            feats = gsubgen.user_features(r, rec)
        try:
            hexf = fontbuild.hexfont(rec)
        except fontbuild.FontBuildError:
            continue
        fid = f"G{i}"
        fonts.append((fid, rec, feats, hexf, seeds[i].get("texts") if i < len(seeds) else None))
        g1.append([f"font {fid} {hexf}", f"planinfo {fid} l DFLT - {feats}"])
    o1 = vlib.run_groups(shim, g1)
    groups = []
    for (fid, rec, feats, hexf, texts), o in zip(fonts, o1):
        if o[0] != "ok" or not o[1].startswith("ok"):
            ctx.violation("generated GSUB font rejected or plan failed", {"stage": "search", "stream": "gsub-interp",
                          "recipe": rec, "observed": o})
            continue
        maps = o[1].split()[1]
        if maps == "-":
            mt = "0"
        else:
            ms = [m.split(":") for m in maps.split(",")]
            mt = str(len(ms)) + " " + " ".join(" ".join(m[1:]) for m in ms)
        ft = gsubgen.flatten(rec)
        lines = [f"font {fid} {hexf}"]
        for t in texts or []:
            k = len(t)
            info = [(g, 0xFFFFFFF8, i, 0, 7) for i, g in enumerate(t)]
            st = {"L": 0, "F": 0, "M": max(64 * k, 16384), "O": max(1024 * k, 16384), "h": 0, "s": 0, "i": 0, "n": k,
                  "o": 0, "I": info, "U": [(0, 0, 0, 0, 0)] * k}
            lines.append(f"gsub {fid} l DFLT - {feats} 1 FONT {ft} MAPS {mt} BUF {bufgen.state_str(st)}")
        for _ in range(per_font):
            st = gsubgen.rand_buffer(r, rec)
            lines.append(f"gsub {fid} l DFLT - {feats} 1 FONT {ft} MAPS {mt} BUF {bufgen.state_str(st)}")
        groups.append(lines)
    return groups


def load_corpus():
    """minimised past failures (corpus/C06/*.json) run first"""
    import json, os, glob
    out = []
    for f in sorted(glob.glob(os.path.join(vlib.ROOT, "corpus", "C06", "*.json"))):
        d = json.load(open(f))
        # JSON has lists where the recipe format wants tuples: fontbuild accepts both
        out.append(d)
    return out


def gsub_panic_search(ctx, shim, groups):
    """oracle on the crate alone: GSUB on a well-formed font must not panic"""
    outs = vlib.run_groups(shim, groups, timeout=300)
    n = bad = 0
    for g, o in zip(groups, outs):
        for ln, x in zip(g[1:], o[1:]):
            n += 1
            if x.startswith("panic") or x.startswith("abort") or x == "timeout":
                bad += 1
                if bad <= 3:
                    ctx.violation(f"GSUB application on a well-formed generated font does not return normally: {x[:160]}",
                                  {"stage": "search", "stream": "gsub-total", "font_line": g[0], "request": ln, "observed": x})
    ctx.note_search("gsub-total", n, n, failures=bad,
                    rule="every gsub-interp request (well-formed random GSUB/GDEF recipes incl. self-recursive and deleting "
                         "nested lookups, corpus seeds first) must return normally on the crate")


def gsub_classify(ln, out):
    ks = []
    t = ln.split(" FONT ")[1].split(" MAPS ")[0]
    if out.startswith("panic"): ks.append("panic")
    src = ln.split(" I=")[-1].split(" U=")[0]
    dst = out.split(" I=")[-1].split(" U=")[0] if " I=" in out else ""
    gids = lambda s: [e.split(":")[0] for e in s.split(",")] if s and s != "-" else []
    n = int(ln.split(" n=")[1].split()[0])
    n2 = int(out.split(" n=")[1].split()[0]) if " n=" in out else n
    ks.append("glyphs-substituted" if gids(src)[:n] != gids(dst)[:n2] else "glyphs-unchanged")
    if n2 > n: ks.append("length-grew")
    if n2 < n: ks.append("length-shrank")
    if " ok=0 " in out: ks.append("unsuccessful")
    try:
        o0 = int(ln.split(" O=")[1].split()[0]); o1 = int(out.split(" O=")[1].split()[0])
        if o1 < o0: ks.append("nested-lookups-ran")
        if o0 - o1 >= 64: ks.append("nesting-limit-reached")
    except Exception:
        pass
    return ks


def run(ctx):
    ctx.assumptions += [
        "part 1 only (buffer ⊑ list zipper): the lookup interpreter model (Gsub) is added later; until then the GSUB "
        "sentence of the property is carried by the repository's own fixtures",
    ]
    ctx.regen()
    ctx.prove(MODULE)
    shim = vlib.build_harness()
    ctx.correspond("buf-walks", lines=walks(ctx.rng("walks"), ctx.budget(20000, 300000)), classify=classify, canon=canon)
    zipper_search(ctx, shim, ctx.rng("zipper"), ctx.budget(20000, 300000))
    groups = gsub_groups(ctx, shim, ctx.rng("gsub"), ctx.budget(300, 6000), 8)
    gsub_panic_search(ctx, shim, groups)
    ctx.correspond("gsub-interp", groups=groups, classify=gsub_classify, canon=canon,
                   only=lambda ln: ln.startswith("gsub "))


def replay(ctx, rp):
    shim = vlib.build_harness(); model = vlib.build_model()
    a = vlib.run_lines(shim, [rp["request"]], nproc=1)[0]
    b = vlib.run_lines(model, [rp["request"]], nproc=1)[0]
    print("impl :", a[:3000]); print("model:", b[:3000])
    d = bufgen.check_zipper(rp["request"], a) if rp["request"].startswith("buft") else None
    print("zipper deviation:", d)
    return 1 if (d or canon(a) != b) else 0
