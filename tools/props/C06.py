"""C06 — GSUB lookups are applied as the OpenType substitution model prescribes."""
import vlib, bufgen, gsubgen, fontbuild

MODULE = "RbModel.Props.C06"
LEVEL = "proof"


def canon(x):
    if x.startswith("panic"):
        if "assertion" in x: return "panic assert"
        if any(k in x for k in ("index out of bounds", "out of range", "slice index", "range end", "range start")):
            return "panic oob"
    return x


def walks(r, n):
    lines = []
    for _ in range(n):
        k = r.below(10)
        if k < 7:
            st = bufgen.fresh_state(r, r.range(0, 7), mono=r.choice(["asc", "asc", "desc", "rand"]))
            lines.append(bufgen.walk_line(st, bufgen.gen_out_walk(r, st, r.range(1, 10), adversarial=r.chance(1, 10))))
        elif k < 8:
            st = bufgen.fresh_state(r, r.range(0, 7), mono=r.choice(["asc", "desc", "rand"]))
            lines.append(bufgen.walk_line(st, bufgen.gen_inplace_walk(r, st, r.range(1, 6))))
        else:
            lines.append(bufgen.adversarial_case(r))
    return lines


def classify(ln, out):
    ks = []
    for op in ln.split(" ; ")[1:]:
        ks.append("op:" + op.split()[0])
    ks.append("panic" if out.startswith("panic") else "ok")
    if " s=1 " in out: ks.append("separate-output-reached")
    if " ok=0 " in out: ks.append("alloc-failure-reached")
    return ks


def zipper_search(ctx, shim, r, n):
    lines = []
    for _ in range(n):
        st = bufgen.fresh_state(r, r.range(1, 8), mono=r.choice(["asc", "asc", "desc"]), maxlen=1000)
        lines.append(bufgen.walk_line(st, bufgen.gen_out_walk(r, st, r.range(2, 12))))
    outs = vlib.run_lines(shim, lines)
    bad = []
    rewinds = 0
    for ln, o in zip(lines, outs):
        d = bufgen.check_zipper(ln, o)
        if "moveto" in ln: rewinds += 1
        if d:
            bad.append((len(ln), ln, d, o))
    bad.sort()
    for _, ln, d, o in bad[:3]:
        ctx.violation(f"buffer primitive does not act as a list-zipper operation: {d['kind']} at step {d.get('step')} ({d.get('op')})",
                      {"stage": "search", "stream": "buf-zipper", "request": ln, "deviation": d, "observed": o[:2000]})
    ctx.note_search("buf-zipper", len(lines), len(set(lines)), with_move_to=rewinds, deviations=len(bad),
                    rule="random walks of in/out primitives from a fresh buffer (clear_output … sync); after every primitive the "
                         "view (out-prefix, in-suffix) of the crate's buffer is compared with the python list-zipper meaning; "
                         "distinct = distinct request lines")


def multi_recipe(r):
    """a font whose lookups are all top-level multiple substitutions (GSUB type 2) with sequence lengths 0, 1, 2, 3 and more
    (the theorems C06_multiple_subst_refines_spec / C06_multiple_delete_partial are about exactly these lookups); one
    font in two has no empty sequence, so that clusters are compared too"""
    rec = gsubgen.rand_recipe(r, types=(2,), max_lookups=3)
    n = rec["num_glyphs"]
    lens = [1, 2, 2, 3, 4, 6] if r.chance(1, 2) else [0, 0, 1, 2, 3, 5]
    for lk in rec["gsub"]["lookups"]:
        for stt in lk["subtables"]:
            stt["sequences"] = [[gsubgen.rand_gid(r, n) for _ in range(r.choice(lens))] for _ in stt["coverage"]]
    return rec


def multi_seq_lengths(recs):
    """histogram of the sequence lengths of top-level type-2 lookups over the generated fonts"""
    h = {"0": 0, "1": 0, "2": 0, "3": 0, "4+": 0}
    for rec in recs:
        for lk in rec["gsub"]["lookups"]:
            if lk["type"] == 2:
                for stt in lk["subtables"]:
                    for q in stt["sequences"]:
                        h[str(len(q)) if len(q) < 4 else "4+"] += 1
    return h


def gsub_groups(ctx, shim, r, nfonts, per_font, types=(1, 2, 3, 4, 5, 6, 8), nmulti=0):
    """fonts from random recipes; the plan's lookup list is taken from the crate (planinfo) and handed to the
    model together with the flattened recipe; both then run GSUB on the same injected buffers.
    The last `nmulti` fonts are multiple-substitution-only fonts (`multi_recipe`), drawn from their own generator."""
    fonts, g1 = [], []
    seeds = load_corpus()
    rm = ctx.rng("gsub-multi") if nmulti else None
    for i in range(len(seeds) + nfonts + nmulti):
        if i < len(seeds):
            rec, feats = seeds[i]["recipe"], seeds[i].get("feats", "-")
        elif i >= len(seeds) + nfonts:
            rec = multi_recipe(rm)
            feats = gsubgen.user_features(rm, rec)
        else:
            rec = gsubgen.rand_recipe(r, types=types, expansion=(1, 4))
            feats = gsubgen.user_features(r, rec)
        try:
            hexf = fontbuild.hexfont(rec)
        except fontbuild.FontBuildError:
            continue
        fid = f"G{i}"
        fonts.append((fid, rec, feats, hexf, seeds[i].get("texts") if i < len(seeds) else None))
        g1.append([f"font {fid} {hexf}", f"planinfo {fid} l DFLT - {feats}"])
    o1 = vlib.run_groups(shim, g1)
    groups = []
    recs = []
    for (fid, rec, feats, hexf, texts), o in zip(fonts, o1):
        if o[0] != "ok" or not o[1].startswith("ok"):
            ctx.violation("generated GSUB font rejected or plan failed", {"stage": "search", "stream": "gsub-interp",
                          "recipe": rec, "observed": o})
            continue
        maps = o[1].split()[1]
        if maps == "-":
            mt = "0"
        else:
            ms = [m.split(":") for m in maps.split(",")]
            mt = str(len(ms)) + " " + " ".join(" ".join(m[1:]) for m in ms)
        ft = gsubgen.flatten(rec)
        lines = [f"font {fid} {hexf}"]
        for t in texts or []:
            k = len(t)
            info = [(g, 0xFFFFFFF8, i, 0, 7) for i, g in enumerate(t)]
            st = {"L": 0, "F": 0, "M": max(64 * k, 16384), "O": max(1024 * k, 16384), "h": 0, "s": 0, "i": 0, "n": k,
                  "o": 0, "I": info, "U": [(0, 0, 0, 0, 0)] * k}
            lines.append(f"gsub {fid} l DFLT - {feats} 1 FONT {ft} MAPS {mt} BUF {bufgen.state_str(st)}")
        for _ in range(per_font):
            st = gsubgen.rand_buffer(rm if (rm is not None and int(fid[1:]) >= len(seeds) + nfonts) else r, rec)
            lines.append(f"gsub {fid} l DFLT - {feats} 1 FONT {ft} MAPS {mt} BUF {bufgen.state_str(st)}")
        groups.append(lines)
        recs.append(rec)
    return groups, recs


def load_corpus():
    """minimised past failures (corpus/C06/*.json) run first"""
    import json, os, glob
    out = []
    for f in sorted(glob.glob(os.path.join(vlib.ROOT, "corpus", "C06", "*.json"))):
        d = json.load(open(f))
        # JSON has lists where the recipe format wants tuples: fontbuild accepts both
        out.append(d)
    return out


def gsub_panic_search(ctx, shim, groups):
    """oracle on the crate alone: GSUB on a well-formed font must not panic"""
    outs = vlib.run_groups(shim, groups, timeout=300)
    n = bad = 0
    for g, o in zip(groups, outs):
        for ln, x in zip(g[1:], o[1:]):
            n += 1
            if x.startswith("panic") or x.startswith("abort") or x == "timeout":
                bad += 1
                if bad <= 3:
                    ctx.violation(f"GSUB application on a well-formed generated font does not return normally: {x[:160]}",
                                  {"stage": "search", "stream": "gsub-total", "font_line": g[0], "request": ln, "observed": x})
    ctx.note_search("gsub-total", n, n, failures=bad,
                    rule="every gsub-interp request (well-formed random GSUB/GDEF recipes incl. self-recursive and deleting "
                         "nested lookups, corpus seeds first) must return normally on the crate")


def in_spec_domain(rec, st):
    """Is this (font, buffer) inside the domain where the OpenType substitution model is unambiguous?
    Returns (ok, compare_clusters)."""
    for it in st["I"][:st["n"]]:
        if it[4] & 0x20:
            return False, False                      # default-ignorable glyph (HarfBuzz-specific skipping rules)
    hg, hc, _ = gsubgen.glyph_props(rec)
    lookups = rec["gsub"]["lookups"]
    deleting = False

    def single_position(lk):
        if lk["type"] in (1, 3):
            return True
        if lk["type"] == 2:
            return all(len(s) >= 1 for stt in lk["subtables"] for s in stt["sequences"])
        return False

    for lk in lookups:
        flag = lk.get("flag", 0)
        ignores = flag & 0xFF1E or lk.get("mark_set") is not None
        if ignores and not hc:
            return False, False                      # class-based ignoring without GDEF classes: guessed classes
        if lk["type"] == 4 and ignores:
            return False, False                      # ligature ids / components decide later matches
        if lk["type"] == 2 and any(len(s) == 0 for stt in lk["subtables"] for s in stt["sequences"]):
            deleting = True
        if lk["type"] in (5, 6):
            for stt in lk["subtables"]:
                recs = []
                if stt["format"] == 3:
                    recs = list(stt["lookups"])
                else:
                    for rs in stt.get("rulesets", stt.get("classsets", [])) or []:
                        for ru in rs or []:
                            recs += list(ru["lookups"])
                for _, li in recs:
                    if li < len(lookups) and not single_position(lookups[li]):
                        return False, False          # the specification is silent on shrinking / contextual nesting
    return True, not deleting


def spec_search(ctx, shim, model, groups, recs):
    """three-way: the crate's GSUB result vs the declarative OpenType substitution model (Spec/OpenTypeSubst.lean)"""
    a = vlib.run_groups(shim, groups, timeout=300)
    sgroups = [[g[0]] + ["gsubspec" + ln[4:] for ln in g[1:]] for g in groups]
    b = vlib.run_groups(model, sgroups, timeout=300)
    n = indom = withcl = bad = changed = grew = shrank = expn = grown = 0
    for g, rec, xs, ys in zip(groups, recs, a, b):
        for ln, x, y in zip(g[1:], xs[1:], ys[1:]):
            n += 1
            st = bufgen.parse_state(ln.split(" BUF ")[1])
            ok, cmpcl = in_spec_domain(rec, st)
            if not ok or not x.startswith("ok ") or " ok=0 " in x:
                continue
            indom += 1
            out = bufgen.parse_state(x[3:])
            if out["n"] > st["n"]: grew += 1
            if out["n"] < st["n"]: shrank += 1
            got = [(i[0], i[2]) for i in out["I"][:out["n"]]]
            if rec.get("profile") == "expansion":
                expn += 1
                if out["n"] >= st["n"] + 2: grown += 1
            t = y.split()
            want = [] if len(t) < 3 or t[2] == "-" else [tuple(int(v) for v in e.split(":")) for e in t[2].split(",")]
            if [p[0] for p in got] != [i[0] for i in st["I"][:st["n"]]]:
                changed += 1
            if cmpcl:
                withcl += 1
                same = got == want
            else:
                same = [p[0] for p in got] == [p[0] for p in want]
            if not same:
                bad += 1
                if bad <= 3:
                    ctx.violation("GSUB result differs from the OpenType substitution model",
                                  {"stage": "search", "stream": "gsub-spec", "font_line": g[0], "request": ln,
                                   "recipe": rec, "crate": got, "spec_model": want, "clusters_compared": cmpcl})
    ctx.note_search("gsub-spec", n, indom, in_domain=indom, clusters_compared=withcl, glyphs_substituted=changed,
                    string_grew=grew, string_shrank=shrank, top_level_multiple_seq_lengths=multi_seq_lengths(recs),
                    expansion_profile=expn, expansion_grew_by_two_or_more=grown, deviations=bad,
                    rule="the gsub-interp requests; non-trivial = inside the documented domain of unambiguity (no default "
                         "ignorables, ligature lookups without ignore flags, nested lookups single-position and non-shrinking); "
                         "glyph ids always compared, clusters too unless the font has a deleting lookup; a quarter of the fonts "
                         "come from the expansion profile of tools/gsubgen.py (contextual / chained rules of all three formats whose "
                         "first records are 1 -> 3..5 multiple substitutions and whose later records address every place of the grown "
                         "sequence — each added glyph, the shifted originals, past the end — through nested single / alternate / "
                         "multiple lookups that give every glyph a target of its own)")



# ------------------------------------------------------------------------------------------------
# through shape(): the whole sentence of the property (plan + interpreter) against the OpenType model

DEFAULT_ON = {"abvm", "blwm", "ccmp", "locl", "mark", "mkmk", "rlig", "calt", "clig", "curs", "dist", "kern", "liga", "rclt",
              "ltra", "ltrm", "rand", "trak", "frac", "numr", "dnom"}       # default shaper, horizontal left-to-right
GLOBAL_BIT = 0x80000000


def plan_by_the_text(rec, user):
    """The lookups the property prescribes for the default shaper, LTR, script DFLT, features `user` (tag -> 0/1):
    the shaper's default features plus the user's, each found through the selected language system; the required feature of
    that language system is always on; 'rvrn' forms its own first stage; within a stage lookup-list order, one entry per lookup.
    A required feature runs in the stage of the features that carry its tag (stage 0 when the tag is not in use)."""
    g = rec["gsub"]
    feats = g["features"]
    ls = (g.get("scripts") or [{"default": {"required": None, "features": list(range(len(feats)))}}])[0]["default"]
    on = {t for t in DEFAULT_ON if user.get(t, 1) != 0} | {t for t, v in user.items() if v != 0}
    stage_of = lambda tag: 0 if tag == "rvrn" else 1
    stages = {0: set(), 1: set()}
    req = ls.get("required")
    if req is not None and req < len(feats):
        rtag = feats[req]["tag"]
        stages[stage_of(rtag) if (rtag in on or rtag == "rvrn") else 0] |= set(feats[req]["lookups"])
    for tag in on | {"rvrn"}:
        for fi in ls["features"]:                        # find_language_feature: first feature of the langsys with the tag
            if fi < len(feats) and feats[fi]["tag"] == tag:
                stages[stage_of(tag)] |= set(feats[fi]["lookups"])
                break
    nl = len(g["lookups"])
    return [i for st in (0, 1) for i in sorted(stages[st]) if i < nl]


def shape_spec_search(ctx, shim, model, r, nfonts, per_font):
    import fontbuild
    fonts = []
    for k in range(nfonts):
        rec = gsubgen.rand_recipe(r, types=(1, 2, 3, 4, 5, 6, 8), expansion=(1, 4))
        feats = rec["gsub"]["features"]
        nf = len(feats)
        listed = [i for i in range(nf) if r.chance(3, 4)]
        required = None
        if r.chance(1, 2):
            # a required feature: listed as well or not; with a tag the shaper knows or a made-up one
            if r.chance(1, 3):
                feats.append({"tag": r.choice(["zq01", "rvrn", "test"]), "lookups": sorted(set(r.sample(range(len(rec["gsub"]["lookups"])), 1)))})
                required = len(feats) - 1
            else:
                required = r.below(nf)
                if r.chance(1, 2) and required in listed:
                    listed.remove(required)
        rec["gsub"]["scripts"] = [{"tag": "DFLT", "default": {"required": required, "features": listed}, "langs": []}]
        # duplicate tags are legal but make "the feature with that tag" ambiguous: keep tags distinct
        if len({f["tag"] for f in feats}) != len(feats):
            continue
        try:
            hexf = fontbuild.hexfont(rec)
        except fontbuild.FontBuildError:
            continue
        fonts.append((f"H{k}", rec, hexf))
    g_shape, g_spec, meta = [], [], []
    for fid, rec, hexf in fonts:
        ft = gsubgen.flatten(rec)
        ls, lm, mm = [f"font {fid} {hexf}"], [f"font {fid} {hexf}"], []
        tags = [f["tag"] for f in rec["gsub"]["features"]]
        for _ in range(per_font):
            user = {}
            for t in tags:
                if r.chance(1, 3):
                    user[t] = r.choice([0, 1, 1])
            fstr = ",".join(f"{gsubgen.tag_hex(t)}:{v}:0:4294967295" for t, v in sorted(user.items())) or "-"
            order = plan_by_the_text(rec, user)
            mt = str(len(order)) + "".join(f" {i} {GLOBAL_BIT} 1 1 0 0" for i in order)
            n = rec["num_glyphs"]
            k = r.range(1, 8)
            gl = gsubgen.rand_glyphs(r, rec, k)
            k = len(gl)
            info = [(g, 0xFFFFFFF8, i, 0, 7) for i, g in enumerate(gl)]
            st = {"L": 0, "F": 0, "M": max(64 * k, 16384), "O": max(1024 * k, 16384), "h": 0, "s": 0, "i": 0, "n": k,
                  "o": 0, "I": info, "U": [(0, 0, 0, 0, 0)] * k}
            text = ",".join(f"{0xE000 + g - 1:x}:{i}" for i, g in enumerate(gl))
            ls.append(f"shape {fid} l DFLT - 0 0 {fstr} - - {text}")
            lm.append(f"gsubspec {fid} l DFLT - {fstr} 1 FONT {ft} MAPS {mt} BUF {bufgen.state_str(st)}")
            mm.append((rec, st, user, order))
        g_shape.append(ls); g_spec.append(lm); meta.append(mm)
    a = vlib.run_groups(shim, g_shape, timeout=300)
    b = vlib.run_groups(model, g_spec, timeout=300)
    n = indom = bad = reqd = expn = grown = 0
    for ls, lm, mm, xs, ys in zip(g_shape, g_spec, meta, a, b):
        for ln, sl, (rec, st, user, order), x, y in zip(ls[1:], lm[1:], mm, xs[1:], ys[1:]):
            n += 1
            ok, cmpcl = in_spec_domain(rec, st)
            if not ok or not x.startswith("ok ") or not y.startswith("ok "):
                continue
            indom += 1
            if rec["gsub"]["scripts"][0]["default"]["required"] is not None: reqd += 1
            got = [tuple(int(v) for v in e.split(":")[:2]) for e in x.split()[2:]]
            if rec.get("profile") == "expansion":
                expn += 1
                if len(got) >= st["n"] + 2: grown += 1
            t = y.split()
            want = [] if len(t) < 3 or t[2] == "-" else [tuple(int(v) for v in e.split(":")) for e in t[2].split(",")]
            same = (got == want) if cmpcl else ([p[0] for p in got] == [p[0] for p in want])
            if not same:
                bad += 1
                if bad <= 3:
                    ctx.violation("shape(): GSUB result differs from the OpenType substitution model applied to the lookups the property prescribes",
                                  {"stage": "search", "stream": "gsub-shape-spec", "font_line": ls[0], "request": ln, "spec_request": sl,
                                   "recipe": rec, "user_features": user, "prescribed_lookup_order": order, "crate": got,
                                   "spec_model": want, "clusters_compared": cmpcl})
    ctx.note_search("gsub-shape-spec", n, indom, in_domain=indom, with_required_feature=reqd, expansion_profile=expn,
                    expansion_grew_by_two_or_more=grown, deviations=bad,
                    rule="generated GSUB/GDEF fonts with a DFLT language system that lists a subset of the features and may have a required "
                         "feature (listed or not, known or unknown tag, 'rvrn'), global user features on/off, through the public shape(); "
                         "expected = Spec.applyAll over the lookup order computed from the recipe by plan_by_the_text (stage 0: rvrn and "
                         "required features of unused tags; then lookup-list order), on the spec's domain")

def gsub_classify(ln, out):
    ks = []
    t = ln.split(" FONT ")[1].split(" MAPS ")[0]
    if out.startswith("panic"): ks.append("panic")
    src = ln.split(" I=")[-1].split(" U=")[0]
    dst = out.split(" I=")[-1].split(" U=")[0] if " I=" in out else ""
    gids = lambda s: [e.split(":")[0] for e in s.split(",")] if s and s != "-" else []
    n = int(ln.split(" n=")[1].split()[0])
    n2 = int(out.split(" n=")[1].split()[0]) if " n=" in out else n
    ks.append("glyphs-substituted" if gids(src)[:n] != gids(dst)[:n2] else "glyphs-unchanged")
    if n2 > n: ks.append("length-grew")
    if n2 < n: ks.append("length-shrank")
    if " ok=0 " in out: ks.append("unsuccessful")
    try:
        o0 = int(ln.split(" O=")[1].split()[0]); o1 = int(out.split(" O=")[1].split()[0])
        if o1 < o0: ks.append("nested-lookups-ran")
        if o0 - o1 >= 64: ks.append("nesting-limit-reached")
    except Exception:
        pass
    return ks


def run(ctx):
    ctx.assumptions += [
        "the theorems are about the operational models Buf.lean / Gsub.lean and the declarative Spec/OpenTypeSubst.lean; the models are "
        "tied to the crate by buf-walks and gsub-interp (hook level); the whole sentence incl. the plan (stages, lookup-list order, "
        "required features) is checked through shape() by the gsub-shape-spec search against the executable specification",
    ]
    ctx.regen()
    ctx.prove(MODULE)
    shim = vlib.build_harness()
    ctx.correspond("buf-walks", lines=walks(ctx.rng("walks"), ctx.budget(20000, 300000)), classify=classify, canon=canon)
    zipper_search(ctx, shim, ctx.rng("zipper"), ctx.budget(20000, 300000))
    groups, recs = gsub_groups(ctx, shim, ctx.rng("gsub"), ctx.budget(300, 6000), 8, nmulti=ctx.budget(60, 1200))
    gsub_panic_search(ctx, shim, groups)
    spec_search(ctx, shim, vlib.build_model(), groups, recs)
    shape_spec_search(ctx, shim, vlib.build_model(), ctx.rng("shape-spec"), ctx.budget(250, 5000), 6)
    ctx.correspond("gsub-interp", groups=groups, classify=gsub_classify, canon=canon,
                   only=lambda ln: ln.startswith("gsub "))


def replay(ctx, rp):
    shim = vlib.build_harness(); model = vlib.build_model()
    a = vlib.run_lines(shim, [rp["request"]], nproc=1)[0]
    b = vlib.run_lines(model, [rp["request"]], nproc=1)[0]
    print("impl :", a[:3000]); print("model:", b[:3000])
    d = bufgen.check_zipper(rp["request"], a) if rp["request"].startswith("buft") else None
    print("zipper deviation:", d)
    return 1 if (d or canon(a) != b) else 0
