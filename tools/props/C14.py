"""C14 — user features act on exactly their cluster range with their value
(+ the feature→mask allocation core that C04/C06 reuse)."""
import os, struct, glob, json
import vlib, gsubgen, bufgen, fontbuild

MODULE = "RbModel.Props.C14"
LEVEL = "proof"
U32 = 0xFFFFFFFF


def T(s):
    return int.from_bytes(s.encode("ascii"), "big")


def tag_str(t):
    return t.to_bytes(4, "big").decode("latin1")


# ------------------------------------------------------------------------------------------------
# a tiny private sfnt builder: cmap (format 12) + GSUB with single (fmt 2) / alternate lookups.
# Recipe: {"nglyphs": n, "cmap": {cp: gid}, "scripts": {tag: {"req": idx|None, "feats": [feature idx..]}},
#          "features": [(tag, [lookup idx..])], "lookups": [("s", {gid: gid}) | ("t", {gid: [gid..]})]}
# (fallback for a framework without tools/fontbuild.py; build_font() prefers fontbuild.build, both give the same results)

def _coverage(gids):
    return struct.pack(">HH", 1, len(gids)) + b"".join(struct.pack(">H", g) for g in gids)


def _single(m):
    gids = sorted(m)
    head = struct.pack(">HHH", 2, 6 + 2 * len(gids), len(gids)) + b"".join(struct.pack(">H", m[g]) for g in gids)
    return head + _coverage(gids)


def _alternate(m):
    gids = sorted(m)
    sets = [struct.pack(">H", len(m[g])) + b"".join(struct.pack(">H", a) for a in m[g]) for g in gids]
    off = 6 + 2 * len(gids)
    offs = []
    for s in sets:
        offs.append(off); off += len(s)
    cov_off = off
    return (struct.pack(">HHH", 1, cov_off, len(gids)) + b"".join(struct.pack(">H", o) for o in offs)
            + b"".join(sets) + _coverage(gids))


def _offset_list(items, rec=None):
    """count + (optional 4-byte tags) + 16-bit offsets + items"""
    n = len(items)
    hdr = 2 + n * (6 if rec else 2)
    out, body, off = [struct.pack(">H", n)], [], hdr
    for i, it in enumerate(items):
        if rec:
            out.append(struct.pack(">IH", rec[i], off))
        else:
            out.append(struct.pack(">H", off))
        body.append(it); off += len(it)
    return b"".join(out) + b"".join(body)


def _gsub(recipe):
    lookups = []
    for kind, m in recipe["lookups"]:
        sub = _single(m) if kind == "s" else _alternate(m)
        lookups.append(struct.pack(">HHHH", 1 if kind == "s" else 3, 0, 1, 8) + sub)
    lookup_list = _offset_list(lookups)
    feats = [struct.pack(">HH", 0, len(ls)) + b"".join(struct.pack(">H", l) for l in ls) for _, ls in recipe["features"]]
    feature_list = _offset_list(feats, [t for t, _ in recipe["features"]])
    scripts = []
    stags = sorted(recipe["scripts"])
    for st in stags:
        s = recipe["scripts"][st]
        req = 0xFFFF if s.get("req") is None else s["req"]
        langsys = struct.pack(">HHH", 0, req, len(s["feats"])) + b"".join(struct.pack(">H", f) for f in s["feats"])
        scripts.append(struct.pack(">HH", 4, 0) + langsys)
    script_list = _offset_list(scripts, stags)
    o1 = 10
    o2 = o1 + len(script_list)
    o3 = o2 + len(feature_list)
    return struct.pack(">HHHHH", 1, 0, o1, o2, o3) + script_list + feature_list + lookup_list


def to_fontbuild(recipe):
    """the same recipe in the vocabulary of tools/fontbuild.py"""
    lookups = []
    for kind, m in recipe["lookups"]:
        gids = sorted(m)
        if kind == "s":
            lookups.append({"type": 1, "flag": 0, "subtables": [{"format": 2, "coverage": gids, "subst": [m[g] for g in gids]}]})
        else:
            lookups.append({"type": 3, "flag": 0, "subtables": [{"coverage": gids, "alternates": [list(m[g]) for g in gids]}]})
    scripts = [{"tag": tag_str(st), "default": {"required": s.get("req"), "features": list(s["feats"])}, "langs": []}
               for st, s in sorted(recipe["scripts"].items())]
    features = [{"tag": tag_str(t), "lookups": list(ls)} for t, ls in recipe["features"]]
    return {"num_glyphs": recipe["nglyphs"], "cmap": dict(recipe["cmap"]),
            "gsub": {"scripts": scripts, "features": features, "lookups": lookups}}


try:
    import fontbuild as _fontbuild
except ImportError:                      # framework without tools/fontbuild.py: private builder below
    _fontbuild = None


def build_font(recipe):
    """tools/fontbuild.py when the framework has it (VERIF_C14_MINIFONT=1 forces the private builder)."""
    if _fontbuild is not None and not os.environ.get("VERIF_C14_MINIFONT"):
        return _fontbuild.build(to_fontbuild(recipe))
    return build_font_mini(recipe)


def build_font_mini(recipe):
    n = recipe["nglyphs"]
    head = struct.pack(">HHiIIHHqqhhhhHHhhh", 1, 0, 0x10000, 0, 0x5F0F3CF5, 0, 1000, 0, 0, 0, 0, 1000, 1000, 0, 8, 2, 0, 0)
    hhea = struct.pack(">HHhhhHhhhhhhhhhhhH", 1, 0, 800, -200, 0, 600, 0, 0, 600, 1, 0, 0, 0, 0, 0, 0, 0, n)
    maxp = struct.pack(">IH", 0x00005000, n)
    hmtx = b"".join(struct.pack(">Hh", 500 + (g % 7), 0) for g in range(n))
    cps = sorted(recipe["cmap"])
    groups = b"".join(struct.pack(">III", c, c, recipe["cmap"][c]) for c in cps)
    sub = struct.pack(">HHIII", 12, 0, 16 + len(groups), 0, len(cps)) + groups
    cmap = struct.pack(">HHHHI", 0, 1, 3, 10, 12) + sub
    tables = {b"head": head, b"hhea": hhea, b"maxp": maxp, b"hmtx": hmtx, b"cmap": cmap}
    if recipe.get("lookups") is not None:
        tables[b"GSUB"] = _gsub(recipe)
    tags = sorted(tables)
    off = 12 + 16 * len(tags)
    recs, body = [], []
    for t in tags:
        d = tables[t]
        recs.append(struct.pack(">4sIII", t, 0, off, len(d)))
        pad = (-len(d)) % 4
        body.append(d + b"\0" * pad); off += len(d) + pad
    return struct.pack(">IHHHH", 0x00010000, len(tags), 0, 0, 0) + b"".join(recs) + b"".join(body)


def lookup_tokens(recipe):
    out = []
    for i, (kind, m) in enumerate(recipe["lookups"]):
        if kind == "s":
            body = ",".join(f"{g}.{m[g]}" for g in sorted(m)) or "-"
        else:
            body = ",".join(f"{g}." + "/".join(map(str, m[g])) for g in sorted(m)) or "-"
        out.append(f"{kind}:{i}:{body}")
    return out


# ------------------------------------------------------------------------------------------------
# tag pools

DEFAULT_TAGS = [T(x) for x in ("rvrn ltra ltrm rtla rtlm frac numr dnom rand trak Harf HARF Buzz BUZZ abvm blwm ccmp locl "
                               "mark mkmk rlig calt clig curs dist kern liga rclt vert vkrn").split()]
POOL_TAGS = DEFAULT_TAGS + [T(x) for x in ("aalt smcp c2sc salt ss01 ss02 ss03 ss04 ss05 onum lnum pnum tnum sups subs "
                                           "zero ordn case cpsp dlig hlig swsh titl init medi fina isol jalt nalt "
                                           "akhn blwf half pres abvs blws psts haln nukt rphf pref vatu cjct cswh "
                                           "fwid hwid vrt2 test XXXX zzzz").split()]


def fmt_feat(f):
    return f"{f[0]}:{f[1]}:{f[2]}:{f[3]}"


# ------------------------------------------------------------------------------------------------
# stream: Feature::new

def bound_values():
    return [0, 1, 2, 3, 5, 6, 100, U32 - 2, U32 - 1, U32, U32 + 1, U32 + 2, (1 << 63), (1 << 64) - 1]


def range_name(s, e):
    """Rust spelling of the range built from two bounds."""
    def lo(b):
        return "" if b == "u" else b[1:]
    if s.startswith("x"):
        return f"(Excluded({s[1:]}),{'Unbounded' if e == 'u' else ('Included' if e[0] == 'i' else 'Excluded') + '(' + e[1:] + ')'})"
    if e == "u":
        return f"{lo(s)}.."
    return f"{lo(s)}..{'=' if e[0] == 'i' else ''}{e[1:]}"


def in_range(s, e, i):
    ok = True
    if s[0] == "i": ok = ok and int(s[1:]) <= i
    elif s[0] == "x": ok = ok and int(s[1:]) < i
    if e[0] == "i": ok = ok and i <= int(e[1:])
    elif e[0] == "x": ok = ok and i < int(e[1:])
    return ok


def new_cases(r, nrandom):
    bs = ["u"] + [f"i{n}" for n in bound_values()] + [f"x{n}" for n in bound_values()]
    cases = [(T("kern"), 1, s, e) for s in bs for e in bs]
    vals = [0, 1, 2, 255, 256, U32 - 1, U32]
    for _ in range(nrandom):
        def b():
            k = r.below(3)
            if k == 0: return "u"
            n = r.choice([r.below(10), r.below(1 << 32), r.next(), r.choice(bound_values())])
            return ("i" if k == 1 else "x") + str(n)
        cases.append((r.choice(POOL_TAGS), r.choice(vals + [r.below(1 << 32)]), b(), b()))
    return cases


def new_line(c):
    return f"feature new {c[0]} {c[1]} {c[2]} {c[3]}"


def classify_new(ln, out):
    t = ln.split()
    return [f"new:{t[4][0]}{t[5][0]}"]


def covers(start, end, i):
    return (start == 0 and end == U32) or (start <= i < end)


def new_search(ctx, shim, cases):
    """Oracle on the crate alone: a cluster value is acted on iff it lies in the Rust range handed to Feature::new."""
    lines = [new_line(c) for c in cases]
    outs = vlib.run_lines(shim, lines)
    d15, other = [], []
    evals = 0
    for c, ln, o in zip(cases, lines, outs):
        _, _, s, e = c
        p = o.split()
        if len(p) != 5 or not all(x.isdigit() for x in p):
            ctx.violation(f"Feature::new crashed or misbehaved: {o}", {"stage": "search", "stream": "feature-new",
                          "api": "Feature::new", "range": range_name(s, e), "request": ln, "observed": o})
            continue
        start, end = int(p[2]), int(p[3])
        pts = {0, 1, 2, 3, 4, 5, 6, 7, 99, 100, 101, U32 - 3, U32 - 2, U32 - 1}
        for b in (s, e):
            if b != "u":
                n = int(b[1:])
                pts |= {x for x in (n - 1, n, n + 1) if 0 <= x < U32}
        bad = [i for i in sorted(pts) if in_range(s, e, i) != covers(start, end, i)]
        evals += len(pts)
        if bad:
            # D15 class: the end bound is bounded and the produced `end` is exactly one too small
            want_end = U32 if e == "u" else min(int(e[1:]) + (1 if e[0] == "i" else 0), U32)
            rec = {"range": range_name(s, e), "request": ln, "observed": o, "first_wrong_cluster": bad[0]}
            (d15 if (e != "u" and end + 1 == want_end) else other).append(rec)
    if d15:
        canon = [x for x in d15 if x["range"] == "0..1"]
        w = canon[0] if canon else d15[0]
        ctx.violation(
            f"Feature::new({w['range']}) → `{w['observed']}` (tag value start end global): `end` is exclusive in set_masks, "
            f"so cluster {w['first_wrong_cluster']} of the range is not acted on (D15; {len(d15)} bounded-end ranges of this run are one short)",
            {"stage": "search", "stream": "feature-new", "api": "Feature::new", "range": w["range"],
             "request": w["request"], "observed": w["observed"], "expected": "start=0 end=1 (exclusive)" if canon else "end one larger",
             "same_class_count": len(d15), "same_class_examples": [x["range"] for x in d15[:12]]})
    for w in other[:3]:
        ctx.violation(f"Feature::new({w['range']}) → `{w['observed']}` does not act on exactly the clusters of the range "
                      f"(cluster {w['first_wrong_cluster']})",
                      {"stage": "search", "stream": "feature-new", "api": "Feature::new", "range": w["range"],
                       "request": w["request"], "observed": w["observed"]})
    ctx.note_search("feature-new", evals, len(cases), wrong_d15_class=len(d15), wrong_other=len(other),
                    rule="Feature::new on every pair of Bound kinds × boundary values (0,1,2,3,5,6,100,2^32-3..2^32+1,2^63,2^64-1) "
                         "plus random ones; oracle: for sample clusters i < 2^32-1 around the bounds, RangeBounds::contains(i) "
                         "⇔ (start,end) acts on i as set_masks reads it; non-trivial = distinct (start,end) bound pairs")


# ------------------------------------------------------------------------------------------------
# stream: Feature::from_str

TAGCH = "abcdefghijklmnopqrstuvwxyzABCDEFGHIJKLMNOPQRSTUVWXYZ0123456789_"


def gen_num(r):
    k = r.below(10)
    if k < 5: return str(r.below(12))
    if k == 5: return str(r.choice([2147483647, 2147483648, 4294967295, 4294967296, 99999999999, 2147483646]))
    if k == 6: return "0" * r.range(1, 12) + str(r.below(50))
    if k == 7: return "-" + str(r.choice([0, 1, 2, 5, 2147483648, 2147483649]))
    if k == 8: return "+" + str(r.below(9))
    return str(r.below(1 << 31))


def spec_feature(form):
    """Spec/FeatureSyntax.meaning, transcribed: form = (prefix, tag, index, value); numbers are non-negative ints < 2^31."""
    pre, tag, index, value = form
    if value is None: v = 0 if pre == "-" else 1
    elif value == "on": v = 1
    elif value == "off": v = 0
    else: v = value
    if index is None or index == "empty": s, e = 0, U32
    elif index[0] == "single": s, e = index[1], index[1] + 1
    else:
        s = 0 if index[1] is None else index[1]
        e = U32 if index[2] is None else index[2]
    t = int.from_bytes((tag + "    ")[:4].encode(), "big")
    return (t, v, s, e)


def gen_form(r):
    pre = r.choice(["", "", "+", "-"])
    tag = "".join(r.choice(TAGCH) for _ in range(r.range(1, 4)))
    k = r.below(5)
    num = lambda: r.choice([0, 1, 2, 3, 5, 7, 10, 4096, r.below(1 << 31), 2147483647, 2147483646])
    if k == 0: index = None
    elif k == 1: index = "empty"
    elif k == 2: index = ("single", num())
    else: index = ("range", None if r.chance(1, 3) else num(), None if r.chance(1, 3) else num())
    k = r.below(4)
    value = None if k == 0 else ("on" if k == 1 else ("off" if k == 2 else num()))
    return (pre, tag, index, value)


def render_form(r, form):
    pre, tag, index, value = form
    s = pre
    q = r.choice(["", "", "'", '"'])
    s += q + tag + q
    if index == "empty": s += "[]"
    elif index is not None and index[0] == "single": s += f"[{index[1]}]"
    elif index is not None:
        s += "[" + ("" if index[1] is None else str(index[1])) + r.choice([":", ":", ";"]) + ("" if index[2] is None else str(index[2])) + "]"
    if value is not None:
        vs = value if isinstance(value, str) else str(value)
        if isinstance(value, str) and r.chance(1, 2):
            vs = "".join(ch.upper() if r.chance(1, 2) else ch for ch in vs)
        # CSS form (`"kern" 2`, `kern on`) only without an index; `= on` (space after =) only for on/off
        seps = ["=", "="] + ([" "] if index is None else []) + (["= "] if isinstance(value, str) else [])
        s += r.choice(seps) + vs
    return s


def gen_loose(r):
    """strings near the grammar (pieces in order, each optional / wrong)"""
    s = r.choice(["", "", "+", "-", " ", "--"])
    s += r.choice(["", "", " ", "  ", "\t"])
    q = r.choice(["", "", "", "'", '"'])
    s += q + "".join(r.choice(TAGCH) for _ in range(r.choice([0, 1, 2, 3, 4, 4, 4, 4, 5, 6])))
    s += r.choice([q, q, q, "", "'"])
    s += r.choice(["", "", " "])
    if r.chance(1, 2):
        s += "[" + r.choice(["", gen_num(r)]) + r.choice(["", ":", ";", ":", "::", " "]) + r.choice(["", gen_num(r)]) + r.choice(["]", "]", "]", "", "]]"])
    if r.chance(1, 2):
        s += r.choice(["=", "=", "", " ", "=="]) + r.choice([gen_num(r), "on", "off", "ON", "oFf", "o", "onn", "yes", "", "1x", "é", "+on", "-", "+"])
    s += r.choice(["", "", "", " ", "\n", " x", ","])
    return s


def mutate(r, s):
    s = list(s)
    for _ in range(r.range(1, 3)):
        k = r.below(3)
        alpha = "[]:;=+-'\" \t_azAZ09é​,.\x0b\x0c"
        if k == 0 and s: del s[r.below(len(s))]
        elif k == 1: s.insert(r.below(len(s) + 1), r.choice(alpha))
        elif s: s[r.below(len(s))] = r.choice(alpha)
    return "".join(s)


def parse_line(s):
    return "feature parse " + s.encode("utf-8").hex()


def classify_parse(ln, out):
    return ["parse:" + out.split()[0]]


def parse_cases(r, n):
    """(string, expected|None): expected only for strings rendered from the documented grammar."""
    K = T("kern")
    # the table of the HarfBuzz manual (and of the doc comment of from_str), with the documented meaning
    documented = [("kern", (K, 1, 0, U32)), ("+kern", (K, 1, 0, U32)), ("-kern", (K, 0, 0, U32)), ("kern=0", (K, 0, 0, U32)),
                  ("kern=1", (K, 1, 0, U32)), ("aalt=2", (T("aalt"), 2, 0, U32)), ("kern[]", (K, 1, 0, U32)),
                  ("kern[:]", (K, 1, 0, U32)), ("kern[5:]", (K, 1, 5, U32)), ("kern[:5]", (K, 1, 0, 5)),
                  ("kern[3:5]", (K, 1, 3, 5)), ("kern[3]", (K, 1, 3, 4)), ("aalt[3:5]=2", (T("aalt"), 2, 3, 5)),
                  ("kern=on", (K, 1, 0, U32)), ("kern=off", (K, 0, 0, U32)), ('"kern" on', (K, 1, 0, U32)),
                  ("'liga' 0", (T("liga"), 0, 0, U32)), ("kern 2", (K, 2, 0, U32))]
    fixed = ["kern[3;5]=2", "kern[:-1]", "kern[-1]", "kern=oN", "kern=oFf", "",
             " ", "kern abc", "kern[99999999999]", "kern[1:99999999999]", "kern=3000000000",
             "kern=-1", "[1]", "=1", "a", "abcde", "kern[", "kern[1", "kern]", "-", "+", "kern[-]", "kern[+:+]", "kern=+on",
             "kern= 2", "kern[3] 2", "kern=2147483648"]
    cases = list(documented) + [(s, None) for s in fixed]
    for _ in range(n):
        k = r.below(4)
        if k <= 1:
            f = gen_form(r)
            cases.append((render_form(r, f), spec_feature(f)))
        elif k == 2:
            cases.append((gen_loose(r), None))
        else:
            f = gen_form(r)
            cases.append((mutate(r, render_form(r, f)), None))
    return cases


def parse_search(ctx, shim, cases):
    lines = [parse_line(s) for s, _ in cases]
    outs = vlib.run_lines(shim, lines)
    ngram = nloose_ok = nloose = 0
    loose_examples = []
    bad = 0
    for (s, exp), ln, o in zip(cases, lines, outs):
        if o.startswith("panic") or o.startswith("abort") or o == "timeout":
            ctx.violation(f"Feature::from_str crashed on {s!r}: {o}", {"stage": "search", "stream": "feature-parse",
                          "api": "Feature::from_str", "text": s, "request": ln, "observed": o})
            continue
        if exp is not None:
            ngram += 1
            want = "ok {} {} {} {} {}".format(*exp, 1 if (exp[2] == 0 and exp[3] == U32) else 0)
            if o != want:
                bad += 1
                if bad <= 3:
                    ctx.violation(f"Feature::from_str({s!r}) = `{o}`, the documented syntax means `{want}`",
                                  {"stage": "search", "stream": "feature-parse", "api": "Feature::from_str", "text": s,
                                   "request": ln, "expected": want, "observed": o})
        else:
            nloose += 1
            if o.startswith("ok"):
                nloose_ok += 1
                if len(loose_examples) < 12: loose_examples.append([s, o])
    ctx.note_search("feature-parse", len(cases), ngram, outside_grammar=nloose, outside_grammar_accepted=nloose_ok,
                    outside_grammar_accepted_examples=loose_examples,
                    rule="strings rendered from Spec/FeatureSyntax forms (prefix, 1-4 char tag, optional quotes, index forms, "
                         "=value / CSS ' value', on/off in any case) must parse to the spec meaning; loose and mutated strings only "
                         "must not crash (acceptance outside the grammar is counted, not judged); non-trivial = grammar strings")


# ------------------------------------------------------------------------------------------------
# stream: set_masks

def rand_mask32(r):
    k = r.below(7)
    if k == 0: return 0
    if k == 1: return 1 << 31
    if k == 2:
        s = r.range(0, 30); b = r.range(1, min(8, 31 - s))
        return ((1 << b) - 1) << s
    if k == 3: return U32
    if k == 4: return r.below(1 << 32) & r.below(1 << 32)
    if k == 5: return (1 << r.below(32)) | (1 << r.below(32))
    return r.below(1 << 32)


def rand_cluster(r):
    k = r.below(8)
    if k < 5: return r.below(8)
    if k == 5: return r.choice([U32, U32 - 1, U32 - 2, 1 << 31, (1 << 31) - 1, (1 << 31) + 1, 0xFFFF, 0x10000])     # the u32 edges of C01's extreme-clusters
    return r.below(1 << 32)


def rand_bounds(r):
    k = r.below(8)
    if k == 0: return 0, U32
    if k == 1: return 0, U32 - 1
    if k == 2: return r.below(8), U32
    a = r.choice([r.below(8), r.below(8), rand_cluster(r)])
    b = r.choice([r.below(9), a, a + 1, rand_cluster(r), U32])
    return a, min(b, U32)


def setmasks_lines(r, n):
    out = []
    for _ in range(n):
        k = r.below(9)
        cl = sorted(rand_cluster(r) for _ in range(k)) if r.chance(3, 4) else [rand_cluster(r) for _ in range(k)]
        ln = r.range(0, k) if r.chance(1, 4) else k
        s, e = rand_bounds(r)
        infos = " ".join(f"{rand_mask32(r) if r.chance(1, 2) else r.below(1 << 32)}:{c}" for c in cl)
        out.append(f"map setmasks {ln} {r.below(1 << 32)} {rand_mask32(r)} {s} {e} {infos}".rstrip())
    return out


def classify_setmasks(ln, out):
    t = ln.split()
    m, s, e = int(t[4]), int(t[5]), int(t[6])
    ks = ["setmasks"]
    if m == 0: ks.append("setmasks:mask0")
    elif s == 0 and e == U32: ks.append("setmasks:global")
    elif s >= e: ks.append("setmasks:empty-or-inverted")
    else: ks.append("setmasks:range")
    if int(t[2]) < len(t) - 7: ks.append("setmasks:len<size")
    return ks


def setmasks_search(ctx, shim, lines):
    """Oracle on the crate alone (independent transcription of the contract, not of the code)."""
    outs = vlib.run_lines(shim, lines)
    bad = 0
    touched = 0
    for ln, o in zip(lines, outs):
        t = ln.split()
        n, v, m, s, e = (int(x) for x in t[2:7])
        infos = [tuple(int(y) for y in x.split(":")) for x in t[7:]]
        try:
            got = [int(x) for x in o.split()]
        except ValueError:
            got = None
        want = []
        for i, (old, c) in enumerate(infos):
            hit = i < n and ((s == 0 and e == U32) or s <= c < e)
            want.append(((old & ~m) | (v & m)) & U32 if hit else old)
        if want != infos and got == want: touched += 1
        if got != want:
            bad += 1
            if bad <= 3:
                ctx.violation(f"set_masks changed other bits / other clusters than [start,end) × mask: {ln} → {o}",
                              {"stage": "search", "stream": "set-masks", "request": ln, "expected": " ".join(map(str, want)),
                               "observed": o})
    ctx.note_search("set-masks", len(lines), touched,
                    rule="random buffers (≤ 8 glyphs, len ≤ size, clusters small/huge/unsorted), random value/mask, ranges incl. "
                         "global, empty, inverted, out of range; oracle: glyph i<len with start ≤ cluster < end (or the global pair) "
                         "gets (old & ~mask)|(value & mask), every other glyph is unchanged; non-trivial = some mask changed")


# ------------------------------------------------------------------------------------------------
# streams: map compile / plan on corpus + synthetic fonts

SCRIPTS = ["-", "-", "Latn", "Arab", "Deva", "Cyrl", "Hebr", "Thai", "Beng", "Grek", "Zyyy"]
LANGS = ["-", "-", "-", "en", "tr", "ar", "ur", "sr", "ro", "zh-hant", "x-hbot-41424344"]
FLAG_BITS = [1, 2, 4, 8, 16, 32, 64]


def corpus_fonts(r, k):
    fs = []
    for pat in ("tests/fonts/**/*.ttf", "tests/fonts/**/*.otf"):
        fs += glob.glob(os.path.join(vlib.REPO, pat), recursive=True)
    fs = sorted(f for f in fs if os.path.getsize(f) < 3_000_000)
    return r.shuffle(fs)[:k]


def rand_recipe(r):
    """random synthetic GSUB: single/alternate lookups over a small glyph set, features sharing lookups,
    scripts DFLT / latn with optional required feature."""
    base = 8
    ng = 400
    nl = r.range(1, 6)
    lookups = []
    for _ in range(nl):
        src = r.sample(list(range(1, 60)), r.range(1, 12))
        if r.chance(1, 2):
            lookups.append(("s", {g: r.range(1, 200) for g in src}))
        else:
            lookups.append(("t", {g: [r.range(1, 300) for _ in range(r.choice([0, 1, 2, 3, 3, 5, 260]))] for g in src}))
    tags = r.sample([T(x) for x in "aalt smcp ccmp liga calt salt ss01 ss02 locl rlig kern test rand frac numr dnom ltra rvrn".split()], r.range(1, 8))
    tags.sort()
    features = [(t, sorted(set(r.below(nl + (1 if r.chance(1, 8) else 0)) for _ in range(r.range(1, 3))))) for t in tags]
    scripts = {}
    for st in r.sample([T("DFLT"), T("latn"), T("dflt")], r.range(1, 2)):
        fl = sorted(r.sample(list(range(len(features))), r.range(0, len(features))))
        scripts[st] = {"req": r.below(len(features)) if r.chance(1, 5) else None, "feats": fl}
    return {"nglyphs": ng, "cmap": {0xE000 + i: 1 + i for i in range(base)}, "scripts": scripts,
            "features": features, "lookups": lookups}


def rand_value(r):
    k = r.below(10)
    if k < 2: return 0
    if k < 5: return 1
    if k == 5: return r.range(2, 7)
    if k == 6: return r.choice([15, 16, 127, 128, 255, 256, 257])
    if k == 7: return r.choice([U32, U32 - 1, 1 << 31, 65535, 65536])
    return r.below(1 << 32) >> r.below(32)


def rand_ops(r, found, pool, big):
    """builder op list: ≤ 40 features incl. duplicates, pauses, enable/disable."""
    n = r.choice([0, 1, 2, 3, 5, 8, 12, 20, 40]) if not big else r.range(6, 40)
    mine = r.sample(pool, min(len(pool), r.range(1, 10)))
    ops = []
    for _ in range(n):
        k = r.below(12)
        if k == 0: ops.append("pg"); continue
        if k == 1: ops.append("pp"); continue
        src = found if (found and (big or r.chance(2, 3))) else mine
        t = r.choice(src) if not r.chance(1, 40) else 0
        if r.chance(1, 3) and ops:  # duplicate an earlier tag
            prev = [o for o in ops if ":" in o]
            if prev: t = int(r.choice(prev).split(":")[1])
        fl = 0
        for b in FLAG_BITS:
            if r.chance(1, 4): fl |= b
        if big and r.chance(2, 3): fl &= ~1
        v = r.choice([r.range(2, 300), rand_value(r)]) if big else rand_value(r)
        if k == 2: ops.append(f"d:{t}")
        elif k <= 4: ops.append(f"e:{t}:{fl}:{v}")
        else: ops.append(f"a:{t}:{fl}:{v}")
    return ops


def rand_user_features(r, found, pool, nmax=40):
    n = r.choice([0, 1, 1, 2, 3, 5, 8, 15, 25, nmax])
    mine = r.sample(pool, min(len(pool), r.range(1, 8)))
    out = []
    for _ in range(n):
        t = r.choice(found) if (found and r.chance(2, 3)) else r.choice(mine)
        if out and r.chance(1, 3): t = r.choice(out)[0]
        k = r.below(6)
        if k <= 1: s, e = 0, U32
        else: s, e = rand_bounds(r)
        out.append((t, rand_value(r), s, e))
    return out


def font_units(ctx, shim, r, ncorpus, nsynth):
    """[(register line, script, lang, facts, found tags, recipe|None)]"""
    units = []
    for i, f in enumerate(corpus_fonts(r, ncorpus)):
        for _ in range(2):
            units.append([f"map font c{i} {f}", f"c{i}", r.choice(SCRIPTS), r.choice(LANGS), None])
    for i in range(nsynth):
        rec = shared_recipe(r) if i % 3 == 2 else rand_recipe(r)
        units.append([f"map fonthex s{i} {build_font(rec).hex()}", f"s{i}", r.choice(["-", "-", "Latn"]), "-", rec])
    groups = [[u[0], f"map facts {u[1]} {u[2]} {u[3]} " + ",".join(map(str, POOL_TAGS))] for u in units]
    outs = vlib.run_groups(shim, groups)
    res = []
    for u, o in zip(units, outs):
        if o[0] != "ok" or not o[1].startswith("P "):
            continue
        facts = o[1]
        toks = facts.split()
        ti = toks.index("T"); xi = toks.index("X")
        found = [int(t.split(":")[0]) for t in toks[ti + 1:xi] if any(x != "-" for x in t.split(":")[1:])]
        res.append({"reg": u[0], "id": u[1], "script": u[2], "lang": u[3], "facts": facts, "found": found, "recipe": u[4]})
    return res


def compile_groups(r, units, per):
    groups = []
    for u in units:
        g = [u["reg"]]
        for _ in range(per):
            big = r.chance(1, 4)
            ops = rand_ops(r, u["found"], POOL_TAGS, big)
            g.append(f"map compile {u['id']} {u['script']} {u['lang']} {r.below(2)} ; {u['facts']} ; " + " ".join(ops))
        groups.append(g)
    return groups


def _bits(v, maxbits=8):
    return min(maxbits, v.bit_length())


def classify_compile(ln, out):
    if not ln.startswith("map compile") and not ln.startswith("map plan"):
        return ["register"]
    kind = ln.split()[1]
    ks = [kind]
    try:
        segs = out.split(" ; ")
        feats = segs[0].split()[2:]
        ks.append(f"{kind}:features={min(len(feats), 12)}{'+' if len(feats) >= 12 else ''}")
        nonglobal = [f.split(":") for f in feats if int(f.split(":")[5]) != 31]
        top = max([int(f[5]) + bin(int(f[6])).count("1") for f in nonglobal], default=4)
        if nonglobal: ks.append(f"{kind}:own-bits")
        if len(nonglobal) != len(feats): ks.append(f"{kind}:global-bit")
        if any(bin(int(f[6])).count("1") == 8 for f in nonglobal): ks.append(f"{kind}:8-bit-cap")
        nl = len([t for t in (segs[1] + ' ' + segs[2]).split() if ':' in t])
        if nl > 0: ks.append(f"{kind}:lookups>0")
        if kind == "compile":
            infos = [i.split(":") for i in segs[3].split()[1:]]
            have = {f.split(":")[0] for f in feats}
            nops = len([o for o in ln.split(" ; ")[2].split() if ":" in o])
            if len(infos) < nops: ks.append("compile:dedup-merged")
            for i in infos:
                mv, fl = int(i[2]), int(i[3])
                if mv > 0 and i[0] not in have:
                    b = 0 if (fl & 1 and mv == 1) else _bits(mv)
                    if top + b >= 31: ks.append("compile:budget-drop(approx)"); break
        else:
            us = segs[3].split()[1:]
            if any(u.split(":")[4] == "0" and u.split(":")[5] == "2147483648" for u in us):
                ks.append("plan:ranged-feature-on-global-bit")
            if any(u.split(":")[4] == "0" and u.split(":")[5] not in ("0", "2147483648") for u in us):
                ks.append("plan:ranged-feature-own-bits")
            if top >= 23: ks.append("plan:budget-nearly-exhausted")
    except Exception:
        ks.append(f"{kind}:unparsed")
    return ks


def plan_groups(r, units, per):
    groups = []
    for u in units:
        if u["script"] not in ("-", "Latn", "Zyyy", "Cyrl", "Grek"):
            continue            # the plan model covers shapers without feature hooks (default / dumber)
        g = [u["reg"]]
        for _ in range(per):
            feats = rand_user_features(r, u["found"], POOL_TAGS)
            g.append(f"map plan {u['id']} {r.choice('lrtb')} {u['script']} {u['lang']} ; {u['facts']} ; " + " ".join(map(fmt_feat, feats)))
        groups.append(g)
    return groups


def shape_groups(r, units, per):
    groups = []
    for u in units:
        rec = u["recipe"]
        if rec is None or u["script"] != "-":
            continue
        lk = " ".join(lookup_tokens(rec))
        g = [u["reg"]]
        ftags = [t for t, _ in rec["features"]]
        for _ in range(per):
            n = r.range(0, 7)
            cl, c = [], r.below(3)
            for _ in range(n):
                cl.append(c); c += r.choice([0, 1, 1, 1, 2])
            text = " ".join(f"{0xE000 + (gi := r.below(8))}:{1 + gi}:{c}" for c in cl)
            feats = rand_user_features(r, ftags, POOL_TAGS, nmax=12)
            g.append(f"map shape {u['id']} ; {u['facts']} ; {lk} ; " + " ".join(map(fmt_feat, feats)) + f" ; {text}")
        groups.append(g)
    return groups


def classify_shape(ln, out):
    if not ln.startswith("map shape"):
        return ["register"]
    segs = ln.split(" ; ")
    text = segs[4].split()
    ks = ["shape"]
    if out.startswith("ok") and text:
        gids = [t.split(":")[1] for t in text]
        og = [t.split(":")[0] for t in out.split()[2:]]
        ks.append("shape:substituted" if og != gids else "shape:unchanged")
    if any(f.split(":")[2:] != ["0", str(U32)] for f in segs[3].split()): ks.append("shape:ranged-features")
    return ks


# ------------------------------------------------------------------------------------------------
# search end-to-end through shape(): designed font
#   chars U+E000+i -> glyph 1+i (i < 8)
#   lookup 0 (feature ccmp, on by default):   g -> 20+g                    single
#   lookup 1 (feature aalt, off by default):  20+g -> alternates 100+10g+k (k=1..3); glyph 21 has 256 alternates 1000..1255
#   lookup 2 (feature smcp, off by default):  20+g -> 50+g                 single

def search_recipe():
    alts = {20 + g: [100 + 10 * g + k for k in range(1, 4)] for g in range(2, 9)}
    alts[21] = [1000 + k for k in range(256)]
    return {"nglyphs": 1300, "cmap": {0xE000 + i: 1 + i for i in range(8)},
            "scripts": {T("DFLT"): {"req": None, "feats": [0, 1, 2]}},
            "features": [(T("aalt"), [1]), (T("ccmp"), [0]), (T("smcp"), [2])],
            "lookups": [("s", {g: 20 + g for g in range(1, 9)}), ("t", alts), ("s", {20 + g: 50 + g for g in range(1, 9)})]}


def spec_glyph(rec, g, vals):
    """what the font does to base glyph g when feature values are vals = {tag: value} (OpenType semantics:
    a boolean lookup applies iff value != 0; an alternate lookup picks alternate #value)."""
    if vals["ccmp"] == 0:
        return g
    g = rec["lookups"][0][1].get(g, g)
    v = vals["aalt"]
    alts = rec["lookups"][1][1].get(g)
    if v != 0 and alts is not None and v <= len(alts):
        return alts[v - 1]
    if vals["smcp"] != 0:
        g = rec["lookups"][2][1].get(g, g)
    return g


DEFAULTS = {"ccmp": 1, "aalt": 0, "smcp": 0}


def spec_shape(rec, text, feats, semantics):
    """feats: [(tagname, value, start, end)], text: [(gid, cluster)].
    semantics 'seq': entries apply in order, each sets its value on the clusters it covers (later wins);
    semantics 'hb' : global entries set the default (last wins), then all ranged entries apply in order."""
    out = []
    for g, c in text:
        vals = dict(DEFAULTS)
        order = feats if semantics == "seq" else ([f for f in feats if (f[2], f[3]) == (0, U32)] +
                                                   [f for f in feats if (f[2], f[3]) != (0, U32)])
        for t, v, s, e in order:
            if covers(s, e, c):
                vals[t] = v
        out.append((spec_glyph(rec, g, vals), c))
    return out


def shape_request(fid, facts, lk, feats, text):
    return (f"map shape {fid} ; {facts} ; {lk} ; " + " ".join(f"{T(t)}:{v}:{s}:{e}" for t, v, s, e in feats)
            + " ; " + " ".join(f"{0xE000 + g - 1}:{g}:{c}" for g, c in text))


def fmt_out(gl):
    return f"ok {len(gl)}" + "".join(f" {g}:{c}" for g, c in gl)


def e2e_search(ctx, shim, r):
    rec = search_recipe()
    reg = f"map fonthex F {build_font(rec).hex()}"
    tags = DEFAULT_TAGS + [T("aalt"), T("smcp")]
    facts = vlib.run_groups(shim, [[reg, "map facts F - - " + ",".join(map(str, tags))]], nproc=1)[0][1]
    lk = " ".join(lookup_tokens(rec))
    P = list(range(0, 8)) + [U32 - 1, U32]
    texts = [[(1 + i, i) for i in range(n)] for n in range(0, 7)]
    texts += [[(1, 0), (2, 0), (3, 1), (4, 1), (5, 2), (6, 2)], [(1, 3), (2, 4), (3, 5), (4, 6), (5, 7), (6, 8)],
              [(3, 0), (2, 2), (1, 4)], [(1, 5), (1, 5), (1, 6)]]
    if ctx.quick:
        texts = [texts[0], texts[1], texts[3], texts[6], texts[7], texts[8], texts[9]]
    reqs, meta = [], []
    for text in texts:
        for tag in ("smcp", "aalt", "ccmp"):
            for v in (0, 1, 2, 3, 255, 256):
                for s in P:
                    for e in P:
                        f = [(tag, v, s, e)]
                        reqs.append(shape_request("F", facts, lk, f, text)); meta.append((text, f))
    n_single = len(reqs)
    # pairs of entries (same or different tags)
    R2 = [(0, U32), (1, 3), (2, 5), (0, 1), (3, 3), (0, U32 - 1)]
    text5 = [(1 + i, i) for i in range(5)]
    for t1 in ("smcp", "aalt", "ccmp"):
        for t2 in ("smcp", "aalt", "ccmp"):
            for v1 in (0, 1, 2, 3):
                for v2 in (0, 1, 2, 3):
                    for r1 in R2:
                        for r2 in R2:
                            f = [(t1, v1, *r1), (t2, v2, *r2)]
                            reqs.append(shape_request("F", facts, lk, f, text5)); meta.append((text5, f))
    # random longer feature lists
    for _ in range(ctx.budget(10000, 200000)):
        f = []
        for _ in range(r.range(1, 6)):
            s, e = r.choice(R2 + [(r.below(6), r.below(7))])
            f.append((r.choice(["smcp", "aalt", "ccmp"]), r.choice([0, 1, 1, 2, 3]), s, e))
        text = r.choice(texts[1:])
        reqs.append(shape_request("F", facts, lk, f, text)); meta.append((text, f))
    size = 400
    groups = [[reg] + reqs[i:i + size] for i in range(0, len(reqs), size)]
    outs = vlib.run_groups(shim, groups)
    flat = [o for g in outs for o in g[1:]]
    stats = {"ok": 0, "value-wraps-mod-256": 0, "ranged-then-global-same-tag": 0, "ranged-then-global-truncates": 0, "semantics-hb-only": 0,
             "semantics-seq-only": 0, "other": 0}
    reported = {}
    nontriv = 0
    for i, ((text, f), req, o) in enumerate(zip(meta, reqs, flat)):
        a = fmt_out(spec_shape(rec, text, f, "seq"))
        b = fmt_out(spec_shape(rec, text, f, "hb"))
        if any(covers(s, e, c) for (_, _, s, e) in f for (_, c) in text): nontriv += 1
        if o == a or o == b:
            stats["ok"] += 1
            if a != b: stats["semantics-hb-only" if o == b else "semantics-seq-only"] += 1
            continue
        if any(v >= 256 for (_, v, _, _) in f):
            # outside the property's quantifier ("value <= 255: the engine keeps 8 bits per feature"): counted, not judged
            stats["value-wraps-mod-256"] += 1
            continue
        elif any(f[j][0] == f[k][0] and (f[j][2], f[j][3]) != (0, U32) and (f[k][2], f[k][3]) == (0, U32) and f[k][1] == 1
                 for j in range(len(f)) for k in range(j + 1, len(f))):
            cls = "ranged-then-global-same-tag"
        elif any(f[j][0] == f[k][0] and (f[j][2], f[j][3]) != (0, U32) and (f[k][2], f[k][3]) == (0, U32)
                 for j in range(len(f)) for k in range(j + 1, len(f))):
            cls = "ranged-then-global-truncates"
        else:
            cls = "other"
        stats[cls] += 1
        if cls not in reported or (cls == "other" and reported[cls] < 3):
            reported[cls] = reported.get(cls, 0) + 1
            what = {"value-wraps-mod-256": "a feature value ≥ 256 acts as value mod 256 (256 switches the feature OFF)",
                    "ranged-then-global-same-tag": "a ranged entry followed by a global entry (value 1) of the same tag is "
                    "applied to the shared GLOBAL bit: an even ranged value switches every default-on feature off in that range",
                    "ranged-then-global-truncates": "a global entry after a ranged entry of the same tag overwrites max_value "
                    "(dedup_feature_infos), so the earlier ranged value is truncated to the bit width of the global value",
                    "other": "a user feature did not act on exactly its cluster range with its value"}[cls]
            ctx.violation(f"{what}: features {f} on clusters {[c for _, c in text]} → {o}; expected {a}",
                          {"stage": "search", "stream": "feature-shape", "class": cls, "api": "shape",
                           "features": [list(x) for x in f], "text": [list(x) for x in text], "lines": [reg, req],
                           "expected": a, "expected_alt": b, "observed": o})
    ctx.note_search("feature-shape", len(reqs), nontriv, single_feature_cases=n_single, classes=stats,
                    rule="designed GSUB font (ccmp on by default: g→20+g; aalt alternates; smcp single) through the public shape(), "
                         "features built by FIELD. (1) every (start,end) ∈ {0..7, 2^32-2, 2^32-1}² × value ∈ {0,1,2,3,255,256} × "
                         "tag ∈ {smcp,aalt,ccmp} × texts of 0..6 clusters (+ shared / shifted / sparse clusters); (2) all pairs of "
                         "entries over 3 tags × 4 values × 6 ranges; (3) random lists of ≤ 6 entries. Oracle: per-cluster feature "
                         "values by sequential override (or HarfBuzz's globals-then-ranges order), glyph = OpenType meaning of the "
                         "values; non-trivial = some entry covers some cluster of the text")


# ------------------------------------------------------------------------------------------------
# fonts whose features SHARE lookups (salt/ss01, a default-on feature and a user feature, three features on one lookup, …)
# and the oracle that reads the OpenType meaning off the recipe: one stage, lookups in index order, a lookup acts on a
# glyph iff ANY feature that references it is on for that glyph.

ON_TAGS = ["ccmp", "liga", "calt", "clig", "locl", "rlig"]        # global with value 1 in the default shaper (horizontal)
USER_TAGS = ["aalt", "salt", "ss01", "ss02", "ss03", "smcp", "c2sc", "swsh", "ss04", "zero", "onum", "titl"]      # ⊂ POOL_TAGS
NBASE = 8


def shared_recipe(r, share_alt=True):
    """chars U+E000+i -> glyph 1+i (i < 8); 3-7 single / alternate lookups whose targets are FRESH glyph ids (the output
    glyph tells which lookups acted, in which order, with which alternate); 1-3 default-on and 2-5 off-by-default features;
    most lookups are referenced by 2 or 3 features (at least one single-substitution lookup by a user feature and another
    feature); `share_alt=False` keeps alternate lookups unshared."""
    on = r.sample(ON_TAGS, r.range(1, 3))
    user = r.sample(USER_TAGS, r.range(2, 5))
    tags = on + user
    nl = r.range(3, 7)
    kinds = ["s" if r.chance(2, 3) else "t" for _ in range(nl)]
    kinds[r.below(nl)] = "s"
    refs = []
    for li in range(nl):
        n = [1, 1, 2, 2, 2, 3][r.below(6)]
        if kinds[li] == "t" and n > 1 and (not share_alt or not r.chance(1, 3)):
            n = 1                   # a shared ALTERNATE lookup "breaks badly" upstream (alternate_set.rs): kept rare
        refs.append(r.sample(tags, n))
    singles = [li for li in range(nl) if kinds[li] == "s"]
    if not any(len(refs[li]) >= 2 and any(t in user for t in refs[li]) for li in singles):
        a = r.choice(user)
        refs[r.choice(singles)] = [a, r.choice([t for t in tags if t != a])]
    for t in tags:                  # every feature references something
        if not any(t in x for x in refs):
            li = r.choice(singles if (not share_alt or r.chance(2, 3)) else list(range(nl)))
            if kinds[li] == "t" and not share_alt and refs[li]:
                li = r.choice(singles)
            refs[li].append(t)
    nxt = [NBASE + 1]
    def fresh():
        nxt[0] += 1
        return nxt[0] - 1
    base, derived, lookups = list(range(1, NBASE + 1)), [], []
    for li in range(nl):
        dom = r.sample(base, r.range(4, NBASE)) + r.sample(derived, r.range(0, min(len(derived), 6)))
        if kinds[li] == "s":
            m = {g: fresh() for g in sorted(dom)}
            derived += list(m.values())
        else:
            m = {g: [fresh() for _ in range(r.choice([1, 2, 3, 3, 4]))] for g in sorted(dom)}
            derived += [a for al in m.values() for a in al]
        lookups.append((kinds[li], m))
    features = []
    for t in sorted(tags, key=T):
        ls = [li for li in range(nl) if t in refs[li]]
        if r.chance(1, 10):
            ls = ls + [ls[0]]       # the same lookup twice in one feature
        features.append((T(t), ls))
    return {"nglyphs": nxt[0] + 1, "cmap": {0xE000 + i: 1 + i for i in range(NBASE)},
            "scripts": {T("DFLT"): {"req": None, "feats": list(range(len(features)))}},
            "features": features, "lookups": lookups, "on": on, "user": user}


def shared_lookups(rec):
    """[(lookup index, kind, [referencing tags])] for lookups referenced by two or more features"""
    out = []
    for li, (kind, _) in enumerate(rec["lookups"]):
        ts = [tag_str(t) for t, ls in rec["features"] if li in ls]
        if len(ts) >= 2:
            out.append((li, kind, ts))
    return out


def spec_shape_shared(rec, text, feats, semantics):
    """[(gid | None, cluster)] and the intended gid of every None position.
    Per cluster the value of every feature of the font: default (1 for the default-on tags, 0 otherwise) overridden by the
    user entries that cover the cluster ('seq' / 'hb' order as in spec_shape).  Then the lookups in index order: a lookup
    acts iff some referencing feature has a non-zero value there; a single substitution replaces a covered glyph, an
    alternate substitution takes alternate #value of the referencing feature that is on.
    An alternate lookup referenced by two or more REQUESTED features that do not all sit on the shared global bit is the
    upstream-documented "breaks badly if two features enabled this lookup together": the glyph is not judged from there
    on (None) and its intended glyph is returned separately (the value of the on-features when they agree)."""
    ftags = {tag_str(t): ls for t, ls in rec["features"]}
    defaults = {t: (1 if t in rec["on"] else 0) for t in ftags}
    mentioned = {t for t, _, _, _ in feats}
    requested = set(rec["on"]) | {t for t, v, _, _ in feats if v > 0 and t in ftags}
    order = feats if semantics == "seq" else ([f for f in feats if (f[2], f[3]) == (0, U32)] +
                                               [f for f in feats if (f[2], f[3]) != (0, U32)])
    out, intent = [], []
    for g, c in text:
        vals = dict(defaults)
        for t, v, s, e in order:
            if t in vals and covers(s, e, c):
                vals[t] = v
        judged, want = True, g
        for li, (kind, m) in enumerate(rec["lookups"]):
            refs = [t for t in ftags if li in ftags[t]]
            onv = [vals[t] for t in refs if vals[t] != 0]
            if not onv:
                continue
            if kind == "s":
                want = m.get(want, want)
                continue
            alts = m.get(want)
            if alts is None:
                continue
            rq = [t for t in refs if t in requested]
            if len(rq) >= 2 and not all(t in rec["on"] and t not in mentioned for t in rq):
                judged = False
                if len(set(onv)) != 1:
                    want = None         # the on-features disagree: no intent either
                    break
            if 1 <= onv[0] <= len(alts):
                want = alts[onv[0] - 1]
        out.append((want if judged else None, c))
        intent.append(want)
    return out, intent


def fmt_out_q(gl):
    return f"ok {len(gl)}" + "".join(f" {'?' if g is None else g}:{c}" for g, c in gl)


def matches_q(observed, expected):
    """expected may hold `?` for glyph ids that are not judged"""
    if expected is None:
        return False
    a, b = observed.split(), expected.split()
    return len(a) == len(b) and all(x == y or (y.startswith("?:") and x.split(":")[1:] == y.split(":")[1:]) for x, y in zip(a, b))


RANGES6 = [(0, U32), (1, 3), (2, 5), (0, 1), (3, 3), (0, U32 - 1)]


def shared_feature_lists(r, rec, nrandom):
    """structured: every pair of features that share a lookup × all pairs of 6 ranges × values (1,1) (2,1) (0,1) (3,2);
    random: 1-5 entries over the font's tags (sometimes an absent tag), values 0-3 (one entry may carry 255)."""
    ftags = [tag_str(t) for t, _ in rec["features"]]
    out = []
    pairs = []
    for li, kind, ts in shared_lookups(rec):
        pairs += [(a, b) for i, a in enumerate(ts) for b in ts[i + 1:]]
    for a, b in r.shuffle(pairs)[:3]:
        for va, vb in ((1, 1), (2, 1), (0, 1), (3, 2)):
            for ra in RANGES6:
                for rb in RANGES6:
                    out.append([(a, va, *ra), (b, vb, *rb)])
    for _ in range(nrandom):
        f, wide = [], False
        for _ in range(r.range(1, 5)):
            s, e = r.choice(RANGES6 + [(r.below(6), r.below(7))])
            t = r.choice(ftags) if r.chance(9, 10) else "zzzz"
            if f and r.chance(1, 6): t = r.choice(f)[0]
            v = r.choice([0, 1, 1, 1, 2, 3])
            if not wide and r.chance(1, 12):
                v, wide = 255, True
            f.append((t, v, s, e))
        out.append(f)
    return out


def shared_search(ctx, shim, r):
    nfonts, nrandom = ctx.budget(30, 250), ctx.budget(150, 600)
    texts = [[(1 + i, i) for i in range(5)], [(1 + i, i) for i in range(NBASE)], [(1, 0), (2, 0), (3, 1), (4, 1), (5, 2), (6, 2)],
             [(8, 1), (7, 2), (6, 3), (5, 4), (4, 5)], [(3, 0), (3, 2), (1, 4)], [(2, 0)]]
    recs, regs, meta = [], [], []
    nshared = nshared_alt = 0
    tags = DEFAULT_TAGS + [T(t) for t in USER_TAGS] + [T("zzzz")]
    for i in range(nfonts):
        rec = shared_recipe(r)
        sl = shared_lookups(rec)
        nshared += len(sl); nshared_alt += len([1 for _, k, _ in sl if k == "t"])
        recs.append(rec); regs.append(f"map fonthex H{i} {build_font(rec).hex()}")
        m = []
        for k, f in enumerate(shared_feature_lists(r, rec, nrandom)):
            m.append((rec, f, texts[0] if len(f) == 2 and k % 4 else r.choice(texts)))
        meta.append(m)
    # the reply of `map facts` is pasted into the shape requests (the model reads the font from it): two passes
    facts = vlib.run_groups(shim, [[reg, f"map facts H{i} - - " + ",".join(map(str, tags))] for i, reg in enumerate(regs)])
    lines = []
    for i, (rec, reg, m) in enumerate(zip(recs, regs, meta)):
        lk = " ".join(lookup_tokens(rec))
        lines.append([reg] + [shape_request(f"H{i}", facts[i][1], lk, f, text) for _, f, text in m])
    outs = vlib.run_groups(shim, lines)
    stats = {"ok": 0, "value-wraps-mod-256": 0, "ranged-then-global-same-tag": 0, "ranged-then-global-truncates": 0,
             "shared-alternate-lookup": 0, "other": 0, "unjudged-glyphs": 0, "two-requested-features-on-one-lookup": 0}
    reported = {}
    total = nontriv = 0
    alt_example = None
    for m, ls, o in zip(meta, lines, outs):
        for (rec, f, text), req, got in zip(m, ls[1:], o[1:]):
            total += 1
            (a, ia), (b, ib) = spec_shape_shared(rec, text, f, "seq"), spec_shape_shared(rec, text, f, "hb")
            ea, eb = fmt_out_q(a), fmt_out_q(b)
            if any(covers(s, e, c) for (_, _, s, e) in f for (_, c) in text): nontriv += 1
            stats["unjudged-glyphs"] += len([1 for g, _ in a if g is None])
            rq = set(rec["on"]) | {t for t, v, _, _ in f if v > 0}
            if any(len([t for t in ts if t in rq]) >= 2 for _, _, ts in shared_lookups(rec)):
                stats["two-requested-features-on-one-lookup"] += 1
            if matches_q(got, ea) or matches_q(got, eb):
                stats["ok"] += 1
                # the judged glyphs are right; is an unjudged one off its intent?
                gg = [int(x.split(":")[0]) for x in got.split()[2:]] if got.startswith("ok") else []
                off = [(j, gg[j], ia[j]) for j in range(len(gg)) if a[j][0] is None and ia[j] is not None and gg[j] != ia[j]]
                if off and matches_q(got, ea):
                    stats["shared-alternate-lookup"] += 1
                    if alt_example is None:
                        alt_example = {"features": [list(x) for x in f], "text": [list(x) for x in text], "lines": [ls[0], req],
                                       "observed": got, "intended": fmt_out(list(zip(ia, [c for _, c in text]))),
                                       "font_features": [(tag_str(t), l) for t, l in rec["features"]],
                                       "shared": shared_lookups(rec)}
                continue
            if any(v >= 256 for (_, v, _, _) in f):
                stats["value-wraps-mod-256"] += 1
                continue
            dup = [(j, k) for j in range(len(f)) for k in range(j + 1, len(f))
                   if f[j][0] == f[k][0] and (f[j][2], f[j][3]) != (0, U32) and (f[k][2], f[k][3]) == (0, U32)]
            if any(f[k][1] == 1 for _, k in dup): cls = "ranged-then-global-same-tag"
            elif dup: cls = "ranged-then-global-truncates"
            else: cls = "other"
            stats[cls] += 1
            if cls not in reported or (cls == "other" and reported[cls] < 3):
                reported[cls] = reported.get(cls, 0) + 1
                sh = shared_lookups(rec)
                what = {"ranged-then-global-same-tag": "a ranged entry followed by a global entry (value 1) of the same tag is applied "
                        "to the shared GLOBAL bit", "ranged-then-global-truncates": "a global entry after a ranged entry of the same "
                        "tag overwrites max_value (dedup_feature_infos)",
                        "other": "user features did not act on exactly their cluster ranges with their values on a font whose "
                        "features share lookups"}[cls]
                ctx.violation(f"{what}: features {f} on clusters {[c for _, c in text]} → {got}; expected {ea} "
                              f"(font: features → lookups {[(tag_str(t), l) for t, l in rec['features']]}, default-on {rec['on']})",
                              {"stage": "search", "stream": "feature-shape", "generator": "shared-lookups", "class": cls, "api": "shape",
                               "features": [list(x) for x in f], "text": [list(x) for x in text], "lines": [ls[0], req],
                               "font_features": [(tag_str(t), l) for t, l in rec["features"]], "default_on": rec["on"],
                               "lookups": lookup_tokens(rec), "shared_lookups": sh,
                               "expected": ea, "expected_alt": eb, "observed": got})
    # permanent witness of known_C14_shared_alternate_index: salt and ss01 on ONE alternate lookup {glyph 1 -> 10..14}
    wrec = {"nglyphs": 20, "cmap": {0xE000 + i: 1 + i for i in range(NBASE)}, "scripts": {T("DFLT"): {"req": None, "feats": [0, 1]}},
            "features": [(T("salt"), [0]), (T("ss01"), [0])], "lookups": [("t", {1: [10, 11, 12, 13, 14]})], "on": [], "user": ["salt", "ss01"]}
    wreg = f"map fonthex W {build_font(wrec).hex()}"
    wfacts = vlib.run_groups(shim, [[wreg, f"map facts W - - {T('salt')},{T('ss01')}"]], nproc=1)[0][1]
    wreq = shape_request("W", wfacts, " ".join(lookup_tokens(wrec)), [("salt", 1, 0, 1), ("ss01", 1, 2, 3)], [(1, 0), (1, 1), (1, 2)])
    wgot = vlib.run_groups(shim, [[wreg, wreq]], nproc=1)[0][1]
    ctx.cov["known_witness_shared_alternate"] = {
        "theorem": "known_C14_shared_alternate_index", "lines": [wreg, wreq], "features": "salt[0:1]=1 ss01[2:3]=1",
        "crate": wgot, "intended": "ok 3 10:0 1:1 10:2", "theorem_says": "ok 3 10:0 1:1 11:2 (index 1·2^(5-4) = 2 at cluster 2)",
        "reproduces_on_crate": wgot == "ok 3 10:0 1:1 11:2"}
    if alt_example is not None:
        rp = dict(alt_example)
        rp.update({"stage": "search", "stream": "feature-shape", "generator": "shared-lookups", "class": "shared-alternate-lookup",
                   "api": "shape", "count": stats["shared-alternate-lookup"]})
        what = ("an ALTERNATE lookup referenced by two requested features takes its alternate index from the union of both "
                "features' mask bits (alternate_set.rs: 'This breaks badly if two features enabled this lookup together'): "
                f"features {rp['features']} → {rp['observed']}, intended {rp['intended']}")
        registered = any(k.get("status") == "known" and k.get("property") == ctx.prop and vlib.matches_known(k, rp) for k in ctx.kf)
        if registered:
            ctx.violation(what, rp)
        else:
            # inherited from HarfBuzz and not (yet) in known_findings.json: shown and recorded, not failed
            ctx.cov.setdefault("unregistered_findings", []).append({"class": "shared-alternate-lookup", "what": what, "replay": rp})
            print(f"# UNREGISTERED-FINDING property={ctx.prop} class=shared-alternate-lookup count={rp['count']}: {what[:400]}")
    ctx.note_search("feature-shape-shared", total, nontriv, fonts=nfonts, shared_lookups=nshared, shared_alternate_lookups=nshared_alt,
                    classes=stats,
                    rule="generated GSUB fonts (8 base glyphs, 3-7 single / alternate lookups with fresh target glyphs, 1-3 default-on "
                         "and 2-5 optional features, most lookups referenced by 2-3 features) through the public shape(); per font all "
                         "pairs of 6 ranges × 4 value pairs for up to 3 feature pairs that share a lookup, plus random lists of 1-5 "
                         "entries (values 0-3, 255). Oracle: per-cluster feature values by sequential override (or globals-then-ranges), "
                         "lookups in index order, a lookup acts iff ANY referencing feature is on, alternate #value; glyphs that went "
                         "through an alternate lookup shared by two requested features are not judged (counted: unjudged-glyphs, "
                         "shared-alternate-lookup); non-trivial = some entry covers some cluster of the text")


# ------------------------------------------------------------------------------------------------
# fonts with EVERY kind of GSUB lookup under ranged features: 1 single, 2 multiple, 3 alternate, 4 ligature, 5 context and
# 6 chaining context (formats 1 and 3, nested single / multiple lookups), 8 reverse chaining single (with empty and with
# non-empty backtrack / lookahead coverages); optional GDEF classes with IgnoreMarks lookups.  Two lookup drivers exist in
# the crate (apply_forward for types 1-7, apply_backward for lookups made of type 8 subtables) and every lookup type has
# its own match code: "the feature acts on exactly the clusters of its range" has to hold for each of them.
#
# Oracle: the executable OpenType specification Spec/OpenTypeSubst.lean (`gsubspec` request of the model driver) run on
# masks that are computed HERE from the meaning of the feature list, in a layout of the oracle's own (4 bits per feature of
# the font, in tag order, from bit 4): glyph mask = the value every feature has at the glyph's cluster, lookup mask = the
# fields of the features that reference the lookup.  So: a lookup acts at a position iff some referencing feature is on
# for the CURRENT glyph, every glyph of an input / component sequence must carry the feature, backtrack / lookahead
# glyphs need not (Spec.matchSeq), alternate #value.  Neither the crate's bit allocation nor its plan is consulted.

FIELD = 4
TYPED_KINDS = [1, 2, 3, 4, 5, 6, 8, 8]


def typed_recipe(r, kinds=None):
    """fontbuild recipe; chars U+E000+g-1 -> glyph g for every glyph ("pua"); texts use the NBASE base glyphs.
    Targets of substitutions are fresh glyph ids, so the output tells which lookups acted where."""
    on = r.sample(ON_TAGS, r.range(1, 2))
    user = r.sample(USER_TAGS, r.range(2, 4))
    tags = sorted(on + user, key=T)
    nxt = [NBASE + 1]
    def fresh():
        nxt[0] += 1
        return nxt[0] - 1
    base, derived = list(range(1, NBASE + 1)), []
    gdef = None
    marks = []
    if r.chance(1, 4):
        marks = sorted(r.sample(base, r.range(1, 3)))
        gdef = {"classes": {g: (3 if g in marks else 1) for g in base}}

    def cov(kmin, kmax, nder=2):
        c = r.sample(base, r.range(kmin, min(kmax, NBASE)))
        if derived and nder:
            c += r.sample(derived, r.range(0, min(nder, len(derived))))
        return sorted(set(c))

    def simple(kind, big=False):
        """subtable of a single-position lookup (1 single, 2 multiple with >= 1 glyph, 3 alternate)"""
        dom = cov(5 if big else 3, NBASE, 3)
        if kind == 1:
            sub = {"format": 2, "coverage": dom, "subst": [fresh() for _ in dom]}
            derived.extend(sub["subst"])
        elif kind == 2:
            sub = {"coverage": dom, "sequences": [[fresh() for _ in range(r.choice([1, 2, 2, 3]))] for _ in dom]}
            derived.extend(g for s_ in sub["sequences"] for g in s_)
        else:
            sub = {"coverage": dom, "alternates": [[fresh() for _ in range(r.choice([1, 2, 3, 3, 4]))] for _ in dom]}
            derived.extend(g for s_ in sub["alternates"] for g in s_)
        return sub

    nl = r.range(3, 6)
    kinds = list(kinds) if kinds else [r.choice(TYPED_KINDS) for _ in range(nl)]
    nl = len(kinds)
    ncontext = len([k for k in kinds if k in (5, 6)])
    lookups, seqs = [], []
    helper_at = nl                      # helpers (nested lookups) follow the main lookups
    helpers = []
    for li, kind in enumerate(kinds):
        flag = 8 if (marks and kind != 4 and r.chance(1, 2)) else 0
        if kind in (1, 2, 3):
            sub = simple(kind)
            if kind == 2 and r.chance(1, 10):
                sub["sequences"][r.below(len(sub["sequences"]))] = []       # a deleting sequence
        elif kind == 4:
            firsts = sorted(r.sample(base, r.range(2, 4)))
            sets = []
            for g in firsts:
                ligs = []
                for _ in range(r.range(1, 2)):
                    comps = [r.choice(base) for _ in range(r.choice([1, 1, 1, 2, 2, 0]))]
                    ligs.append({"components": comps, "glyph": fresh()})
                    seqs.append([g] + comps)
                ligs.sort(key=lambda l: -len(l["components"]))
                derived.extend(l["glyph"] for l in ligs)
                sets.append(ligs)
            sub = {"coverage": firsts, "ligsets": sets}
        elif kind in (5, 6):
            hi = helper_at + len(helpers)
            helpers.append(None)          # filled below (the helper's targets are allocated after this lookup's)
            def recs(ninput):
                out = [(r.below(ninput), hi)]
                if r.chance(1, 3):
                    out.append((r.below(ninput + (1 if r.chance(1, 6) else 0)), hi))
                return out
            if r.chance(2, 3):
                ins = [cov(4, NBASE) for _ in range(r.range(1, 3))]
                sub = {"format": 3, "coverages": ins, "lookups": recs(len(ins))}
                if kind == 6:
                    sub["backtrack"] = [cov(3, NBASE) for _ in range(r.choice([0, 0, 1, 2]))]
                    sub["lookahead"] = [cov(3, NBASE) for _ in range(r.choice([0, 0, 1, 2]))]
            else:
                firsts = sorted(r.sample(base, r.range(2, 5)))
                sets = []
                for g in firsts:
                    rules = []
                    for _ in range(r.range(1, 2)):
                        inp = [r.choice(base) for _ in range(r.choice([0, 1, 1, 2]))]
                        ru = {"input": inp, "lookups": recs(len(inp) + 1)}
                        bt, la = [], []
                        if kind == 6:
                            bt = [r.choice(base) for _ in range(r.choice([0, 0, 1, 2]))]
                            la = [r.choice(base) for _ in range(r.choice([0, 0, 1, 2]))]
                            ru["backtrack"], ru["lookahead"] = bt, la
                        seqs.append(list(reversed(bt)) + [g] + inp + la)
                        rules.append(ru)
                    sets.append(rules)
                sub = {"format": 1, "coverage": firsts, "rulesets": sets}
            helpers[hi - helper_at] = {"type": r.choice([1, 1, 1, 2]), "flag": 0, "subtables": None}
        else:
            dom = cov(3, NBASE, 3)
            nb, na = (0, 0) if r.chance(1, 2) else (r.choice([0, 1, 1, 2]), r.choice([0, 1, 1, 2]))
            sub = {"coverage": dom, "backtrack": [cov(3, NBASE) for _ in range(nb)],
                   "lookahead": [cov(3, NBASE) for _ in range(na)], "subst": [fresh() for _ in dom]}
            derived.extend(sub["subst"])
        lookups.append({"type": kind, "flag": flag, "subtables": [sub]})
    for h in helpers:
        h["subtables"] = [simple(h["type"], big=True)]
        lookups.append(h)
    # references: a main lookup by 1-2 features (an alternate lookup by one: a shared alternate lookup is the recorded
    # finding "breaks badly"), a helper by none (1 in 4: by one feature, then it also runs on its own)
    refs = []
    for li, lk in enumerate(lookups):
        if li >= nl:
            refs.append(r.sample(tags, 1) if r.chance(1, 4) else [])
        elif lk["type"] == 3:
            refs.append(r.sample(tags, 1))
        else:
            refs.append(r.sample(tags, [1, 1, 2, 2, 3][r.below(5)]))
    # a contextual lookup that nests an alternate lookup would read the alternate index from its own (merged) mask: the
    # helpers are never alternates, so every lookup mask of a multi-feature lookup only decides on / off
    for t in tags:
        if not any(t in x for x in refs[:nl]):
            cand = [li for li in range(nl) if lookups[li]["type"] != 3] or list(range(nl))
            li = r.choice(cand)
            if lookups[li]["type"] == 3:
                refs[li] = [t]
            else:
                refs[li].append(t)
    features = [{"tag": t, "lookups": [li for li in range(len(lookups)) if t in refs[li]]} for t in tags]
    rec = {"num_glyphs": nxt[0] + 1, "cmap": "pua", "gsub": {"features": features, "lookups": lookups},
           "on": on, "user": user, "seqs": seqs}
    if gdef is not None:
        rec["gdef"] = gdef
    return rec


def typed_expansion_recipe(r):
    """the expansion profile of tools/gsubgen.py (contextual / chained rules of all three formats whose records grow the matched
    sequence by 2-4 glyphs and whose later records address every place of the grown sequence) as a typed recipe: the rules sit
    under default-on features, some nested lookups also under an optional one.  No nested alternate lookups (a nested lookup
    reads the alternate index from the contextual lookup's mask)."""
    rec = gsubgen.expansion_recipe(r, alternates=False)
    tags = [f["tag"] for f in rec["gsub"]["features"]]
    rec["on"] = [t for t in tags if t in ON_TAGS]
    rec["user"] = [t for t in tags if t not in ON_TAGS]
    rec["gsub"]["features"].sort(key=lambda f: T(f["tag"]))
    return rec


def typed_font(rec):
    return fontbuild.build({k: v for k, v in rec.items() if k not in ("on", "user", "seqs")})


def typed_text(r, rec, n=None):
    """[(gid, cluster)]: random base glyphs, half of the time seeded with glyph sequences the font's ligatures / rules name"""
    n = r.range(1, 6) if n is None else n
    gl = []
    if rec["seqs"] and r.chance(1, 2):
        while len(gl) < n and r.chance(3, 4):
            gl += r.choice(rec["seqs"])
            if r.chance(1, 3): gl.append(r.choice(rec.get("text_glyphs") or list(range(1, NBASE + 1))))
    alpha = rec.get("text_glyphs") or list(range(1, NBASE + 1))
    while len(gl) < n:
        gl.insert(r.below(len(gl) + 1), r.choice(alpha))
    gl = gl[:n]
    k = r.below(8)
    if k == 0:                          # clusters shared by neighbours
        cl, c = [], 0
        for _ in gl:
            cl.append(c); c += r.choice([0, 1, 1])
    elif k == 1:                        # sparse / shifted clusters
        cl, c = [], r.below(3)
        for _ in gl:
            cl.append(c); c += r.choice([1, 1, 2])
    else:
        cl = list(range(len(gl)))
    return list(zip(gl, cl))


def typed_values(rec, feats, cluster):
    """value of every feature of the font at a cluster: default (1 for the default-on tags of the shaper) overridden by the
    entries that cover the cluster, in the order given (the lists of this stream never hold a ranged entry followed by a
    global entry of the same tag — F2 / F3 —, so sequential override and HarfBuzz's globals-then-ranges order agree)"""
    vals = {f["tag"]: (1 if f["tag"] in rec["on"] else 0) for f in rec["gsub"]["features"]}
    for t, v, s, e in feats:
        if t in vals and covers(s, e, cluster):
            vals[t] = v
    return vals


def typed_spec_request(fid, rec, feats, text):
    """the `gsubspec` request: planned lookups = every referenced lookup in lookup-list order, masks in the oracle's layout"""
    tags = [f["tag"] for f in rec["gsub"]["features"]]
    shift = {t: 4 + FIELD * i for i, t in enumerate(tags)}
    maps = []
    for li in range(len(rec["gsub"]["lookups"])):
        m = 0
        for f in rec["gsub"]["features"]:
            if li in f["lookups"]:
                m |= ((1 << FIELD) - 1) << shift[f["tag"]]
        if m:
            maps.append(f"{li} {m} 1 1 0 0")
    info = []
    for g, c in text:
        vals = typed_values(rec, feats, c)
        mask = 0
        for t in tags:
            mask |= min(vals[t], (1 << FIELD) - 1) << shift[t]
        info.append((g, mask, c, 0, 7))
    k = len(text)
    st = {"L": 0, "F": 0, "M": max(64 * k, 16384), "O": max(1024 * k, 16384), "h": 0, "s": 0, "i": 0, "n": k,
          "o": 0, "I": info, "U": [(0, 0, 0, 0, 0)] * k}
    return (f"gsubspec {fid} l DFLT - - 1 FONT {gsubgen.flatten(rec)} MAPS {len(maps)} " + " ".join(maps)
            + f" BUF {bufgen.state_str(st)}"), st


def typed_shape_request(fid, facts, rec, feats, text):
    """`map shape` with the whole GSUB/GDEF of the font in the lookup segment (the crate reads the real font, the model this)"""
    return (f"map shape {fid} ; {facts} ; G {gsubgen.flatten(rec)} ; " + " ".join(f"{T(t)}:{v}:{s}:{e}" for t, v, s, e in feats)
            + " ; " + " ".join(f"{0xE000 + g - 1}:{g}:{c}" for g, c in text))


def no_f2f3(feats):
    return not any(feats[j][0] == feats[k][0] and (feats[j][2], feats[j][3]) != (0, U32) and (feats[k][2], feats[k][3]) == (0, U32)
                   for j in range(len(feats)) for k in range(j + 1, len(feats)))


def typed_feature_lists(r, rec, n, nrandom):
    """(1) EXHAUSTIVE: every feature of the font × every (start, end) ∈ {0..n+1, 2^32-1}² × value (0 and 2 for a default-on
    feature, 1 and — every third range — 3 for an optional one); (2) random lists of 1-3 entries, values 0-3."""
    P = list(range(0, n + 2)) + [U32]
    out = []
    for f in rec["gsub"]["features"]:
        t = f["tag"]
        k = 0
        for s in P:
            for e in P:
                k += 1
                if t in rec["on"]:
                    out.append([(t, 0, s, e)])
                    if k % 3 == 0: out.append([(t, 2, s, e)])
                else:
                    out.append([(t, 1, s, e)])
                    if k % 3 == 0: out.append([(t, 3, s, e)])
    tags = [f["tag"] for f in rec["gsub"]["features"]]
    for _ in range(nrandom):
        while True:
            fl = []
            for _ in range(r.range(1, 3)):
                s, e = r.choice([(0, U32), (r.below(n + 1), r.below(n + 2)), (r.below(n + 1), r.below(n + 2)), (r.below(n + 1), U32)])
                t = r.choice(tags) if r.chance(14, 15) else "zzzz"
                fl.append((t, r.choice([0, 1, 1, 2, 3]), s, e))
            if no_f2f3(fl):
                break
        out.append(fl)
    return out


def typed_cases(ctx, shim, r, nfonts, nrandom, prefix="Y"):
    """[(font id, recipe, register line, facts, [(features, text)])]"""
    import C06 as _c06
    tags = DEFAULT_TAGS + [T(t) for t in USER_TAGS] + [T("zzzz")]
    recs = []
    while len(recs) < nfonts:
        rec = typed_expansion_recipe(r) if len(recs) % 4 == 3 else typed_recipe(r)
        try:
            recs.append((rec, typed_font(rec).hex()))
        except fontbuild.FontBuildError:
            continue
    regs = [f"map fonthex {prefix}{i} {h}" for i, (_, h) in enumerate(recs)]
    facts = vlib.run_groups(shim, [[reg, f"map facts {prefix}{i} - - " + ",".join(map(str, tags))] for i, reg in enumerate(regs)])
    out = []
    for i, ((rec, _), reg, fo) in enumerate(zip(recs, regs, facts)):
        n = r.choice([3, 4])
        tex = typed_text(r, rec, n)
        tex = [(g, c) for c, (g, _) in enumerate(tex)]          # the exhaustive part: clusters 0..n-1
        cases = [(f, tex) for f in typed_feature_lists(r, rec, n, 0)]
        for _ in range(nrandom):
            t2 = typed_text(r, rec)
            nmax = max(c for _, c in t2) + 1
            cases.append((typed_feature_lists(r, rec, nmax, 1)[-1], t2))
        out.append((f"{prefix}{i}", rec, reg, fo[1], cases))
    return out


def typed_groups(cases):
    """the `map shape` request groups of the cases (one group per font, the register line first)"""
    return [[reg] + [typed_shape_request(fid, facts, rec, feats, text) for feats, text in cs] for fid, rec, reg, facts, cs in cases]


def classify_typed(ln, out):
    if not ln.startswith("map shape"):
        return ["register"]
    segs = ln.split(" ; ")
    text = segs[4].split()
    ks = ["shape"]
    if out.startswith("ok") and text:
        gids = [t.split(":")[1] for t in text]
        og = [t.split(":")[0] for t in out.split()[2:]]
        ks.append("shape:substituted" if og != gids else "shape:unchanged")
        if len(og) > len(gids): ks.append("shape:grew")
        if len(og) < len(gids): ks.append("shape:shrank")
    if out.startswith("panic"): ks.append("shape:panic")
    if any(f.split(":")[2:] != ["0", str(U32)] for f in segs[3].split()): ks.append("shape:ranged-features")
    return ks


def growth_then_later_index(rec):
    """Does a contextual rule of the font apply a GROWING nested lookup (multiple substitution, a sequence of >= 2 glyphs) and
    then a record with a greater sequence index?  The crate (like HarfBuzz, apply_lookup: "Recursed lookup changed buffer
    len. Adjust.") makes the inserted glyphs part of the matched sequence, so the later index counts them; so does the
    executable specification (Spec/OpenTypeSubst.lean::applyRecords, since its correction: the sequence index of a later
    record refers to the sequence as modified).  Such fonts ARE judged; the function only counts them (a quarter of the
    fonts — typed_expansion_recipe — is built to be of this kind)."""
    lookups = rec["gsub"]["lookups"]
    def grows(li):
        return (li < len(lookups) and lookups[li]["type"] == 2
                and any(len(q) >= 2 for st in lookups[li]["subtables"] for q in st["sequences"]))
    def bad(recs):
        return any(grows(l1) and i2 > i1 for k, (i1, l1) in enumerate(recs) for (i2, _) in recs[k + 1:])
    for lk in lookups:
        if lk["type"] not in (5, 6):
            continue
        for st in lk["subtables"]:
            if st["format"] == 3:
                if bad(st["lookups"]): return True
            else:
                for rs in st.get("rulesets") or []:
                    for ru in rs or []:
                        if bad(ru["lookups"]): return True
    return False


def typed_search(ctx, shim, model, cases):
    import C06 as _c06
    g_shape, g_spec, meta = typed_groups(cases), [], []
    for fid, rec, reg, facts, cs in cases:
        lm, mm = ["map fonthex - 00"], []
        for feats, text in cs:
            sreq, st = typed_spec_request(fid, rec, feats, text)
            lm.append(sreq); mm.append(st)
        g_spec.append(lm); meta.append(mm)
    a = vlib.run_groups(shim, g_shape, timeout=600)
    b = vlib.run_groups(model, g_spec, timeout=600)
    n = indom = bad = acted = ranged_hit = ndrift = 0
    by_type, devs = {}, []
    for (fid, rec, reg, facts, cs), ls, lm, mm, xs, ys in zip(cases, g_shape, g_spec, meta, a, b):
        kinds = sorted({lk["type"] for lk in rec["gsub"]["lookups"]})
        drift = growth_then_later_index(rec)
        for (feats, text), req, sreq, st, x, y in zip(cs, ls[1:], lm[1:], mm, xs[1:], ys[1:]):
            n += 1
            ok, cmpcl = _c06.in_spec_domain(rec, st)
            if drift:
                ndrift += 1
            if not ok or not y.startswith("ok "):
                continue
            if not x.startswith("ok "):
                bad += 1
                if bad <= 3:
                    ctx.violation(f"shape() with user features {feats} on a generated GSUB font does not return normally: {x[:200]}",
                                  {"stage": "search", "stream": "feature-shape-typed", "class": "crash", "api": "shape", "features": [list(f) for f in feats],
                                   "text": [list(t) for t in text], "lines": [reg, req], "observed": x})
                continue
            indom += 1
            got = [tuple(int(v) for v in e.split(":")) for e in x.split()[2:]]
            t = y.split()
            want = [] if len(t) < 3 or t[2] == "-" else [tuple(int(v) for v in e.split(":")) for e in t[2].split(",")]
            if [g for g, _ in got] != [g for g, _ in text]:
                acted += 1
                if any((s, e) != (0, U32) and any(covers(s, e, c) for _, c in text) and not all(covers(s, e, c) for _, c in text)
                       for _, _, s, e in feats):
                    ranged_hit += 1
                for k in kinds: by_type[k] = by_type.get(k, 0) + 1
            same = (got == want) if cmpcl else ([p[0] for p in got] == [p[0] for p in want])
            if not same:
                bad += 1
                devs.append((len(rec["gsub"]["lookups"]), len(feats), len(text), bad, rec, reg, feats, text, req, sreq, x, want, cmpcl))
    devs.sort(key=lambda d: d[:4])
    for _, _, _, _, rec, reg, feats, text, req, sreq, x, want, cmpcl in devs[:3]:
        # the smallest fonts / feature lists / texts of the run are reported
        exp = "ok %d" % len(want) + "".join(f" {g}:{c}" for g, c in want)
        lts = [(li, lk["type"], [f["tag"] for f in rec["gsub"]["features"] if li in f["lookups"]])
               for li, lk in enumerate(rec["gsub"]["lookups"])]
        ctx.violation(f"user features did not act on exactly their cluster ranges with their values: features {feats} "
                      f"(default-on {rec['on']}) on glyphs {[g for g, _ in text]} clusters {[c for _, c in text]} → {x}; "
                      f"the OpenType model under the per-cluster feature values gives {exp} "
                      f"(font lookups (index, type, features): {lts})",
                      {"stage": "search", "stream": "feature-shape-typed", "class": "other", "api": "shape",
                       "features": [list(f) for f in feats], "text": [list(t) for t in text], "lines": [reg, req],
                       "spec_request": sreq, "default_on": rec["on"], "lookups": lts,
                       "recipe": {k: v for k, v in rec.items() if k != "seqs"},
                       "expected": exp, "observed": x, "clusters_compared": cmpcl})
    ctx.note_search("feature-shape-typed", n, acted, in_domain=indom, deviations=bad, substituted=acted,
                    growth_then_later_sequence_index=ndrift,
                    substituted_under_partial_range=ranged_hit, substituted_by_font_lookup_types=by_type, fonts=len(cases),
                    rule="generated GSUB(/GDEF) fonts with lookups of types 1, 2, 3, 4, 5, 6 (formats 1 and 3, nested single / multiple "
                         "lookups) and 8 (reverse chaining, with and without backtrack / lookahead), 1-2 default-on and 2-4 optional "
                         "features, lookups referenced by 1-3 features, through the public shape(); per font EVERY (start, end) ∈ "
                         "{0..n+1, 2^32-1}² for every feature on a text of n = 3-4 clusters (value 0 / 2 for default-on, 1 / 3 for "
                         "optional features) plus random lists of 1-3 entries on texts of 1-6 glyphs (shared and sparse clusters). "
                         "Oracle: Spec.applyAll (Spec/OpenTypeSubst.lean) over all referenced lookups in lookup-list order with glyph "
                         "and lookup masks computed from the per-cluster feature values in the oracle's own bit layout; judged on the "
                         "specification's domain of unambiguity; every fourth font comes from the expansion profile of tools/gsubgen.py "
                         "(contextual / chained rules of all three formats whose records grow the matched sequence by 2-4 glyphs and "
                         "whose later records address every place of the grown sequence; counted: growth_then_later_sequence_index); "
                         "non-trivial = some glyph was substituted")


# ------------------------------------------------------------------------------------------------

META_TAGS = ["init", "medi", "fina", "isol", "med2", "fin2", "fin3", "rlig", "liga", "calt", "ccmp", "kern", "mark", "mkmk", "locl",
             "rclt", "clig", "akhn", "half", "pres", "abvs", "blws", "psts", "haln", "ljmo", "vjmo", "tjmo", "curs", "dist", "cjct",
             "rphf", "pref", "nukt", "vatu", "blwf", "abvf", "pstf", "smcp", "frac", "numr", "dnom", "aalt"]


SYLLABIC_NAMES = ("DEVANAGARI", "BENGALI", "GURMUKHI", "GUJARATI", "ORIYA", "TAMIL", "TELUGU", "KANNADA", "MALAYALAM", "SINHALA",
                  "KHMER", "MYANMAR", "JAVANESE", "BALINESE", "TIBETAN", "SUNDANESE", "TAI THAM", "CHAM", "BRAHMI", "BUGINESE",
                  "KHAROSHTHI", "SHARADA", "GRANTHA", "TAKRI", "MODI", "NEWA", "LIMBU", "LEPCHA", "SYLOTI", "BATAK", "REJANG",
                  "KAITHI", "SAURASHTRA", "MEETEI", "TIRHUTA", "SIDDHAM", "KHOJKI", "KHUDAWADI", "CHAKMA", "MAHAJANI", "DOGRA")
# features whose per-glyph masks the syllabic shapers assign during their reordering pause (after setup_masks)
SYLLABIC_BASIC = {"nukt", "akhn", "rphf", "rkrf", "pref", "blwf", "abvf", "half", "pstf", "vatu", "cjct", "cfar", "init"}


def shaper_family(text):
    import unicodedata
    for ch in text:
        nm = unicodedata.name(ch, "")
        if unicodedata.category(ch)[0] in "LM" and nm:
            return "syllabic" if nm.startswith(SYLLABIC_NAMES) else "other"
    return "other"


def metamorphic_search(ctx, shim, r, ncases):
    """Consequences of "a user feature affects exactly the clusters of its range", checked through the public shape() on the
    repository's own fonts — all shapers, incl. those that drive features per glyph (Arabic forms, Hangul jamo, Indic forms):
      (1) a range covering every cluster of the text  ==  the global feature;
      (2) an empty range, or a range beyond the last cluster  ==  no feature;
      (3) adding features whose tags the font does not have (any value, any range)  ==  not adding them."""
    import corpus
    cases = r.shuffle(corpus.load())[:ncases]
    groups, meta = [], []
    for fid, reg, cs in corpus.font_groups(cases):
        lines = [reg]
        trip = []
        for c in cs:
            if c.extra and any(x.startswith("fstr=") for x in c.extra):
                continue        # the fixture's own feature strings would be mixed with ours
            n = len(c.text)
            tag = r.choice(META_TAGS)
            v = r.choice([0, 0, 1])
            U = 4294967295
            base = list(c.feats)
            k = r.below(n + 1)
            absent = [("zz%02d" % r.below(50), r.choice([1, 3, 100, 200, 255]), *r.choice([(0, U), (0, n), (k, n)]))
                      for _ in range(r.range(1, 3))]
            # many absent tags with wide values in front of a real ranged feature: absent features must not use up the
            # 28 mask bits the real ones need
            # (features are allocated in tag order: absent tags that sort before and after the real one)
            many = [(r.choice(["0a%02d", "A%03d", "zy%02d"]) % j, r.choice([255, 200, 127, 3]), *r.choice([(0, n), (k, n), (0, U)]))
                    for j in range(r.range(4, 40))]
            k2 = r.below(n + 1)
            variants = {
                "ranged": base + [(tag, v, k2, n)],
                "absent-many+ranged": base + many + [(tag, v, k2, n)],
                "global": base + [(tag, v, 0, U)],
                "full-range": base + [(tag, v, 0, n)],
                "over-range": base + [(tag, v, 0, n + r.range(1, 9))],
                "none": base,
                "empty-range": base + [(tag, v, k, k)],
                "beyond-range": base + [(tag, v, n, n + 3)],
                "absent-tags": base + absent,
            }
            idx = {}
            for name, f in variants.items():
                idx[name] = len(lines)
                lines.append(c.shape_line(fid, feats=f))
            trip.append((c, tag, v, idx, variants))
        groups.append(lines); meta.append(trip)
    outs = vlib.run_groups(shim, groups, timeout=900)
    total = nontriv = bad = 0
    for trip, g, o in zip(meta, groups, outs):
        for c, tag, v, idx, variants in trip:
            total += 1
            get = lambda name: o[idx[name]]
            if get("global") != get("none"):
                nontriv += 1            # the feature does something on this font/text
            pairs = [("global", "full-range", "full-range-equals-global"), ("global", "over-range", "full-range-equals-global"),
                     ("none", "empty-range", "empty-range-equals-none"), ("none", "beyond-range", "empty-range-equals-none"),
                     ("none", "absent-tags", "absent-tags-equal-none"), ("ranged", "absent-many+ranged", "absent-tags-equal-none")]
            for a, b, cls in pairs:
                if get(a) != get(b):
                    bad += 1
                    if bad <= 40:
                        fam = shaper_family(c.text)
                        kind = ("reordering-feature" if tag in SYLLABIC_BASIC else
                                "override-feature" if tag in ("clig", "liga") else "other-feature")
                        cls2 = cls + ":" + fam + ":" + kind
                        ctx.violation(f"user feature range semantics: {b} differs from {a} for feature {tag}={v} on {c.name}",
                                      {"stage": "search", "stream": "feature-metamorphic", "class": cls2, "fixture": c.name,
                                       "font_line": g[0], "lines": [g[0], g[idx[a]], g[idx[b]]], "features_a": variants[a],
                                       "features_b": variants[b], "result_a": get(a)[:600], "result_b": get(b)[:600]})
                    break
    ctx.note_search("feature-metamorphic", total * 9, nontriv, fixtures=total, deviations=bad,
                    rule="per corpus fixture (all fonts and scripts of tests/shaping) one tag from a list of common feature tags with "
                         "value 0/1: global vs full range vs over-long range; none vs empty range vs range beyond the text vs extra "
                         "absent tags; a ranged feature alone vs the same behind 4-39 absent tags with wide values; non-trivial = the global feature changes the shaping result")


def synth_view(rec):
    """what the metamorphic search reads off a generated font: shared_recipe fonts (single / alternate lookups) and
    typed_recipe fonts (all lookup types)"""
    if "gsub" in rec:
        ff = [(f["tag"], list(f["lookups"])) for f in rec["gsub"]["features"]]
        hexf, lk = typed_font(rec).hex(), "G " + gsubgen.flatten(rec)
        kinds = {li: lk_["type"] for li, lk_ in enumerate(rec["gsub"]["lookups"])}
    else:
        ff = [(tag_str(t), list(ls)) for t, ls in rec["features"]]
        hexf, lk = build_font(rec).hex(), " ".join(lookup_tokens(rec))
        kinds = {li: (1 if k == "s" else 3) for li, (k, _) in enumerate(rec["lookups"])}
    shared = []
    for li in sorted(kinds):
        ts = [t for t, ls in ff if li in ls]
        if len(ts) >= 2:
            shared.append((li, kinds[li], ts))
    return {"hex": hexf, "lk": lk, "features": ff, "ftags": [t for t, _ in ff], "shared": shared, "on": rec["on"],
            "types": sorted(set(kinds.values()))}


def metamorphic_synth(ctx, shim, r, nfonts, per):
    """the same consequences on generated fonts whose features share lookups (alternate lookups unshared), default shaper:
    the feature under test and the features of the base list reference common lookups, so the mask of a shared lookup is
    the union of masks that differ between the two sides of each relation (own bits vs the global bit vs no bits).
    Every second font has lookups of ALL types (typed_recipe: multiple, ligature, context, chaining context, reverse
    chaining — the second lookup driver), the others single / alternate lookups only."""
    tags = DEFAULT_TAGS + [T(t) for t in USER_TAGS] + [T("zzzz")] + [T("zz%02d" % j) for j in range(50)] + \
           [T(x % j) for x in ("0a%02d", "A%03d", "zy%02d") for j in range(24)]
    recs = [typed_recipe(r) if i % 2 else shared_recipe(r, share_alt=False) for i in range(nfonts)]
    views = [synth_view(rec) for rec in recs]
    regs = [f"map fonthex M{i} {v['hex']}" for i, v in enumerate(views)]
    facts = vlib.run_groups(shim, [[reg, f"map facts M{i} - - " + ",".join(map(str, tags))] for i, reg in enumerate(regs)])
    U = U32
    groups, meta = [], []
    for i, (rec, vw, reg) in enumerate(zip(recs, views, regs)):
        ftags = vw["ftags"]
        lk = vw["lk"]
        lines, trip = [reg], []
        for _ in range(per):
            if "gsub" in rec:
                text = [(g, c) for c, (g, _) in enumerate(typed_text(r, rec))]
                n = len(text)
            else:
                n = r.range(1, 6)
                text = [(1 + r.below(NBASE), c) for c in range(n)]
            base = []               # distinct tags: the same tag ranged and then global is the known finding F2 / F3
            for t in r.sample(ftags, min(r.range(0, 3), len(ftags) - 1)):
                s_, e_ = r.choice([(0, U), (0, n), (r.below(n + 1), n), (r.below(n + 1), r.below(n + 2))])
                base.append((t, r.choice([0, 1, 1, 2, 3]), s_, e_))
            free = [t for t in ftags if t not in {b[0] for b in base}]
            # prefer a tag that shares a lookup with a tag of the base list (or with a default-on tag)
            busy = {b[0] for b in base} | set(rec["on"])
            near = [t for t in free if any(t in ts and any(x in busy and x != t for x in ts) for _, _, ts in vw["shared"])]
            tag = r.choice(near) if near and r.chance(3, 4) else r.choice(free)
            v = r.choice([0, 1, 1, 2, 3])
            k, k2 = r.below(n + 1), r.below(n + 1)
            absent = [("zz%02d" % r.below(50), r.choice([1, 3, 100, 200, 255]), *r.choice([(0, U), (0, n), (k, n)]))
                      for _ in range(r.range(1, 3))]
            many = [(r.choice(["0a%02d", "A%03d", "zy%02d"]) % j, r.choice([255, 200, 127, 3]), *r.choice([(0, n), (k, n), (0, U)]))
                    for j in range(r.range(4, 24))]
            variants = {
                "ranged": base + [(tag, v, k2, n)],
                "absent-many+ranged": base + many + [(tag, v, k2, n)],
                "global": base + [(tag, v, 0, U)],
                "full-range": base + [(tag, v, 0, n)],
                "over-range": base + [(tag, v, 0, n + r.range(1, 9))],
                "none": base,
                "empty-range": base + [(tag, v, k, k)],
                "beyond-range": base + [(tag, v, n, n + 3)],
                "absent-tags": base + absent,
            }
            idx = {}
            for name, f in variants.items():
                idx[name] = len(lines)
                lines.append(shape_request(f"M{i}", facts[i][1], lk, f, text))
            trip.append((vw, tag, v, idx, variants, text))
        groups.append(lines); meta.append(trip)
    outs = vlib.run_groups(shim, groups, timeout=900)
    total = nontriv = bad = 0
    for trip, g, o in zip(meta, groups, outs):
        for vw, tag, v, idx, variants, text in trip:
            total += 1
            get = lambda name: o[idx[name]]
            if get("global") != get("none"):
                nontriv += 1
            pairs = [("global", "full-range", "full-range-equals-global"), ("global", "over-range", "full-range-equals-global"),
                     ("none", "empty-range", "empty-range-equals-none"), ("none", "beyond-range", "empty-range-equals-none"),
                     ("none", "absent-tags", "absent-tags-equal-none"), ("ranged", "absent-many+ranged", "absent-tags-equal-none")]
            for a, b, cls in pairs:
                if get(a) != get(b):
                    bad += 1
                    if bad <= 3:
                        ctx.violation(f"user feature range semantics on a font whose features share lookups: {b} differs from {a} "
                                      f"for feature {tag}={v}: {variants[b]} → {get(b)} but {variants[a]} → {get(a)} "
                                      f"(font: features → lookups {vw['features']}, default-on {vw['on']}, lookup types {vw['types']})",
                                      {"stage": "search", "stream": "feature-metamorphic", "class": cls + ":synthetic:shared-lookup-font",
                                       "generator": "shared-lookups", "lines": [g[0], g[idx[a]], g[idx[b]]],
                                       "features_a": variants[a], "features_b": variants[b], "text": [list(x) for x in text],
                                       "font_features": vw["features"], "default_on": vw["on"], "lookup_types": vw["types"],
                                       "shared_lookups": vw["shared"], "result_a": get(a), "result_b": get(b)})
                    break
    ctx.note_search("feature-metamorphic-shared", total * 9, nontriv, relation_cases=total, deviations=bad, fonts=nfonts,
                    rule="the metamorphic relations (global vs full range vs over-long range; none vs empty range vs range beyond the "
                         "text vs absent tags; ranged alone vs behind 4-23 absent tags) on generated fonts whose lookups are referenced "
                         "by 2-3 features — every second font with lookups of all GSUB types (multiple, ligature, context, chaining "
                         "context, reverse chaining; typed_recipe), the others with single / alternate lookups —, with a base list of "
                         "0-3 further user features (values 0-3, any range) and a feature under test that shares a lookup with a base / "
                         "default-on feature in 3 of 4 cases; non-trivial = the global feature changes the result")


def run(ctx):
    ctx.assumptions += [
        "the theorems are about the Lean models of Feature::new / from_str / is_global (common.rs, text_parser.rs), of the "
        "feature→mask compiler (ot_map.rs), of set_masks / reset_masks (buffer.rs), of the user-feature loop of setup_masks and the "
        "default shaper's collect_features (ot_shape.rs) and of the alternate index (alternate_set.rs); they are tied to the crate by "
        "the correspondence streams below",
        "a font is data for the model: the answers of find_language_feature / features.index / required feature / lookup indices "
        "are read from the real font through the hook verif::map::font_facts and pasted into the request (ttf-parser is not verified)",
        "C14_parse is on the token level: numbers are digit strings that parse::<i32> accepts (hypothesis), no spaces or quotes; "
        "spaces, quotes, CSS forms and malformed strings are covered by the feature-parse correspondence only",
        "shapers with their own feature hooks (Arabic, Indic, USE, …) add features through the same builder; their op lists are not "
        "modelled (map-compile drives the builder with arbitrary op lists instead)",
        "C14_reverse_lookup_respects_mask / _acts_inside_range are about the lookup-interpreter model Gsub.lean (apply_string → "
        "apply_backward, ReverseChainSingleSubst); FeatureGsub.lean composes the feature map model with that interpreter (default "
        "shaper, LTR, private-use text, every GSUB lookup type) and is tied to the public shape() by the feature-shape-gsub "
        "correspondence; that the forward driver honours the masks for lookup types 2 and 4-6 is checked by that correspondence and "
        "by the feature-shape-typed search against Spec/OpenTypeSubst.lean, not proved",
    ]
    ctx.regen()
    ctx.prove(MODULE)
    shim = vlib.build_harness()

    r = ctx.rng("new")
    cases = new_cases(r, ctx.budget(10000, 300000))
    ctx.correspond("feature-new", lines=[new_line(c) for c in cases], classify=classify_new)
    new_search(ctx, shim, cases)

    r = ctx.rng("parse")
    pcases = parse_cases(r, ctx.budget(100000, 1500000))
    ctx.correspond("feature-parse", lines=[parse_line(s) for s, _ in pcases], classify=classify_parse)
    parse_search(ctx, shim, pcases)

    r = ctx.rng("setmasks")
    sm = setmasks_lines(r, ctx.budget(100000, 1500000))
    ctx.correspond("set-masks", lines=sm, classify=classify_setmasks)
    setmasks_search(ctx, shim, sm)

    r = ctx.rng("map")
    units = font_units(ctx, shim, r, ctx.budget(100, 230), ctx.budget(120, 600))
    ctx.correspond("map-compile", groups=compile_groups(r, units, ctx.budget(60, 300)), classify=classify_compile)
    ctx.correspond("plan-info", groups=plan_groups(r, units, ctx.budget(40, 250)), classify=classify_compile)
    ctx.correspond("feature-shape", groups=shape_groups(r, units, ctx.budget(150, 800)), classify=classify_shape)

    e2e_search(ctx, shim, ctx.rng("e2e"))
    shared_search(ctx, shim, ctx.rng("shared"))
    tc = typed_cases(ctx, shim, ctx.rng("typed"), ctx.budget(30, 200), ctx.budget(60, 300))
    typed_search(ctx, shim, vlib.build_model(), tc)
    ctx.correspond("feature-shape-gsub", groups=typed_groups(tc), classify=classify_typed)
    metamorphic_search(ctx, shim, ctx.rng("meta"), ctx.budget(600, 2128))
    metamorphic_synth(ctx, shim, ctx.rng("meta-shared"), ctx.budget(30, 200), ctx.budget(40, 150))


def replay(ctx, rp):
    shim = vlib.build_harness()
    lines = rp.get("lines") or [rp["request"]]
    o = vlib.run_groups(shim, [lines], nproc=1)[0][-1]
    print("request :", lines[-1][:400])
    print("observed:", o)
    if "expected" in rp:
        print("expected:", rp["expected"])
    if rp.get("stream") == "feature-new":
        return 1 if o == rp.get("observed") else 0      # still the recorded (wrong) answer?
    if rp.get("stream") == "feature-metamorphic":
        outs = vlib.run_groups(shim, [lines], nproc=1)[0]
        print("a       :", outs[-2]); print("b       :", outs[-1])
        return 1 if outs[-2] != outs[-1] else 0         # the two sides of the relation still differ?
    if rp.get("class") == "shared-alternate-lookup":
        print("intended:", rp.get("intended"))
        return 1 if o != rp.get("intended") else 0
    if rp.get("stream") == "feature-shape-typed":
        if "spec_request" in rp:
            print("spec    :", vlib.run_lines(vlib.build_model(), [rp["spec_request"]], nproc=1)[0])
        if rp.get("clusters_compared") is False:        # a deleting lookup: glyph ids only
            gids = lambda x: [t.split(":")[0] for t in x.split()[2:]]
            return 0 if gids(o) == gids(rp["expected"]) else 1
    return 0 if (matches_q(o, rp.get("expected")) or matches_q(o, rp.get("expected_alt"))) else 1
