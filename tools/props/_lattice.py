"""The FONT SUPPORT LATTICE, shared by C08.py, C09.py and C16.py.

What the normalizer (ot_shape_normalize.rs: decompose, decompose_current_character) does with a character depends on
WHICH of a handful of related characters the font maps: the character itself, the two halves of its canonical
decomposition, the pieces of the halves (multi-level decompositions), and the characters its fallbacks borrow a glyph
from (U+0020 for an unmapped space, U+2010 for an unmapped U+2011), and on the MODE the shaper asks for (short-circuiting
or not) and on whether the character stands alone or is the base of a cluster with marks.  A random font hits an
interesting combination (say: "maps the inner pieces but not the outer second half", or "lacks U+2000, maps U+2002 and
U+0020") with negligible probability, so this generator walks the whole lattice:

  * characters: every character with a canonical decomposition (CPython's data, intersected with the crate's table),
    sample Hangul syllables, and — as characters WITHOUT one — every visible character of General Punctuation, every
    space separator and one letter per script (the family the fallbacks live in);
  * fonts: cmap-only, one per SUBSET of the relevant set R(c) = closure of c under decomposition + U+0020 when a space
    separator is involved + U+2010 / U+2011 for the hyphens and the no-decomposition family + U+25CC when c is a mark
    (all subsets up to 2^6, a structured sample beyond); the context characters are always mapped; every glyph has its own
    advance;
  * shapers: one script per normalizing shaper as the compiled crate dispatches it (`shaper` request: default, arabic,
    hebrew, thai, hangul, indic, khmer, myanmar, use) plus the script of c's own block; the script is given explicitly,
    so every character meets every shaper (a cmap-only font has no GSUB script, the syllabic shapers are selected
    by the script alone);
  * contexts: c alone, c + mark (c becomes the base of a multi-character cluster), base + c, base + c + mark, and the
    same after a character the font does not map (the first round's fast path over leading mapped characters has
    ended there); for C16 also top-to-bottom.

Oracles (all on shape(), none consults the model):
  conservation  (C08; premise: the font maps every character of the text)  the characters recovered from the glyphs of
                each cluster are canonically equivalent to the input characters of the cluster (C08.check_case);
  decomposition (C09; some character is not mapped but its full canonical decomposition is)  the same equivalence, no
                .notdef, and — c alone, default shaper, no intermediate mapped — exactly the glyphs of NFD(c);
  own-glyph     (C16)  a character that is neither a mark nor default-ignorable, that the font maps and whose
                decomposition the mode does not prefer (the mode short-circuits, or the font supports no candidate)
                comes out as exactly one glyph, the one its cmap assigns, with that glyph's hmtx advance and zero offsets.
"""
import struct, unicodedata
import vlib

# ---------------------------------------------------------------------------------------------------------------
# reference data (CPython unicodedata) and the crate's own tables


def _ref_decomp():
    dec = {}
    for c in range(0x110000):
        if 0xD800 <= c <= 0xDFFF or 0xAC00 <= c < 0xAC00 + 11172:
            continue
        dm = unicodedata.decomposition(chr(c))
        if not dm or dm.startswith("<"):
            continue
        p = [int(x, 16) for x in dm.split()]
        dec[c] = (p[0], p[1] if len(p) == 2 else 0)
    return dec


_RD = None


def RD():
    global _RD
    if _RD is None:
        _RD = _ref_decomp()
    return _RD


S_BASE, L_BASE, V_BASE, T_BASE, T_COUNT, N_COUNT = 0xAC00, 0x1100, 0x1161, 0x11A7, 28, 588


def dec1(c):
    """one canonical decomposition step (pairwise, Hangul by arithmetic): (a, b) with b = 0 for a singleton, or None"""
    if S_BASE <= c < S_BASE + 11172:
        si = c - S_BASE
        if si % T_COUNT:
            return (S_BASE + si // T_COUNT * T_COUNT, T_BASE + si % T_COUNT)
        return (L_BASE + si // N_COUNT, V_BASE + (si % N_COUNT) // T_COUNT)
    return RD().get(c)


def closure(c):
    out, todo = [], [c]
    while todo:
        x = todo.pop(0)
        if x in out or x == 0:
            continue
        out.append(x)
        d = dec1(x)
        if d:
            todo += [d[0], d[1]]
    return out


def chain(c):
    """c and the chain of first components below it"""
    out = [c]
    while dec1(out[-1]):
        out.append(dec1(out[-1])[0])
    return out


def nfd(cps):
    return [ord(x) for x in unicodedata.normalize("NFD", "".join(chr(c) for c in cps))]


def has_candidate(c, S):
    """the font S supports a decomposition candidate of c (Lemmas/Norm.lean `Cand`): following first components reaches
    a mapped character, every second component on the way being mapped"""
    d = dec1(c)
    while d:
        a, b = d
        if b and b not in S:
            return False
        if a in S:
            return True
        d = dec1(a)
    return False


def renderable(c, S):
    return c in S or all(x in S for x in nfd([c]))


def gc(c):
    return unicodedata.category(chr(c))


def is_mark(c):
    return gc(c)[0] == "M"


# ---------------------------------------------------------------------------------------------------------------
# scripts: (ISO 15924 tag, base letter, two marks of the script or generic ones, block ranges)

SCRIPTS = [
    ("Latn", 0x62, (0x0301, 0x0323), [(0x41, 0x24F), (0x1E00, 0x1EFF), (0x2000, 0x214F), (0x300, 0x36F)]),
    ("Grek", 0x3B2, (0x0301, 0x0323), [(0x370, 0x3FF), (0x1F00, 0x1FFF)]),
    ("Cyrl", 0x431, (0x0301, 0x0323), [(0x400, 0x52F)]),
    ("Arab", 0x628, (0x064E, 0x0650), [(0x600, 0x6FF), (0x750, 0x77F), (0x8A0, 0x8FF), (0xFB50, 0xFDFF), (0xFE70, 0xFEFF)]),
    ("Hebr", 0x5D1, (0x05B4, 0x05B7), [(0x590, 0x5FF), (0xFB1D, 0xFB4F)]),
    ("Thai", 0xE01, (0x0E48, 0x0E49), [(0xE00, 0xE7F)]),
    ("Hang", 0x3131, (0x302E, 0x302F), [(0x1100, 0x11FF), (0xAC00, 0xD7FF), (0x3130, 0x318F)]),
    ("Deva", 0x915, (0x0951, 0x0952), [(0x900, 0x97F)]),
    ("Beng", 0x995, (0x09BC, 0x09CD), [(0x980, 0x9FF)]),
    ("Guru", 0xA15, (0x0A3C, 0x0A4D), [(0xA00, 0xA7F)]),
    ("Orya", 0xB15, (0x0B3C, 0x0B4D), [(0xB00, 0xB7F)]),
    ("Taml", 0xB95, (0x0BCD, 0x0301), [(0xB80, 0xBFF)]),
    ("Telu", 0xC15, (0x0C4D, 0x0C55), [(0xC00, 0xC7F)]),
    ("Knda", 0xC95, (0x0CBC, 0x0CCD), [(0xC80, 0xCFF)]),
    ("Mlym", 0xD15, (0x0D4D, 0x0D3B), [(0xD00, 0xD7F)]),
    ("Sinh", 0xD9A, (0x0DCA, 0x0301), [(0xD80, 0xDFF)]),
    ("Khmr", 0x1780, (0x17DD, 0x17D2), [(0x1780, 0x17FF)]),
    ("Mymr", 0x1000, (0x1037, 0x103A), [(0x1000, 0x109F)]),
    ("Tibt", 0xF40, (0x0F39, 0x0F37), [(0xF00, 0xFFF)]),
    ("Bali", 0x1B13, (0x1B34, 0x1B44), [(0x1B00, 0x1B7F)]),
    ("Kthi", 0x1108D, (0x110BA, 0x110B9), [(0x11080, 0x110CF)]),
    ("Cakm", 0x11107, (0x11133, 0x11134), [(0x11100, 0x1114F)]),
    ("Gran", 0x11315, (0x1133C, 0x1134D), [(0x11300, 0x1137F)]),
    ("Tirh", 0x1148F, (0x114C3, 0x114C2), [(0x11480, 0x114DF)]),
    ("Sidd", 0x1158E, (0x115C0, 0x115BF), [(0x11580, 0x115FF)]),
]
SCRIPT = {t[0]: t for t in SCRIPTS}
# one script per shaper (the crate is asked which shaper each one gets); Latn must stay first
REPRESENTATIVES = ["Latn", "Arab", "Hebr", "Thai", "Hang", "Deva", "Khmr", "Mymr", "Tibt"]
RTL = {"Arab", "Hebr"}
# the normalization preference each shaper DOCUMENTS (ot_shaper_*.rs, hb-ot-shaper-*.cc): 0 none, 2 composed diacritics
# (AUTO resolves to it), 3 composed diacritics without short circuit.  This is the specification side of the own-glyph
# oracle: a shaper that silently starts to decompose supported characters (or stops to) is reported.
MODE = {"default": 2, "arabic": 2, "hebrew": 2, "thai": 2, "hangul": 0, "indic": 3, "khmer": 3, "myanmar": 3, "use": 3}


def own_script(c):
    for tag, _, _, ranges in SCRIPTS[3:]:
        if any(lo <= c <= hi for lo, hi in ranges):
            return tag
    return None


def tagnum(tag):
    return int.from_bytes(tag.encode(), "big")


class Env:
    """what is asked from the compiled crate once per run: script -> shaper, and for the shapers with a decompose
    callback of their own the characters on which it does not answer like unicode::decompose (they are outside the
    decomposition oracle under that shaper: Indic declines some, Khmer splits vowels)"""

    def __init__(self, shim):
        tags = [t[0] for t in SCRIPTS]
        outs = vlib.run_lines(shim, [f"shaper {tagnum(t)} {1 if t in RTL else 0} -" for t in tags], nproc=1)
        self.shaper = dict(zip(tags, outs))
        names = sorted(set(outs))
        has = vlib.run_lines(shim, [f"normcb has {s}" for s in names], nproc=1)
        own = [s for s, o in zip(names, has) if o.split()[:1] == ["1"]]
        font = build_font([0x41])[0].hex()
        reqs = [f"normcb decompose {s} 0 {font} 0-1114111" for s in ["default"] + own]
        outs = vlib.run_lines(shim, reqs, nproc=max(1, len(reqs)))

        def table(o):
            return {} if o == "-" else {int(t.split(":")[0]): t for t in o.split()}
        base = table(outs[0])
        self.deviates = {}
        for s, o in zip(own, outs[1:]):
            t = table(o)
            self.deviates[s] = {c for c in set(base) | set(t) if base.get(c) != t.get(c)}
        # the crate's own decomposition table: the lattice is walked over characters both sides know
        self.crate_dec = set(base)
        # modified combining classes of the marks that occur as second components (`norm props`): the equivalent-twin
        # oracle leaves out characters whose decomposition is not in the order of the MODIFIED classes (the property
        # excludes remapped classes: Hebrew dagesh / shin dot, ...)
        seconds = sorted({x for a, b in RD().values() for x in (a, b) if x and is_mark(x)})
        outs = vlib.run_lines(shim, [f"norm props {b}" for b in seconds], nproc=1)
        self.mcc = {b: int(o.split()[2]) for b, o in zip(seconds, outs)}

    def in_modified_order(self, c):
        """the marks of NFD(c) are in non-decreasing order of their modified combining classes (class 0 separates)"""
        last = 0
        for x in nfd([c]):
            v = self.mcc.get(x, 0)
            if v and v < last:
                return False
            last = v
        return True

    def mode(self, tag):
        return MODE.get(self.shaper.get(tag, "?"))


# ---------------------------------------------------------------------------------------------------------------
# fonts

_HEAD = struct.pack(">IIIIHHqqhhhhHHhhh", 0x00010000, 0x00010000, 0, 0x5F0F3CF5, 0, 1000, 0, 0, 0, 0, 1000, 1000, 0, 8, 2, 0, 0)


def _sfnt(tables):
    tags = sorted(tables)
    n = len(tags)
    es = 0
    while (1 << (es + 1)) <= n:
        es += 1
    sr = (1 << es) * 16
    out = struct.pack(">IHHHH", 0x00010000, n, sr, es, n * 16 - sr)
    off = 12 + 16 * n
    body = b""
    for t in tags:
        d = tables[t]
        pad = (-len(d)) % 4
        out += struct.pack(">4sIII", t.encode(), 0, off, len(d))
        body += d + b"\0" * pad
        off += len(d) + pad
    return out + body


def advance_of(g):
    return 250 if g == 0 else 300 + 37 * g


def build_font(cps):
    """cmap-only font (head, hhea, maxp, hmtx, cmap format 12): glyph i + 1 for the i-th character in code point order,
    every glyph with an advance of its own.  Returns (bytes, cmap dict)."""
    cps = sorted(set(cps))
    cmap = {c: i + 1 for i, c in enumerate(cps)}
    ng = len(cps) + 1
    hhea = struct.pack(">IhhhHhhhhhhhhhhhH", 0x00010000, 800, -200, 0, 2000, 0, 0, 2000, 1, 0, 0, 0, 0, 0, 0, 0, ng)
    maxp = struct.pack(">IH", 0x00005000, ng)
    hmtx = b"".join(struct.pack(">Hh", advance_of(g), 0) for g in range(ng))
    sub = struct.pack(">HHIII", 12, 0, 16 + 12 * len(cps), 0, len(cps))
    for c in cps:
        sub += struct.pack(">III", c, c, cmap[c])
    cm = struct.pack(">HHHHI", 0, 1, 3, 10, 12) + sub
    return _sfnt({"head": _HEAD, "hhea": hhea, "maxp": maxp, "hmtx": hmtx, "cmap": cm}), cmap


# ---------------------------------------------------------------------------------------------------------------
# the walk

DC = 0x25CC
HYPHENS = (0x2010, 0x2011)
UNMAPPED = 0xE000          # a private-use character no font of the lattice maps


def relevant(c):
    """R(c): the characters whose presence in the font the normalizer's decision about c can depend on"""
    r = closure(c)
    if any(gc(x) == "Zs" for x in r):
        r.append(0x20)
    if not dec1(c) or c in HYPHENS:
        for x in (0x20,) + HYPHENS:
            if x not in r:
                r.append(x)
    if is_mark(c):
        r.append(DC)
    return r


def subsets(rel, r, cap=64):
    """all subsets of `rel` when there are at most `cap`; beyond that a structured sample: everything, nothing, every
    set with one or two characters missing, every chain prefix missing, and random ones up to `cap`"""
    n = len(rel)
    if 2 ** n <= cap:
        return [[x for i, x in enumerate(rel) if m >> i & 1] for m in range(2 ** n)]
    seen, out = set(), []

    def add(s):
        k = tuple(sorted(s))
        if k not in seen:
            seen.add(k); out.append(list(s))
    add(rel); add([])
    for i in range(n):
        add([x for j, x in enumerate(rel) if j != i])
        for j in range(i):
            add([x for k, x in enumerate(rel) if k not in (i, j)])
    for i in range(1, n):
        add(rel[i:])
    while len(out) < cap:
        add([x for x in rel if r.chance(1, 2)])
    return out[:cap]


def depth(c):
    return len(chain(c)) - 1


def no_decomp_family():
    """characters WITHOUT a canonical decomposition the fallbacks of decompose_current_character are about, or near:
    every visible non-mark character of General Punctuation, every space separator, one letter per script"""
    out = []
    for c in list(range(0x2000, 0x2070)) + [0x20, 0xA0, 0x1680, 0x3000, 0x2D, 0xAD] + [t[1] for t in SCRIPTS]:
        if c in out or dec1(c):
            continue
        g = gc(c)
        if g in ("Cn", "Cf", "Zl", "Zp") or g[0] == "M" or c == 0xAD:
            continue
        out.append(c)
    return out


def domain(env, r, quick, want):
    """[(c, class)] — class 'key' is walked exhaustively in the quick tier too, 'bulk' is sampled there.
    want: which families the caller judges ('decomposable', 'plain')"""
    out = []
    if "decomposable" in want:
        chars = sorted(c for c in RD() if c in env.crate_dec and gc(c) != "Cn")
        key, bulk = [], []
        for c in chars:
            cjk = 0xF900 <= c <= 0xFAFF or 0x2F800 <= c <= 0x2FA1F
            singleton = dec1(c)[1] == 0
            if (own_script(c) and not cjk) or (singleton and not cjk) or gc(c) == "Zs" or (depth(c) >= 2 and is_mark(c)):
                key.append(c)
            else:
                bulk.append(c)
        # a few multi-level Latin / Greek letters belong to the key set (three levels: U+1FA7, two: U+01D8, U+1EA4)
        deep = [c for c in bulk if depth(c) >= 2]
        keep = deep[::max(1, len(deep) // 6)][:6]
        key += keep
        bulk = [c for c in bulk if c not in keep]
        hangul = [0xAC00, 0xAC01, 0xD7A3, 0xB098]
        out += [(c, "key") for c in key + hangul]
        out += [(c, "bulk") for c in bulk]
    if "plain" in want:
        out += [(c, "key") for c in no_decomp_family()]
    return out


def contexts(c, tag):
    """(name, text builder) — the context characters never belong to closure(c)"""
    _, base, marks, _ = SCRIPT[tag]
    clo = closure(c)
    m = next((x for x in marks + (0x0301, 0x0323, 0x0316) if x not in clo), 0x0316)
    b = base if base not in clo else 0x63
    return m, b, [("alone", [c]), ("c+mark", [c, m]), ("base+c", [b, c]), ("base+c+mark", [b, c, m]),
                  # after a character the font does NOT map: the first round's fast path (leading mapped characters are
                  # copied at once) has ended, c goes through decompose_current_character like the unmapped one
                  ("unmapped+c", [UNMAPPED, c]), ("unmapped+c+mark", [UNMAPPED, c, m])]


def parse_reply(o):
    """ok n gid:cluster:flags:xa:ya:xo:yo ... -> [(gid, cluster, xa, ya, xo, yo)] or None"""
    t = o.split()
    if not t or t[0] != "ok":
        return None
    out = []
    for x in t[2:]:
        v = [int(y) for y in x.split(":")]
        out.append((v[0], v[1], v[3], v[4], v[5], v[6]))
    return out


def walk(env, r, quick, want, keep, bulk_quick=300, scripts_bulk=2, dirs=("-",), twin=None):
    """Builds the groups ([font line, shape lines ...]) and their meta data.
    keep(c, S, text) -> bool: which (font, text) combinations the caller's oracles can judge at all."""
    groups, meta = [], []
    dom = domain(env, r, quick, want)
    if quick:
        bulk = [d for d in dom if d[1] == "bulk"]
        dom = [d for d in dom if d[1] == "key"] + r.sample(bulk, min(bulk_quick, len(bulk)))
    reps = [t for t in REPRESENTATIVES if env.mode(t) is not None]
    nf = 0
    for c, cls in dom:
        rel = relevant(c)
        subs = subsets(rel, r)
        tags = list(reps)
        own = own_script(c)
        if own and own not in tags:
            tags.append(own)
        hangul_char = 0x1100 <= c <= 0x11FF or 0xAC00 <= c <= 0xD7FF
        if hangul_char:
            tags = [t for t in tags if env.shaper.get(t) != "hangul"]     # C12's domain: the Hangul shaper recomposes jamo
        if cls == "bulk" and quick:
            tags = [tags[0]] + r.sample(tags[1:], scripts_bulk)
        per_tag = [(tag,) + contexts(c, tag) for tag in tags]
        ctx_chars = sorted({x for _, m, b, _ in per_tag for x in (m, b)})
        for S in subs:
            fchars = set(S) | set(ctx_chars)
            lines, ms = [], []
            for tag, m, b, ctxs in per_tag:
                if cls == "bulk" and quick:
                    ctxs = r.sample(ctxs, 2)
                for name, text in ctxs:
                    if not keep(c, fchars, text, tag):
                        continue
                    tt = ",".join(f"{x:x}:{i}" for i, x in enumerate(text))
                    for d in dirs:
                        # "-": the script's own horizontal direction; "t": top to bottom (context name gets "@t")
                        if d != "-" and (cls == "bulk" or name.startswith("base")):
                            continue
                        lines.append(f"shape F {d} {tag} - 0 0 - - - {tt}")
                        ms.append((tag, name if d == "-" else f"{name}@{d}", text))
                        tw = twin(env, c, fchars, text, tag) if twin and d == "-" else None
                        if tw:
                            # the canonically equivalent twin, judged against the line before it
                            lines.append(f"shape F {d} {tag} - 0 0 - - - " + ",".join(f"{x:x}:{k}" for x, k in zip(*tw)))
                            ms.append((tag, "twin", tw[0]))
            if not lines:
                continue
            data, cmap = build_font(fchars)
            nf += 1
            groups.append([f"font F {data.hex()}"] + lines)
            meta.append((c, cls, sorted(S), cmap, ms))
    return groups, meta, {"characters": len(dom), "fonts": nf}


# ---------------------------------------------------------------------------------------------------------------
# oracles


def conserved(text, out, cmap, rtl):
    """C08.check_case on (glyph, cluster) pairs; None or the deviation"""
    import C08
    inv = {g: cp for cp, g in cmap.items()}
    if DC not in cmap:
        inv[0] = DC            # a dotted circle inserted as a character shows as .notdef on a font without it
    return C08.check_case(text, [(g, cl) for g, cl, *_ in out], inv, 0, DC in cmap, False, rtl, False)


def in_multi(text, i):
    """text[i] belongs to a multi-character cluster of the first normalization round: it is directly followed by a mark,
    or it is a mark that is not the first character of the text (a leading mark alone is a simple cluster)"""
    return (i + 1 < len(text) and is_mark(text[i + 1])) or (i > 0 and is_mark(text[i]))


def prefers_decomposition(mode, text, i, S):
    """the specification of `decompose_current_character`'s choice for a MAPPED character: the decomposition is preferred
    iff the mode does not short-circuit here and the font supports a candidate.  Modes 0 / 2 short-circuit on simple
    clusters; only mode 0 does on the base of a multi-character cluster; mode 3 never does."""
    multi = in_multi(text, i)
    short = mode == 0 or (mode == 2 and not multi)
    return (not short) and has_candidate(text[i], S)


ASCENDER, DESCENDER = 800, -200      # hhea of build_font


def own_glyph_deviation(mode, text, out, cmap, adv=None, vertical=False):
    """every character of the text that is neither a mark nor default-ignorable, that the font maps and whose
    decomposition is not preferred: exactly one output glyph per occurrence is its cmap glyph, with the glyph's advance
    and zero offsets (horizontal text)"""
    S = set(cmap)
    adv = adv or advance_of
    for i, x in enumerate(text):
        if is_mark(x) or gc(x) == "Cf" or x not in S or prefers_decomposition(mode, text, i, S):
            continue
        g = cmap[x]
        hits = [o for o in out if o[0] == g]
        # the same glyph may also be due for other reasons: another occurrence of x, or a piece of a neighbour
        others = sum(1 for j, y in enumerate(text) if j != i and (y == x or x in nfd([y])))
        if len(hits) < 1 or len(hits) > 1 + others:
            return {"kind": "mapped character not rendered with its own glyph", "char": f"U+{x:04X}", "index": i,
                    "cmap_glyph": g, "occurrences_in_output": len(hits)}
        # horizontal: hmtx advance, no offsets; vertical (no vmtx / VORG / outlines): y_advance -(ascender - descender),
        # the origin moved from the top centre to the horizontal origin
        want = (0, -(ASCENDER - DESCENDER), -(adv(g) // 2), -ASCENDER) if vertical else (adv(g), 0, 0, 0)
        for h in hits:
            if (h[2], h[3], h[4], h[5]) != want:
                return {"kind": "own glyph with foreign metrics", "char": f"U+{x:04X}", "index": i, "cmap_glyph": g,
                        "expected": list(want), "observed": list(h[2:])}
    return None


def fmt(cps):
    return " ".join(f"{c:04X}" for c in cps)


def describe(d):
    """one line for the VIOLATION message"""
    k = d.get("kind", "?")
    if "missing" in d:
        return f"{k}: {d['missing']} missing, cluster {d.get('cluster')} has {d.get('cluster_output')} for {d.get('cluster_input')}"
    if "extra" in d:
        return f"{k}: extra {d['extra']}, cluster {d.get('cluster')} has {d.get('cluster_output')} for {d.get('cluster_input')}"
    if "expected_glyphs" in d:
        return f"{k}: glyphs {d.get('observed_glyphs')}, expected {d['expected_glyphs']}"
    if "cmap_glyph" in d:
        return (f"{k}: {d.get('char')} has cmap glyph {d['cmap_glyph']}"
                + (f", output has it {d['occurrences_in_output']} times" if "occurrences_in_output" in d else
                   f", expected advance/offsets {d.get('expected')}, got {d.get('observed')}"))
    return k


def decomposed_twin(env, c, S, text, tag):
    """C09, "canonically equivalent strings produce the same glyphs" where the normalizer MUST decompose c all the way:
    the text with c replaced by NFD(c) (the pieces carry c's cluster value), or None when the two may legitimately
    differ.  The font maps NFD(c), and
      * c sits in a multi-character cluster and the mode is not NONE (no short circuit there: the deepest candidate, which
        is the full decomposition, is taken whether or not the font maps c or an intermediate), or
      * c is a simple cluster / the mode is NONE, the font maps neither c nor any intermediate of the chain (the
        shallowest candidate is the full decomposition too; a mapped c would short-circuit, or — in the modes that never
        do — be decomposed without a recomposition round following, since a text of simple clusters skips rounds 2 and 3).
    After the first round both buffers hold the same records, so everything downstream must agree."""
    if not dec1(c) or text.count(c) != 1:
        return None
    full = nfd([c])
    if not all(x in S for x in full):
        return None
    sh = env.shaper[tag]
    if c in env.deviates.get(sh, ()):
        return None
    mode = env.mode(tag)
    i = text.index(c)
    if not env.in_modified_order(c):
        return None               # remapped classes: a text of simple clusters skips the reorder round, the twin does not
    if not (in_multi(text, i) and mode != 0):
        if any(x in S for x in chain(c)[:-1]):
            return None
    if any(x not in S for x in text if x != c):
        return None
    cl = []
    tw = []
    for j, x in enumerate(text):
        if x == c:
            tw += full; cl += [j] * len(full)
        else:
            tw.append(x); cl.append(j)
    return tw, cl


# ---------------------------------------------------------------------------------------------------------------
# running the walk and reporting (the three checks differ in `want`, `keep` and `judge` only)

STREAM = "support-lattice"


def judge_conservation(env, tag, name, text, out, cmap):
    """C08 / C09: every character of the text is mapped or has its full canonical decomposition mapped -> the characters
    recovered per cluster are canonically equivalent to the input; None when the premise does not hold"""
    S = set(cmap)
    if not all(renderable(x, S) for x in text):
        return None
    dev = env.deviates.get(env.shaper[tag], ())
    if any(x in dev and x not in S for x in text):
        return None               # the shaper's own decompose callback answers differently for this character
    all_mapped = all(x in S for x in text)
    d = conserved(text, out, cmap, tag in RTL)
    if d:
        return ("conservation" if all_mapped else "decomposition-used", d)
    if not all_mapped and name == "alone" and env.shaper[tag] == "default":   # (horizontal, the script's own direction)
        c = text[0]
        if not any(x in S for x in chain(c)[:-1]):
            # nothing between c and its full decomposition is mapped: exactly the glyphs of NFD(c)
            want = [cmap[x] for x in nfd([c])]
            got = [o[0] for o in out]
            if tag in RTL:
                got = got[::-1]       # right-to-left results are in visual order
            if got != want:
                return ("decomposition-used", {"kind": "not the glyphs of the full canonical decomposition",
                                               "expected_glyphs": want, "observed_glyphs": got})
    return None


def search(ctx, shim, env, r, want, keep, judges, rule, bulk_quick=300, dirs=("-",), twin=None):
    """judges: [fn(env, tag, name, text, out, cmap) -> None | (oracle, deviation)]"""
    groups, meta, st = walk(env, r, ctx.quick, want, keep, bulk_quick=bulk_quick, dirs=dirs, twin=twin)
    outs = vlib.run_groups(shim, groups, timeout=1200)
    n = nbad = ntwin = 0
    per, dist, reported = {}, {}, {}
    for (c, cls, S, cmap, ms), o, g in zip(meta, outs, groups):
        if not o or o[0] != "ok":
            ctx.violation(f"generated cmap-only font rejected: {o[0] if o else 'no reply'}",
                          {"stage": "search", "stream": STREAM, "font_line": g[0][:400]})
            continue
        prev = None
        for (tag, name, text), reply, req in zip(ms, o[1:], g[1:]):
            n += 1
            sh = env.shaper[tag]
            if name == "twin":
                ntwin += 1
                ptext, preply, preq = prev
                if parse_reply(reply) is None or parse_reply(reply) != parse_reply(preply):
                    nbad += 1
                    key = ("equivalent-twin", sh)
                    per[f"equivalent-twin/{sh}"] = per.get(f"equivalent-twin/{sh}", 0) + 1
                    reported[key] = reported.get(key, 0) + 1
                    if reported[key] == 1 and sum(1 for v in reported.values() if v) <= 6:
                        ctx.violation(f"{STREAM}: equivalent-twin: <{fmt(ptext)}> and the canonically equivalent <{fmt(text)}> shape "
                                      f"differently under the {sh} shaper (script {tag}) on a cmap-only font that maps exactly "
                                      f"{{{fmt(sorted(cmap))}}}: {preply[:120]} vs {reply[:120]}",
                                      {"stage": "search", "stream": STREAM, "oracle": "equivalent-twin", "font_line": g[0],
                                       "request": preq, "request2": req, "text": [f"{x:04X}" for x in ptext],
                                       "text2": [f"{x:04X}" for x in text], "font_maps": [f"{x:04X}" for x in sorted(cmap)],
                                       "script": tag, "shaper": sh, "character": f"{c:04X}", "observed": preply,
                                       "observed2": reply})
                continue
            prev = (text, reply, req)
            for k in (f"shaper:{sh}", f"context:{name}", f"class:{cls}",
                      "font:" + ("maps-c" if c in cmap else "lacks-c") + ("+decomposition" if renderable(c, set(cmap) - {c}) else "")):
                dist[k] = dist.get(k, 0) + 1
            out = parse_reply(reply)
            res = None
            if out is None:
                res = ("no-output", {"kind": "shape() did not return normally", "reply": reply[:200]})
            else:
                for j in judges:
                    res = j(env, tag, name, text, out, cmap)
                    if res:
                        break
            if not res:
                continue
            nbad += 1
            oracle, d = res
            key = (oracle, sh)
            per[f"{oracle}/{sh}"] = per.get(f"{oracle}/{sh}", 0) + 1
            reported[key] = reported.get(key, 0) + 1
            # one report per (oracle, shaper), the first two shapers get a second one; six in all
            if reported[key] > 1 or sum(1 for v in reported.values() if v) > 6:
                continue
            ctx.violation(f"{STREAM}: {oracle}: <{fmt(text)}> under the {sh} shaper (script {tag}, context {name}) on a cmap-only "
                          f"font that maps exactly {{{fmt(sorted(cmap))}}}: {describe(d)}",
                          {"stage": "search", "stream": STREAM, "oracle": oracle, "font_line": g[0], "request": req,
                           "text": [f"{x:04X}" for x in text], "font_maps": [f"{x:04X}" for x in sorted(cmap)],
                           "script": tag, "shaper": sh, "context": name, "character": f"{c:04X}", "deviation": d,
                           "observed": reply})
    ctx.note_search(STREAM, n, n, deviations=nbad, equivalent_twins=ntwin, deviations_by_oracle_and_shaper=per, distribution=dist,
                    shaper_of_script={t: env.shaper[t] for t in REPRESENTATIVES}, **st, rule=rule)
    return nbad


def replay(shim, rp, judges):
    """re-runs one recorded lattice case and judges it again"""
    env = Env(shim)
    if rp.get("oracle") == "equivalent-twin":
        o = vlib.run_groups(shim, [[rp["font_line"], rp["request"], rp["request2"]]], nproc=1)[0]
        print("text :", o[1]); print("twin :", o[2])
        return 0 if parse_reply(o[1]) is not None and parse_reply(o[1]) == parse_reply(o[2]) else 1
    o = vlib.run_groups(shim, [[rp["font_line"], rp["request"]]], nproc=1)[0]
    print("reply:", o[1])
    out = parse_reply(o[1])
    if out is None:
        return 1
    cps = [int(x, 16) for x in rp["font_maps"]]
    cmap = {c: i + 1 for i, c in enumerate(sorted(cps))}
    text = [int(x, 16) for x in rp["text"]]
    for j in judges:
        res = j(env, rp["script"], rp["context"], text, out, cmap)
        if res:
            print("deviation:", res)
            return 1
    print("no deviation")
    return 0


def judge_own_glyph(env, tag, name, text, out, cmap, adv=None):
    """C16: see own_glyph_deviation"""
    d = own_glyph_deviation(env.mode(tag), text, out, cmap, adv, vertical=name.endswith("@t"))
    return ("own-glyph", d) if d else None


# ---------------------------------------------------------------------------------------------------------------
# promotion: a `norm run` / `norm runv` request on which the crate and the Lean model disagree becomes shape() inputs

PROMOTED = "promoted-norm-run"


def promote_norm_run(ctx, shim, env, dis, limit, judges, source):
    """judges here take a seventh argument: the glyph count of the request's font (C09.build_font: every glyph below it has
    the advance 600, glyphs beyond have none).
    The shortest disagreeing requests of a norm-run stream, handed to shape() with their own font: the text as it is
    and every character of it alone, under one script per shaper (the request's mode is a property of the shaper, so
    every shaper is tried), cluster level of the request.  Judged by the model-free oracles of the lattice; nothing is
    assumed about why model and crate disagreed."""
    import C09
    if not dis:
        ctx.note_search(PROMOTED, 0, 0, rule=f"no {source} disagreement to promote in this run")
        return 0
    cand = sorted(dis, key=lambda d: len(d["request"].split()[-1]))[:limit]
    groups, meta = [], []
    for d in cand:
        t = d["request"].split()
        if t[1] == "runv":
            level, nfvs, fonthex, spec, uvs, ttok = t[3], t[5], t[6], t[7], t[8], t[9]
        else:
            level, nfvs, fonthex, spec, uvs, ttok = t[3], "-", t[5], t[6], "-", t[7]
        if uvs != "-":
            continue              # glyphs of variation sequences are not in the character map the oracles read
        text = [x[0] for x in C09.parse_text_tok(ttok)]
        gs = C09.parse_groups_spec(spec)
        rel = []
        for c in text:
            for x in relevant(c) + [0x20, DC] + list(HYPHENS):
                if x not in rel:
                    rel.append(x)
        cmap = {x: C09.glyph_of(gs, x) for x in rel}
        cmap = {x: g for x, g in cmap.items() if g is not None}
        if len(set(cmap.values())) != len(cmap):
            continue              # glyph -> character must be a function
        # default ignorables (variation selectors are some) are C13's: the text is shaped as it is when it has none, and
        # every other character of it alone
        plain_ = lambda x: not (gc(x) == "Cf" or 0xFE00 <= x <= 0xFE0F or 0xE0100 <= x <= 0xE01EF or x in (0x34F, 0x180B, 0x180C, 0x180D, 0x180F))
        texts = ([text] if all(plain_(x) for x in text) else []) + [[c] for c in dict.fromkeys(text) if plain_(c) and len(text) > 1]
        if not texts:
            continue
        lines, ms = [f"font P {fonthex}"], []
        for tag in REPRESENTATIVES:
            for tx in texts:
                if tag in RTL and any(unicodedata.mirrored(chr(x)) for x in tx):
                    continue      # the mirror image's glyph is not in the character map the oracles read
                if env.shaper[tag] == "thai" and any(C09.glyph_of(gs, x) is not None for x in range(0xF700, 0xF71B)):
                    continue      # a font that maps the Thai private-use forms gets the shaper's PUA fallback shaping
                tt = ",".join(f"{c:x}:{i}" for i, c in enumerate(tx))
                lines.append(f"shape P - {tag} - 0 {level} - - - {tt}")
                ms.append((tag, tx))
        if len(lines) == 1:
            continue
        # C09.build_font sizes hmtx by the largest glyph id, capped at 300: glyphs beyond have no advance
        ng = 1
        for s_, e_, g_ in gs:
            ng = max(ng, min(65535, g_ + (e_ - s_) + 1))
        groups.append(lines); meta.append((d, cmap, ms, gs, min(ng, 300)))
    outs = vlib.run_groups(shim, groups, timeout=900)
    n = nbad = 0
    for (d, cmap0, ms, gs, ng), o, g in zip(meta, outs, groups):
        for (tag, tx), reply, req in zip(ms, o[1:], g[1:]):
            n += 1
            out = parse_reply(reply)
            res = None
            cmap = dict(cmap0)
            if out is None:
                res = ("no-output", {"kind": "shape() did not return normally", "reply": reply[:200]})
            else:
                # the request's font may map far more than the relevant characters (a composite the recomposition round
                # finds, say): a glyph of the output is read back as the ONE character mapped to it whose full
                # decomposition lies within the text's
                pieces = set(nfd(tx))
                for gid in {o_[0] for o_ in out} - set(cmap.values()):
                    cands = [s_ + (gid - g_) for s_, e_, g_ in gs if g_ <= gid <= g_ + (e_ - s_)]
                    cands = [x for x in cands if not (0xD800 <= x <= 0xDFFF) and set(nfd([x])) <= pieces and x not in cmap]
                    if len(cands) == 1:
                        cmap[cands[0]] = gid
                for j in judges:
                    res = j(env, tag, "alone" if len(tx) == 1 else "text", tx, out, cmap, ng)
                    if res:
                        break
            if res:
                nbad += 1
                if nbad <= 3:
                    ctx.violation(f"promoted {source} disagreement: {res[0]}: <{fmt(tx)}> under the {env.shaper[tag]} shaper "
                                  f"(script {tag}): {describe(res[1])}",
                                  {"stage": "search", "stream": PROMOTED, "oracle": res[0], "font_line": g[0], "request": req,
                                   "text": [f"{x:04X}" for x in tx], "glyph_of": {f"{x:04X}": v for x, v in cmap.items()},
                                   "num_glyphs": ng,
                                   "script": tag, "shaper": env.shaper[tag], "deviation": res[1], "observed": reply,
                                   "from_correspondence": d["request"][:200] + " …", "impl": d["impl"], "model": d["model"]})
    ctx.note_search(PROMOTED, n, n, deviations=nbad, disagreements=len(dis),
                    rule=f"the shortest {source} requests on which crate and model disagree, handed to shape() with their own "
                         "font: the text and each of its characters alone, under one script per shaper, judged by the "
                         "lattice oracles (conservation / decomposition-used / own-glyph)")
    return nbad


def replay_promoted(shim, rp, judges):
    env = Env(shim)
    o = vlib.run_groups(shim, [[rp["font_line"], rp["request"]]], nproc=1)[0]
    print("reply:", o[1])
    out = parse_reply(o[1])
    if out is None:
        return 1
    cmap = {int(k, 16): v for k, v in rp["glyph_of"].items()}
    text = [int(x, 16) for x in rp["text"]]
    for j in judges:
        res = j(env, rp["script"], "alone" if len(text) == 1 else "text", text, out, cmap, rp.get("num_glyphs", 300))
        if res:
            print("deviation:", res)
            return 1
    print("no deviation")
    return 0


# ---------------------------------------------------------------------------------------------------------------
# correspondence requests over the lattice (C09's `norm runv` protocol: the hook runs _hb_ot_shape_normalize with each of
# the five normalization preferences on a bare buffer; the Lean side is Norm.normalize)

_KEYD = None


def key_decomposables():
    global _KEYD
    if _KEYD is None:
        ks = [c for c in sorted(RD()) if not (0xF900 <= c <= 0xFAFF or 0x2F800 <= c <= 0x2FA1F)
              and (own_script(c) or dec1(c)[1] == 0 or gc(c) == "Zs" or depth(c) >= 2)]
        _KEYD = ks + [0xAC00, 0xAC01, 0xD7A3]
    return _KEYD


RUN_MARKS = [0x301, 0x323, 0x5B4, 0x64E, 0x951, 0xCBC, 0x17DD, 0x1037, 0xF39]


def lattice_run_lines(r, n, plain_share):
    """texts of 1-4 characters — a lattice character alone, as the base of a cluster with a mark, after another
    character — over the no-decomposition family (`plain_share` out of 3) and the key decomposable characters (all
    multi-level ones included); the font maps a random subset of the relevant characters R(c) (the text's own characters
    three times out of four, the others every second time), through explicit support sets or "everything but";
    every mode 0..4, cluster levels 0 / 1, with and without an invisible glyph"""
    import C09
    plain = no_decomp_family()
    keyd = key_decomposables()
    lines = []
    for _ in range(n):
        k = r.below(8)
        text = [r.choice(plain if r.below(3) < plain_share else keyd)]
        if k >= 2: text.append(r.choice(RUN_MARKS))                   # the character is the base of a multi-character cluster
        if k >= 4: text.insert(0, r.choice(plain))
        if k >= 6: text.append(r.choice(plain + keyd))
        rel = []
        for c in text:
            for x in relevant(c) + [0x20] + list(HYPHENS):
                if x not in rel: rel.append(x)
        chosen = [x for x in rel if x in text and r.chance(3, 4)] + [x for x in rel if x not in text and r.chance(1, 2)]
        groups = C09.groups_from_set(chosen) if r.chance(5, 6) else C09.groups_all_but([x for x in rel if x not in chosen])
        cl = list(range(len(text))) if r.chance(1, 2) else [3] * len(text)
        lines.append(C09.run_line(r.below(5), r.below(2), r.choice([None, None, 2]), groups, text, cl, [0] * len(text)))
    return lines


def judge_conservation_p(env, tag, name, text, out, cmap, ng):
    return judge_conservation(env, tag, name, text, out, cmap)


def judge_own_glyph_p(env, tag, name, text, out, cmap, ng):
    return judge_own_glyph(env, tag, name, text, out, cmap, adv=lambda g: 600 if g < ng else 0)
