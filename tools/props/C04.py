"""C04 — glyph flags: UNSAFE_TO_CONCAT is sound; flags are clean and uniform per cluster."""
import os
import vlib, bufgen
import flagslib as F
import C03 as C03mod

MODULE = "RbModel.Props.C04"
LEVEL = "proof"


# ------------------------------------------------------------------------------------------------
# hook level: propagate_flags on injected buffers, oracle = the hygiene sentences of the property

def hook_hygiene(o, pc, pt):
    """hygiene deviations of the final state of one flag walk; None when propagate_flags did not run"""
    st = F.final_state(o)
    if st is None or not st["sc"] & 0x20:      # propagate_flags does not run without HAS_GLYPH_FLAGS
        return None
    want_c = bool(pc) and st["F"] & pc == pc
    want_t = bool(pt) and st["F"] & pt == pt
    glyphs = [(g, c, m & F.DEFINED) for (g, m, c, _, _) in st["I"][:st["n"]]]
    # clusters = maximal runs (what foreach_cluster sees); number the runs so that non-monotone test buffers
    # do not conflate two runs with the same value
    runs, k = [], 0
    for i, gl in enumerate(glyphs):
        if i and glyphs[i - 1][1] != gl[1]:
            k += 1
        runs.append((gl[0], k, gl[2]))
    return F.hygiene(runs, want_c, want_t)


def hook_search(ctx, shim, r, n, pc, pt):
    lines = [F.flag_walk(r, pc, pt, reachable=True) for _ in range(n)]
    outs = vlib.run_lines(shim, lines)
    bad = {}
    ran = 0
    for ln, o in zip(lines, outs):
        dev = hook_hygiene(o, pc, pt)
        if dev is None:
            continue
        ran += 1
        for kind, d in dev:
            bad.setdefault(kind, []).append((len(ln), ln, d, o))
    for kind, xs in bad.items():
        xs.sort()
        _, ln, d, o = xs[0]
        ctx.violation(f"propagate_flags leaves the buffer with {kind}: {d} ({len(xs)} of {ran} walks)",
                      {"stage": "search", "stream": "flags-hook-hygiene", "kind": kind, "request": ln,
                       "observed": o.split(" | ")[-1][:1500]})
    ctx.note_search("flags-hook-hygiene", len(lines), ran, deviations={k: len(v) for k, v in bad.items()},
                    rule="random buffers (levels 0-2, monotone and not, in/out mode) + flag primitives + propagate_flags through "
                         "the hook, all 4 subsets of the PRODUCE flags; oracle = uniform per cluster run / BREAK=>CONCAT when "
                         "requested / opt-in bits / defined bits on the dumped masks; non-trivial = propagate_flags ran (scratch flag set)")


# ------------------------------------------------------------------------------------------------
# shape level (1): hygiene monitors over corpus fonts x texts x 4 subsets x directions x levels 0/1

SUBSETS = [(False, False), (True, False), (False, True), (True, True)]


def subset_word(sub, pc, pt):
    return (pc if sub[0] else 0) | (pt if sub[1] else 0)


def shape_hygiene(ctx, shim, r, per_font, pc, pt, fonts=None):
    fs = F.FontSet(r, limit=fonts)
    sh = []
    for g in fs.groups:
        for k in range(per_font):
            sub = SUBSETS[(k + r.below(4)) % 4]
            sh.append(F.make_shaping(r, g, subset_word(sub, pc, pt), subset=sub))
    res, raw = F.run_shapings(shim, sh)
    bad = {}
    nontriv = 0
    dist = {"flagged": 0, "multi-glyph-cluster": 0, "aat": 0}
    per_subset = {str(s): [0, 0] for s in SUBSETS}
    for s, gl, rw in zip(sh, res, raw):
        if gl is None:
            if rw and (rw.startswith("panic") or rw.startswith("abort") or rw == "timeout"):
                bad.setdefault("crash", []).append((len(s.line), s, rw[:200], None))
            continue
        if any(g[2] for g in gl):
            nontriv += 1; dist["flagged"] += 1
        if len({g[1] for g in gl}) < len(gl): dist["multi-glyph-cluster"] += 1
        if s.g["aat"]: dist["aat"] += 1
        per_subset[str(s.subset)][0] += 1
        dev = F.hygiene(gl, s.subset[0], s.subset[1])
        if dev: per_subset[str(s.subset)][1] += 1
        for kind, d in dev:
            bad.setdefault(kind, []).append((len(s.text), s, d, gl))
    for kind, xs in bad.items():
        xs.sort(key=lambda x: (x[0], len(x[1].line)))
        for _, s, d, gl in xs[:1]:
            rp = s.describe()
            rp.update({"stage": "search", "stream": "shape-flag-hygiene", "kind": kind,
                       "requested": {"PRODUCE_UNSAFE_TO_CONCAT": s.subset[0], "PRODUCE_SAFE_TO_INSERT_TATWEEL": s.subset[1]},
                       "observed": F.fmt_glyphs(gl) if gl else d})
            ctx.violation(f"shape() output violates flag hygiene ({kind}): {d} — {len(xs)} of {len(sh)} shapings; "
                          f"font {os.path.basename(s.case.font)} text {' '.join(rp['text'])} flags={s.flags:#x} "
                          f"dir={s.dir} level={s.level}", rp)
    ctx.note_search("shape-flag-hygiene", len(sh), nontriv, distribution=dist,
                    deviations={k: len(v) for k, v in bad.items()}, per_subset_total_bad=per_subset,
                    rule="corpus fonts x (fixture texts, shuffles, slices, alphabet resamples) x 4 subsets of the PRODUCE flags x "
                         "5 direction settings x levels 0/1 x feature toggles through shape(); flags read from "
                         "serialize(GLYPH_FLAGS); non-trivial = at least one glyph flag in the output")


# ------------------------------------------------------------------------------------------------
# shape level (3): the UNSAFE_TO_CONCAT redistribution experiment

CONCAT_RULE = ("corpus fonts x (fixture texts, shuffles, slices, alphabet resamples; cluster numbering identity / strictly increasing "
               "with gaps / 1 in 8 with repeats) x 5 direction settings x levels 0/1 x feature toggles, PRODUCE_UNSAFE_TO_CONCAT "
               "requested (with and without the tatweel flag); whole text shaped, segmented at ALL cluster starts whose glyph lacks "
               "UNSAFE_TO_CONCAT, even segments -> one text, odd segments -> another (same settings, same cluster numbers), both "
               "shaped, every segment's glyphs taken back by cluster ownership and interleaved in visual order; segment order, gids, "
               "clusters, advances, offsets compared with the whole; non-trivial = at least two segments")


def concat_search(ctx, shim, r, per_font, pc, pt, only_aat, name):
    C03mod.metamorphic_search(ctx, shim, r, per_font, pc, pt, only_aat, name, F.verify_concat, [pc, pc, pc | pt],
                              "redistributing UNSAFE_TO_CONCAT-free segments changes the result",
                              ("AAT fonts: " if only_aat else "OpenType path: ") + CONCAT_RULE, kind="concat")


def concat_synth_search(ctx, shim, r, nfonts, per_font, pc, pt):
    C03mod.metamorphic_search(ctx, shim, r, per_font, pc, pt, False, "concat-redistribution-synth", F.verify_concat, [pc, pc, pc | pt],
                              "redistributing UNSAFE_TO_CONCAT-free segments changes the result",
                              C03mod.SYNTH_RULE + "then as concat-redistribution-ot: segment at ALL cluster starts free of UNSAFE_TO_CONCAT, "
                              "even / odd segments shaped as two texts, glyphs taken back by cluster ownership, compared with the whole",
                              kind="concat", groups=F.synth_groups(r, nfonts), make=C03mod.synth_make, classify=F.synth_known_class)


def di_make(r, g, flags, k):
    return F.make_di_shaping(r, g, flags)


def concat_di_search(ctx, shim, r, nfonts, per_font, pc, pt):
    C03mod.metamorphic_search(ctx, shim, r, per_font, pc, pt, False, "concat-redistribution-di", F.verify_concat, [pc, pc, pc | pt],
                              "redistributing UNSAFE_TO_CONCAT-free segments changes the result",
                              F.DI_RULE + "the redistribution experiment of concat-redistribution-ot",
                              kind="concat", groups=F.di_groups(r, nfonts), make=di_make, classify=F.di_known_class)


def concat_stch_search(ctx, shim, r, nfonts, per_font, pc, pt):
    C03mod.metamorphic_search(ctx, shim, r, per_font, pc, pt, False, "concat-redistribution-stch", F.verify_concat, [pc, pc, pc | pt],
                              "redistributing UNSAFE_TO_CONCAT-free segments changes the result",
                              F.STCH_RULE + "the redistribution experiment of concat-redistribution-ot",
                              kind="concat", groups=F.stch_groups(r, nfonts), make=lambda r, g, fl, k: F.make_stch_shaping(r, g, fl),
                              classify=F.stch_known_class)


def concat_gposdev_search(ctx, shim, r, nfonts, per_font, pc, pt):
    import _gposflag as GF
    C03mod.metamorphic_search(ctx, shim, r, per_font, pc, pt, False, "concat-redistribution-gposdev", F.verify_concat, [pc, pc, pc | pt],
                              "redistributing UNSAFE_TO_CONCAT-free segments changes the result",
                              GF.GPOSDEV_RULE + "the redistribution experiment of concat-redistribution-ot (both texts shaped with the "
                              "same ppem / variation coordinates)",
                              kind="concat", groups=GF.gposdev_groups(r, nfonts), make=lambda r, g, fl, k: GF.make_gposdev_shaping(r, g, fl),
                              classify=GF.gposdev_known_class)


FRACTION_RULE = ("fonts with fraction features (synthetic: digits, U+2044, letters of Latin / Hebrew, any of frac / numr / dnom that makes "
                 "the plan fraction-aware; plus every font under tests/fonts that names frac or numr+dnom) x texts of digit runs, "
                 "U+2044 FRACTION SLASH, letters and spaces with at least one slash (digits on both, one or no side of it) x "
                 "directions l, r, t, b x levels 0/1; ")


def fraction_make(r, g, flags, k):
    return F.make_fraction_shaping(r, g, flags)


def concat_fraction_search(ctx, shim, r, nfonts, per_font, pc, pt):
    C03mod.metamorphic_search(ctx, shim, r, per_font, pc, pt, False, "concat-fraction", F.verify_concat, [pc, pc, pc | pt],
                              "redistributing UNSAFE_TO_CONCAT-free segments changes the result",
                              FRACTION_RULE + "the redistribution experiment of concat-redistribution-ot",
                              kind="concat", groups=F.fraction_groups(r, nfonts), make=fraction_make, classify=F.fraction_known_class)


def run(ctx):
    ctx.assumptions += [
        "theorems are about the Lean model of propagate_flags (ot_shape.rs) and of the flag setters of buffer.rs; the "
        "model is tied to the crate by the flags-walks correspondence stream (hook: verif::ot_shape::propagate_flags)",
        "C04_delin_backward_keeps_concat: removing a default ignorable (delete_glyphs_inplace, backward merge) keeps its "
        "UNSAFE_TO_CONCAT on the run that takes over its cluster; tied to the crate by flags-carry + the carry-exact oracle and, "
        "through shape(), by concat-redistribution-di (fonts without a space glyph, native right-to-left runs)",
        "known class arabic-pcm-stch: decided per case from the cut and the difference (flagslib.stch_attribution): no cut inside a "
        "mark + word span that apply_stch flags, only glyphs of marks whose stretch context changed differ",
        "that every other pass touches the flag bits only through the buffer primitives is not proved; it is monitored "
        "by the shape()-level hygiene search over corpus fonts (partial, as DESIGN.md §5 C04 says)",
    ]
    ctx.regen()
    if not ctx.prove(MODULE):
        import _pairflag as PFn
        PFn.name_failed_theorems(ctx)
    shim = vlib.build_harness()
    gf, bf = F.constants(shim)
    b = dict(bf)
    pc, pt = b["PRODUCE_UNSAFE_TO_CONCAT"], b["PRODUCE_SAFE_TO_INSERT_TATWEEL"]
    r = ctx.rng("walks")
    ctx.correspond("flags-const", lines=["flagconst"])
    ctx.correspond("flags-walks",
                   lines=[F.flag_walk(r, pc, pt, adversarial=True) for _ in range(ctx.budget(20000, 300000))],
                   classify=F.classify_walk, canon=F.canon_panic)
    rc = ctx.rng("carry")
    ctx.correspond("flags-carry", lines=[F.carry_walk(rc, pc, pt) for _ in range(ctx.budget(5000, 100000))],
                   classify=F.classify_walk, canon=F.canon_panic)
    import C06 as C06mod
    ctx.correspond("gsub-flags", groups=C03mod.gsub_flag_groups(ctx, shim, ctx.rng("gsub-flags"), ctx.budget(150, 3000), 10),
                   classify=C06mod.gsub_classify, canon=F.canon_panic, only=lambda ln: ln.startswith("gsub "))
    # PairPos: unsafe_to_concat over [idx, second + 1) on every path that looked at the second glyph (no second glyph, no
    # record, records that did nothing), unsafe_to_break (which includes CONCAT) when a record worked: GposFlag.lean vs the crate
    import _gposflag as GF
    ctx.correspond("gpos-pair-flags", lines=GF.pair_lines(ctx.rng("gpos-flags"), ctx.budget(4000, 150000), pc),
                   classify=GF.classify_pair, canon=GF.canon)
    # the same with the real skipping iterator (PairFlag.lean; theorems C04_pairpos_fail_flags_inspected,
    # C04_kerx_simple_miss_flags_inspected, C04_kern_whole_buffer_concat): which glyph a declining PairPos / kerx pair inspected
    import _pairflag as PF
    rk = ctx.rng("pair-span")
    kpl = PF.kerx_plans(shim)
    ctx.correspond("gpos-pair-iter", lines=PF.pair_lines(rk, ctx.budget(4000, 150000), pc), classify=PF.classify_pair, canon=GF.canon)
    ctx.correspond("kerx-simple-flags", lines=PF.kx_lines(rk, ctx.budget(2000, 60000), pc, kpl), classify=PF.classify_k, canon=GF.canon)
    ctx.correspond("kern-machine-flags", lines=PF.mk_lines(rk, ctx.budget(2000, 60000), pc), classify=PF.classify_k, canon=GF.canon)
    PF.hook_search(ctx, shim, ctx.rng("pair-span-search"), ctx.budget(3000, 100000), pc, kpl)
    hook_search(ctx, shim, ctx.rng("hook"), ctx.budget(20000, 300000), pc, pt)
    C03mod.carry_search(ctx, shim, ctx.rng("carry-exact"), ctx.budget(10000, 200000), pc, pt)
    shape_hygiene(ctx, shim, ctx.rng("hygiene"), ctx.budget(48, 400), pc, pt)
    concat_search(ctx, shim, ctx.rng("concat-ot"), ctx.budget(60, 1000), pc, pt, False, "concat-redistribution-ot")
    concat_search(ctx, shim, ctx.rng("concat-aat"), ctx.budget(80, 1500), pc, pt, True, "concat-redistribution-aat")
    concat_synth_search(ctx, shim, ctx.rng("concat-synth"), ctx.budget(200, 4000), 12, pc, pt)
    concat_gposdev_search(ctx, shim, ctx.rng("concat-gposdev"), ctx.budget(160, 3000), 12, pc, pt)
    concat_fraction_search(ctx, shim, ctx.rng("concat-fraction"), ctx.budget(30, 400), ctx.budget(30, 60), pc, pt)
    concat_di_search(ctx, shim, ctx.rng("concat-di"), ctx.budget(300, 6000), 16, pc, pt)
    concat_stch_search(ctx, shim, ctx.rng("concat-stch"), ctx.budget(100, 2000), 12, pc, pt)


def replay(ctx, rp):
    shim = vlib.build_harness()
    if rp.get("stream") == "shape-flag-hygiene":
        o = vlib.run_groups(shim, [[rp["font_line"], rp["request"]]], nproc=1)[0][1]
        gl = F.parse_shape(o)
        print("request:", rp["request"]); print("reply  :", o)
        want = rp["requested"]
        dev = F.hygiene(gl, want["PRODUCE_UNSAFE_TO_CONCAT"], want["PRODUCE_SAFE_TO_INSERT_TATWEEL"]) if gl else [("crash", o)]
        for k, d in dev: print("deviation:", k, d)
        return 1 if dev else 0
    if rp.get("stream", "").startswith("concat-"):
        s = F.shaping_from_replay(rp)
        o = F.verify_concat(shim, [s])[0]
        print("request:", s.line)
        print("status :", o["status"], " segments (text ranges, logical order):", o.get("pieces"))
        for q, a in zip(o.get("piece_requests") or [], o.get("piece_replies") or []):
            print("  part :", q); print("       ", a)
        print("whole  :", F.fmt_glyphs(o.get("whole") or []))
        print("reassembled:", F.fmt_glyphs(o.get("recon") or []))
        print("difference:", o.get("diff"))
        return 1 if o["status"] in ("DIFF", "piecefail", "noresult") else 0
    if rp.get("stream") in ("carry-exact", "kern-span", "kerx-span", "pairpos-miss-span"):
        return C03mod.replay(ctx, rp)
    if rp.get("stream") == "flags-hook-hygiene":
        b = dict(F.constants(shim)[1])
        o = vlib.run_lines(shim, [rp["request"]], nproc=1)[0]
        print("request:", rp["request"]); print("reply  :", o.split(" | ")[-1])
        dev = hook_hygiene(o, b["PRODUCE_UNSAFE_TO_CONCAT"], b["PRODUCE_SAFE_TO_INSERT_TATWEEL"]) or []
        for k, d in dev: print("deviation:", k, d)
        return 1 if dev else 0
    if "request" in rp:
        model = vlib.build_model()
        a = vlib.run_lines(shim, [rp["request"]], nproc=1)[0]
        b = vlib.run_lines(model, [rp["request"]], nproc=1)[0]
        print("impl :", a[:3000]); print("model:", b[:3000])
        return 0 if F.canon_panic(a) == b else 1
    print(rp); return 1
