"""C15 — cluster values are opaque labels; the cluster level changes clusters and flags only.

Primitive level: every request of the C02 primitive stream is run a second time with all cluster values (buffer
contents, supplied clusters, set_masks bounds) relabelled by a strictly increasing map — on the crate and on the Lean
model (correspondence) — and the crate's relabelled trace is compared with its original trace after un-relabelling.
The crate's original traces are also checked against `a primitive never changes a mask bit outside glyph_flag::DEFINED`
(prims-feature-bits; theorem C15_prims_keep_feature_bits).
Shape level: paired shape() calls through the public API (relabelled input + feature ranges; the three levels pairwise)
on the corpus, on structured Hangul over 11 support variants, on generated AAT fonts with morx + feat and on generated
GSUB fonts that delete glyphs before lookups of ranged user features (gsub-del).
Shaper level: the Hangul preprocess hook at the three levels and the morx substitute hook under relabelling with gaps
(both also as correspondence streams against the Lean models the C15 theorems are about)."""
import re
import vlib, bufgen, corpus, C02

MODULE = "RbModel.Props.C15"
LEVEL = "proof"
U32MAX = 4294967295


# ------------------------------------------------------------------------------------------------
# strictly increasing maps


def make_map(r, kind=None):
    """(name, f) with f strictly increasing on 0..2^20 and f(c) < 2^32 there; U32MAX (= "to the end") is a fixed point"""
    kind = r.below(5) if kind is None else kind
    if kind == 0:
        k = r.choice([1, 2, 7, 1000, 1 << 20, (1 << 31) + 5])
        name, g = f"c+{k}", (lambda c, k=k: c + k)
    elif kind == 1:
        name, g = "3c+7", (lambda c: 3 * c + 7)
    elif kind == 2:
        a, b = r.range(2, 9), r.below(50)
        name, g = f"{a}c+{b}", (lambda c, a=a, b=b: a * c + b)
    elif kind == 3:   # random gaps (utf-8 / utf-16 offset style numbering)
        gaps = [r.range(1, 4) for _ in range(64)]
        base = r.below(5)
        pre = [base]
        for x in gaps:
            pre.append(pre[-1] + x)
        name = "gaps" + "".join(map(str, gaps[:8]))
        g = lambda c, pre=pre: pre[c] if c < len(pre) else pre[-1] + 5 * (c - len(pre) + 1)
    else:
        name, g = "c*c+c", (lambda c: c * c + c)
    return name, (lambda c: U32MAX if c == U32MAX else g(c))


# ------------------------------------------------------------------------------------------------
# primitive level


def relabel_infos(s, f):
    if s == "-":
        return s
    out = []
    for e in s.split(","):
        p = e.split(":")
        p[2] = str(f(int(p[2])))
        out.append(":".join(p))
    return ",".join(out)


def relabel_line(ln, f):
    parts = ln.split(" ; ")
    toks = parts[0].split(" ")
    for i, t in enumerate(toks):
        if t.startswith("I=") or t.startswith("U="):
            toks[i] = t[:2] + relabel_infos(t[2:], f)
    ops = []
    for op in parts[1:]:
        a = op.split()
        if a[0] == "outi":
            a[1] = relabel_infos(a[1], f)
        elif a[0] == "add":
            a[2] = str(f(int(a[2])))
        elif a[0] == "setmasks":
            cs, ce = int(a[3]), int(a[4])
            if not (cs == 0 and ce == U32MAX):       # a global feature is not a range
                a[3], a[4] = str(f(cs)), str(f(ce))
        ops.append(" ".join(a))
    return " ; ".join([" ".join(toks)] + ops)


ZERO = (0, 0, 0, 0, 0)


def related(f, a, b):
    """b is the relabelled image of glyph record a (records padded by Vec::resize are zero in both runs)"""
    return b == (a[0], a[1], f(a[2]), a[3], a[4]) or (a == ZERO and b == ZERO)


def compare_traces(f, ln, rep, rep_rel):
    """None when the relabelled trace is the relabelled image of the original trace, else a description"""
    if rep.startswith("panic") or rep_rel.startswith("panic"):
        return None if C02.canon(rep) == C02.canon(rep_rel) else {"kind": "panic-differs"}
    ta, tb = bufgen.parse_trace(rep), bufgen.parse_trace(rep_rel)
    if ta is None or tb is None:
        return None if rep == rep_rel else {"kind": "reply-differs"}
    if ta[0] != tb[0]:
        return {"kind": "returns-differ", "orig": ta[0], "relabelled": tb[0]}
    ops = [o.strip() for o in ln.split(" ; ")[1:]]
    for k, (sa, sb) in enumerate(zip(ta[1], tb[1])):
        if sa.get("ok", 1) != 1:
            # the length budget refused an insertion: the walk's later primitives run without their precondition
            # (e.g. replace_glyph with no current glyph reads a dead slot); only the failure itself must agree
            return None if sb.get("ok", 1) != 1 else {"kind": "scalar-differs", "step": k, "field": "ok"}
        for key in sa:
            if key in ("I", "U"):
                if len(sa[key]) != len(sb[key]) or not all(related(f, x, y) for x, y in zip(sa[key], sb[key])):
                    return {"kind": "contents-differ", "step": k, "op": ops[k] if k < len(ops) else "?", "array": key,
                            "orig": sa[key], "relabelled": sb[key]}
            elif sa[key] != sb[key]:
                return {"kind": "scalar-differs", "step": k, "op": ops[k] if k < len(ops) else "?", "field": key,
                        "orig": sa[key], "relabelled": sb[key]}
    return None


# a primitive of the cluster / flag bookkeeping writes clusters and GLYPH FLAGS only: the other 29 bits of a glyph's mask are
# the feature bits set_masks gave it; they select the lookups that act on the glyph and must travel with the glyph untouched

DEFINED = 7
FEATURE_BITS = 0xFFFFFFFF ^ DEFINED
STILL = {"merge", "mergeout", "utb", "utbo", "utc", "utco", "tatweel", "formcl"}      # no glyph moves, none appears
MOVES = {"next", "nexts", "copy", "skip", "moveto", "sync", "rev", "revr", "revg", "revgr", "sort", "native", "finalrev",
         "del", "delin"}                                                            # glyphs move / vanish, none is new


def fkey(x):
    return (x[0], x[1] & FEATURE_BITS)


def feature_bits_trace(ln, reply):
    """deviations of one crate trace from `a primitive never changes mask bits outside glyph_flag::DEFINED of any glyph`
    (statement of Props/C15.lean, C15_prims_keep_feature_bits): list of dicts, empty = fine.  Per primitive of the trace,
    on the logical glyph sequence out[0..out_len) ++ info[idx..len): STILL primitives keep the sequence of (glyph id,
    feature bits) exactly; delete_glyph removes the current glyph, delete_glyphs_inplace the marked ones, and keep the rest in
    order; the other moving primitives produce only (glyph id, feature bits) pairs that were there; the primitives that
    create a glyph (replace_glyph(s), output_glyph) give it the feature bits of the glyph it is copied from."""
    parts = ln.split(" ; ")
    st0 = bufgen.parse_state(parts[0].split(" ", 1)[1])
    ops = [o.strip() for o in parts[1:]]
    tr = bufgen.parse_trace(reply)
    if tr is None:
        return []
    bad = []
    prev = st0
    for k, (op, st) in enumerate(zip(ops, tr[1])):
        a = op.split()
        name = a[0]
        if prev.get("ok", 1) != 1 or st.get("ok", 1) != 1:
            prev = st; continue
        O, R = bufgen.view(prev)
        O2, R2 = bufgen.view(st)
        before, after = [fkey(x) for x in O + R], [fkey(x) for x in O2 + R2]
        want = None
        if name in STILL: want = before
        elif name == "del" and R: want = [fkey(x) for x in O + R[1:]]
        elif name == "delin" and not prev["h"]: want = [fkey(x) for x in R if x[4] != 1]
        if want is not None:
            if after != want:
                bad.append({"kind": "feature-bits", "step": k, "op": op, "level": prev["L"], "before": before, "after": after, "expected": want})
        elif name in MOVES or name in ("repl", "repls", "outg"):
            allowed = set(before)
            if name in ("repl", "repls", "outg"):
                src = R[0] if R else (O[-1] if O else None)
                if src is not None:
                    allowed |= {(int(g), src[1] & FEATURE_BITS) for g in (a[1:] if name != "repls" else a[2:])}
            extra = [x for x in after if x not in allowed]
            if extra:
                bad.append({"kind": "feature-bits", "step": k, "op": op, "level": prev["L"], "before": before, "after": after, "foreign": extra})
        prev = st
    return bad


def prim_feature_bits(ctx, base, outs):
    bad, evals, kinds = [], 0, {}
    for ln, o in zip(base, outs):
        ops = [x.split()[0] for x in ln.split(" ; ")[1:]]
        evals += sum(1 for x in ops if x in STILL or x in MOVES or x in ("repl", "repls", "outg"))
        for d in feature_bits_trace(ln, o):
            kinds[d["op"].split()[0]] = kinds.get(d["op"].split()[0], 0) + 1
            bad.append((len(ln), ln, d, o))
    bad.sort(key=lambda x: x[0])
    seen = set()
    for _, ln, d, o in bad:
        key = d["op"].split()[0]
        if key in seen: continue
        seen.add(key)
        ctx.violation(f"buffer primitive changes feature bits (mask bits outside glyph_flag::DEFINED) of a glyph: step {d['step']} ({d['op']}) at "
                      f"level {d['level']}: (glyph id, feature bits) {d['before']} -> {d['after']}"
                      + (f", expected {d['expected']}" if "expected" in d else f", foreign {d['foreign']}"),
                      {"stage": "search", "stream": "prims-feature-bits", "request": ln, "deviation": d, "observed": o[:3000]})
    ctx.note_search("prims-feature-bits", evals, len(set(base)), deviations=kinds,
                    rule="the traces of the primitive stream (masks of the injected glyphs carry random feature bits): on the logical "
                         "sequence out[0..out_len) ++ info[idx..len), merge_clusters / merge_out_clusters / the five flag routines / "
                         "form_clusters keep the sequence of (glyph id, mask & !DEFINED) exactly, delete_glyph and delete_glyphs_inplace "
                         "keep it for the surviving glyphs, cursor moves / reversals / sort only permute or drop pairs, replace_glyph(s) "
                         "and output_glyph copy the feature bits of the current glyph; cases = primitives checked")


def prim_relabel(ctx, shim, r, n):
    base = C02.prim_lines(r, n)
    maps = [make_map(r) for _ in range(len(base))]
    rel = [relabel_line(ln, f) for ln, (_, f) in zip(base, maps)]
    # (a) the model is tied to the crate on the relabelled states too
    ctx.correspond("cluster-prims-relabelled", lines=rel, classify=C02.classify, canon=C02.canon)
    # (b) crate vs crate: relabelled run = relabelled image of the original run
    oa = vlib.run_lines(shim, base)
    ob = vlib.run_lines(shim, rel)
    prim_feature_bits(ctx, base, oa)
    bad = []
    for ln, ln2, (name, f), a, b in zip(base, rel, maps, oa, ob):
        d = compare_traces(f, ln, a, b)
        if d:
            bad.append((len(ln), ln, ln2, name, d, a, b))
    bad.sort(key=lambda x: x[0])
    seen = set()
    for _, ln, ln2, name, d, a, b in bad:
        if d["kind"] in seen:
            continue
        seen.add(d["kind"])
        ctx.violation(f"buffer primitive does not commute with relabelling the clusters by {name}: {d['kind']} "
                      f"(step {d.get('step')}, {d.get('op')})",
                      {"stage": "search", "stream": "prims-relabel", "request": ln, "relabelled_request": ln2, "map": name,
                       "deviation": d, "observed": a[:2000], "observed_relabelled": b[:2000]})
    ctx.note_search("prims-relabel", len(base), len(set(base)), deviations=len(bad),
                    maps=sorted({m[0].split("+")[0][:6] for m in maps}),
                    rule="every request of the C02 primitive stream and its image under a strictly increasing map of all cluster values "
                         "(buffer contents, output_info / add clusters, set_masks bounds unless global) run on the crate; the state after "
                         "every primitive of the second run must be the relabelled image of the first (records zero-padded by "
                         "Vec::resize are zero in both); maps: c+k, 3c+7, a*c+b, random gaps, c*c+c")


# ------------------------------------------------------------------------------------------------
# shape() level

RANGE_TAGS = ["liga", "kern", "smcp", "ss01", "calt", "dlig", "mark", "ccmp", "rlig", "init", "salt", "frac", "onum"]


def explicit_feats(c):
    """the corpus case's feature string as explicit (tag, value, start, end) tuples, or None when python cannot parse it"""
    feats = []
    for kv in c.extra:
        if kv.startswith("fstr="):
            fs = bytes.fromhex(kv[5:]).decode().strip('"')
            for part in fs.split(","):
                p = corpus.parse_feature(part.strip())
                if p is None:
                    return None
                feats.append(p)
    return feats


def other_extra(c):
    return [kv for kv in c.extra if not kv.startswith("fstr=")]


def grapheme_starts(text):
    """indices where a feature range may start/end without cutting a grapheme (conservative: before a character that is
    not a mark / format / joiner-adjacent)"""
    import unicodedata
    ok = [0]
    for i in range(1, len(text)):
        ch, pv = text[i], text[i - 1]
        cat = unicodedata.category(ch)
        if cat in ("Mn", "Mc", "Me", "Cf") or unicodedata.category(pv) == "Cf" or 0x1F1E6 <= ord(ch) <= 0x1F1FF \
                or 0x1F3FB <= ord(ch) <= 0x1F3FF or 0xE0020 <= ord(ch) <= 0xE007F or 0x1100 <= ord(ch) <= 0x11FF \
                or 0xFE00 <= ord(ch) <= 0xFE0F or ord(ch) in (0x200C, 0x200D, 0x034F):
            continue
        ok.append(i)
    return ok


def ranged_feats(r, text, cl, aligned):
    """up to two ranged features with bounds taken from the input cluster values (so that f maps them exactly)"""
    feats = []
    starts = grapheme_starts(text) if aligned else list(range(len(text)))
    # with repeated input values a bound v is aligned only if the first character carrying v starts a grapheme
    starts = [i for i in starts if i == 0 or cl[i - 1] < cl[i]] or [0]
    for _ in range(r.below(3)):
        i = r.choice(starts); j = r.choice([x for x in starts if x >= i] + [None])
        s = cl[i]; e = U32MAX if j is None else cl[j]
        if s == cl[0] and e == U32MAX:
            s, e = 0, U32MAX
        feats.append((r.choice(RANGE_TAGS), r.choice([0, 1, 1, 2]), s, e))
    return feats


def map_feats(feats, f):
    return [(t, v, s, e) if (s == 0 and e == U32MAX) else (t, v, f(s), f(e)) for t, v, s, e in feats]


def sig(glyphs, with_flags=True):
    return [(g[0],) + ((g[2],) if with_flags else ()) + g[3:] for g in glyphs]


def corpus_pair_requests(r, ncases, ntexts):
    cases = r.shuffle(corpus.load())[:ncases]
    groups = []
    for fid, reg, cs in corpus.font_groups(cases):
        reqs = []
        for c in cs:
            base_feats = explicit_feats(c)
            if base_feats is None:
                continue
            ex = other_extra(c)
            for ti in range(ntexts):
                text = C02.mutate_text(r, c.text, 0 if ti == 0 else r.range(1, 6))[:48]
                if ti > 0 and r.chance(1, 4):      # multi-character graphemes around the fixture's own characters
                    text = "".join(map(chr, grapheme_text(r, [ord(ch) for ch in c.text])))
                if not text:
                    continue
                ex_t = ex
                if ti > 0 and r.chance(1, 3):      # a point / pixel size (AAT tracking, device tables)
                    ex_t = [kv for kv in ex if not kv.startswith(("ptem=", "ppem="))] + size_extras(r)
                cl = C02.input_clusters(r, len(text), 0 if ti == 0 else r.below(4))
                flags = c.flags if ti == 0 else r.choice(C02.FLAGS)
                d = c.dir if ti == 0 else r.choice(C02.DIRS)
                aligned = r.chance(3, 4)
                feats = base_feats + ranged_feats(r, text, cl, aligned)
                if r.chance(1, 4): feats = feats + [C02.KERN_OFF]
                ranged = any(not (s == 0 and e == U32MAX) for _, _, s, e in feats)
                name, f = make_map(r)
                lv = r.below(3)
                mk = lambda cl_, feats_, lv_, ex=ex_t: c.shape_line(fid, text=text, clusters=cl_, dir=d, level=lv_, flags=flags,
                                                                  feats=feats_, extra=ex)
                # relabel pair at one level; the three levels on the original numbering
                reqs.append(("relabel", name, f, cl, ranged, mk(cl, feats, lv), mk([f(x) for x in cl], map_feats(feats, f), lv)))
                reqs.append(("levels", "mid-grapheme-ranges" if (ranged and not aligned) else "aligned", None, cl, None,
                             mk(cl, feats, 0), mk(cl, feats, 1), mk(cl, feats, 2)))
        groups.append((reg, reqs))
    return groups


def _font_name(reg):
    reg = reg[0] if isinstance(reg, list) else reg
    t = reg.split()
    return t[2] if t[0] == "fontfile" else "synthetic:" + " ".join(t[:3])[:60]


def shape_pairs(ctx, shim, r, ncases, ntexts):
    return eval_pairs(ctx, shim, corpus_pair_requests(r, ncases, ntexts))


def _finite_bounds(q):
    t = q.split()[7]
    out = set()
    if t != "-":
        for x in t.split(","):
            _, _, a, b = x.split(":")
            out |= {int(v) for v in (a, b) if int(v) not in (0, U32MAX)}
    return out


def full_image(qa, f):
    """the image of a shape request under f in which EVERY feature start is mapped, the sentinel 0 of a global feature too
    (ends equal to u32::MAX stay): the numeric order and the ties of all range starts are then exactly those of the
    original, so the order in which features become active is the same"""
    t = qa.split(" ")
    if t[7] != "-":
        fs = []
        for x in t[7].split(","):
            tag, v, a, b = x.split(":")
            fs.append(f"{tag}:{v}:{f(int(a))}:{b if int(b) == U32MAX else f(int(b))}")
        t[7] = ",".join(fs)
    t[10] = ",".join(f"{c}:{f(int(k))}" for c, k in (x.split(":") for x in t[10].split(",")))
    return " ".join(t)


def eval_pairs(ctx, shim, groups, gen=None, what_relabel=None, what_levels=None, runtime_clusters=False):
    """groups: [(font registration line(s), [request tuples])].  A request tuple is
         ("relabel", map name, f, input clusters, ranged?, request, relabelled request)   or
         ("levels", "aligned" | "mid-grapheme-ranges", None, input clusters, None, request@0, request@1, request@2).
    gen: name of a structured generator; its pairs are judged like the corpus pairs and accounted under
    shape-relabel/<gen>, shape-levels/<gen>.
    runtime_clusters (AAT): morx looks a glyph's feature range up by the cluster the glyph carries WHEN the subtable runs, so
    a range bound that falls inside a cluster which an earlier subtable merged at levels 0/1 (rearrangement, ligature)
    selects different glyphs at level 2.  Such a bound lies inside a cluster, like a bound inside a grapheme: the levels
    triple is then counted as `mid-cluster-ranges` and reported separately (decided from the level-0 reply: the bound is
    an input cluster value that no level-0 output glyph carries).  A 5th field "conflict" of a relabel tuple marks
    requests with two overlapping, contradicting settings of one AAT feature (see aat_pair_requests): counted and reported
    A difference on such a request is attributed to the contradiction only if it disappears when the sentinel start 0 of
    the global features is mapped like every other start (full_image): then the sole cause is that ties between range
    starts at 0 are broken differently; it is reported once per run with kind `relabel-conflict` (known finding).
    Otherwise it is an ordinary `relabel` violation."""
    sfx = "/" + gen if gen else ""
    lines = []
    for reg, reqs in groups:
        g = list(reg) if isinstance(reg, list) else [reg]
        for q in reqs:
            g += list(q[5:])
        lines.append(g)
    outs = vlib.run_groups(shim, lines, timeout=1200)
    stats = {"relabel": 0, "relabel-nontrivial": 0, "relabel-ranged": 0, "levels": 0, "levels-nontrivial": 0,
             "levels-mid-grapheme": 0, "crashed": 0}   # levels-mid-grapheme also counts mid-cluster-ranges (AAT)
    found = {}
    for (reg, reqs), o in zip(groups, outs):
        k = len(reg) if isinstance(reg, list) else 1
        for q in reqs:
            n = len(q) - 5
            reps = o[k:k + n]; k += n
            gls = [C02.parse_shape(x) for x in reps]
            if any(g is None for g in gls):
                if any(x not in ("reject", "bad-op") for x, g in zip(reps, gls) if g is None): stats["crashed"] += 1
                if len(set(x.split()[0] if x else x for x in reps)) > 1:
                    found.setdefault(("crash-differs", q[0]), []).append((len(q[5]), reg, q, reps, "one of the paired requests crashed"))
                continue
            if q[0] == "relabel":
                _, name, f, cl, ranged, qa, qb = q
                stats["relabel"] += 1
                if len(gls[0]) > 1: stats["relabel-nontrivial"] += 1
                if ranged: stats["relabel-ranged"] += 1
                want = [(g[0], f(g[1])) + g[2:] for g in gls[0]]
                if ranged == "conflict": stats["relabel-conflicting-settings"] = stats.get("relabel-conflicting-settings", 0) + 1
                if want != gls[1]:
                    what = "glyphs/positions/flags" if sig(gls[0]) != sig(gls[1]) else "cluster values"
                    found.setdefault(("relabel-conflict" if ranged == "conflict" else "relabel", what), []).append((len(qa), reg, q, reps, f"map {name}"))
            else:
                _, kind, _, cl, _, q0, q1, q2 = q
                if runtime_clusters and kind == "aligned" and not _finite_bounds(q0) <= {g[1] for g in gls[0]}:
                    kind = "mid-cluster-ranges"
                stats["levels"] += 1
                if len(gls[0]) > 1: stats["levels-nontrivial"] += 1
                if kind != "aligned": stats["levels-mid-grapheme"] += 1
                s0, s1, s2 = (sig(g, with_flags=False) for g in gls)
                if not (s0 == s1 == s2):
                    pair = "0-vs-1" if s0 != s1 else "1-vs-2"
                    found.setdefault(("levels", kind, pair), []).append((len(q0), reg, q, reps, pair))
    # differences on requests with contradicting settings: explained by the contradiction iff the full image agrees
    cand = [(key, it) for key in list(found) if key[0] == "relabel-conflict" for it in found.pop(key)]
    if cand:
        extra = [(list(it[1]) if isinstance(it[1], list) else [it[1]]) + [full_image(it[2][5], it[2][2])] for _, it in cand]
        eo = vlib.run_groups(shim, extra, timeout=600)
        explained = []
        for (key, it), g, o in zip(cand, extra, eo):
            _, reg, q, reps, detail = it
            base = C02.parse_shape(reps[0]); full = C02.parse_shape(o[-1])
            if base is not None and full is not None and [(x[0], q[2](x[1])) + x[2:] for x in base] == full:
                explained.append(it + (g[-1], o[-1]))
            else:
                found.setdefault(("relabel", key[1]), []).append(it)
        stats["conflicting-settings-differences"] = len(explained)
        if explained:
            explained.sort(key=lambda x: x[0])
            _, reg, q, reps, detail, qfull, ofull = explained[0]
            stats["conflicting-settings-example"] = {"font": _font_name(reg), "map": q[1], "requests": list(q[5:]) + [qfull],
                                                     "replies": [x[:400] for x in reps] + [ofull[:400]]}
            ctx.violation(f"shape(): relabelling changes glyphs, positions or glyph flags when two overlapping settings of one AAT feature contradict each other "
                          f"({len(explained)} request pairs, {len(set(_font_name(x[1]) for x in explained))} fonts; {detail}; requests "
                          f"{' | '.join(' '.join(x.split()[2:4] + x.split()[5:8] + x.split()[10:11]) for x in q[5:])}; with the global "
                          f"features' start mapped as well ({qfull.split()[7]}) the result is the relabelled image again)",
                          {"stage": "search", "stream": "shape-relabel", "generator": gen or "corpus", "kind": "relabel-conflict",
                           "font_line": reg, "requests": list(q[5:]), "full_image_request": qfull, "map": q[1],
                           "cluster_map": [[c, q[2](c)] for c in sorted(set(q[3]))],
                           "observed": [x[:3000] for x in reps], "observed_full_image": ofull[:3000], "count": len(explained),
                           "fonts": sorted(set(_font_name(x[1]) for x in explained))[:40]})
    for key, lst in sorted(found.items(), key=lambda kv: str(kv[0])):
        lst.sort(key=lambda x: x[0])
        _, reg, q, reps, detail = lst[0]
        if key[0] == "levels" and key[1] != "aligned":
            stats.setdefault("mid-grapheme-differences", 0)
            stats["mid-grapheme-differences"] += len(lst)
            stats["mid-grapheme-example"] = {"font": _font_name(reg), "kind": key[1], "requests": list(q[5:]), "replies": [x[:400] for x in reps]}
            continue     # reported separately: a ranged feature bound inside a grapheme is outside the property's hypothesis
        ctx.violation(f"shape(): {'relabelling the input clusters changes ' + key[1] if key[0] == 'relabel' else 'the cluster level changes glyphs or positions (' + str(key[-1]) + ')' if key[0] == 'levels' else key[0]} "
                      f"({len(lst)} request pairs, {len(set(_font_name(x[1]) for x in lst))} fonts{'; generator ' + gen if gen else ''}; {detail}; requests {' | '.join(' '.join(x.split()[2:4] + x.split()[5:8] + x.split()[10:11]) for x in q[5:])})",
                      {"stage": "search", "stream": "shape-" + key[0], "generator": gen or "corpus", "font_line": reg, "requests": list(q[5:]),
                       "map": q[1] if key[0] == "relabel" else None,
                       "cluster_map": [[c, q[2](c)] for c in sorted(set(q[3]))] if key[0] == "relabel" else None,
                       "kind": list(key), "observed": [x[:3000] for x in reps],
                       "count": len(lst), "fonts": sorted(set(_font_name(x[1]) for x in lst))[:40]})
    ctx.note_search("shape-relabel" + sfx, stats["relabel"], stats["relabel-nontrivial"], ranged_feature_pairs=stats["relabel-ranged"],
                    crashed_or_aborted=stats["crashed"],
                    conflicting_settings_note="request pairs with two overlapping contradicting settings of one AAT feature; a difference "
                                              "on them that vanishes once the global features' sentinel start 0 is mapped too is "
                                              "reported once per run as kind relabel-conflict (known finding), any other as relabel",
                    conflicting_settings_pairs=stats.get("relabel-conflicting-settings", 0),
                    conflicting_settings_differences=stats.get("conflicting-settings-differences", 0),
                    conflicting_settings_example=stats.get("conflicting-settings-example"),
                    violations_by_kind={str(k): len(v) for k, v in found.items() if k[0] != "levels"},
                    rule=(what_relabel or "corpus (font, text, options) + shuffled / repeated / sliced / resampled / rtl-neutral texts, non-decreasing input "
                         "clusters, random direction / level / flags, 0-2 extra ranged features with bounds at input cluster values") + "; the "
                         "request is shaped again with clusters and feature ranges mapped by f (c+k, 3c+7, a*c+b, random gaps, c*c+c): "
                         "gids, flags, advances, offsets identical and clusters = f(clusters); non-trivial = more than one glyph")
    ctx.note_search("shape-levels" + sfx, stats["levels"], stats["levels-nontrivial"],
                    mid_grapheme_range_cases=stats["levels-mid-grapheme"],
                    mid_grapheme_differences=stats.get("mid-grapheme-differences", 0),
                    mid_grapheme_example=stats.get("mid-grapheme-example"),
                    violations_by_kind={str(k): len(v) for k, v in found.items() if k[0] == "levels"},
                    rule=(what_levels + "; " if what_levels else "") + "the same requests at the levels 0, 1 and 2: gids, advances and offsets identical in the same order "
                         "(clusters and flags may differ); requests whose ranged feature bounds may fall inside a grapheme are counted "
                         "and reported separately (mid_grapheme_*), they are outside the hypothesis of the statement"
                         + ("; likewise (kind mid-cluster-ranges) AAT requests with a range bound inside a cluster that an earlier morx "
                            "subtable (rearrangement, ligature) merges at levels 0/1 - morx looks a glyph's range up by the cluster it "
                            "carries when the subtable runs, so such a bound cuts a cluster: outside the property's quantifier (bounds "
                            "inside a cluster), counted, never judged; decided from the level-0 reply (the bound is an input cluster "
                            "value that no level-0 glyph carries)" if runtime_clusters else ""))
    return found


# ------------------------------------------------------------------------------------------------
# structured Hangul (the Hangul shaper composes / decomposes / tags jamo / moves tone marks in preprocess_text)

H_L = [(0x1100, 0x1112), (0x1113, 0x115E), (0x115F, 0x115F), (0xA960, 0xA97C)]     # modern, old, filler, extended-A
H_V = [(0x1161, 0x1175), (0x1176, 0x11A7), (0x1160, 0x1160), (0xD7B0, 0xD7C6)]
H_T = [(0x11A8, 0x11C2), (0x11C3, 0x11FF), (0xD7CB, 0xD7FB)]
H_TONES = [0x302E, 0x302F]


def _pick(r, classes, modern):
    a, b = classes[0] if r.chance(modern, 8) else r.choice(classes[1:])
    return r.range(a, b)


def hangul_text(r):
    """1-3 syllable chunks: <L,V>, <L,V,T> from modern (composable) or old / filler / extended jamo, precomposed LV / LVT,
    <LV,T>, lone jamo; each followed by 0-2 tone marks; sometimes separated by a non-Hangul character"""
    import C12
    out = []
    for _ in range(r.range(1, 3)):
        k = r.below(10)
        m = r.choice([8, 4, 4, 0])         # how modern the jamo of this chunk are
        if k < 3: out += [_pick(r, H_L, m), _pick(r, H_V, m)]
        elif k < 6: out += [_pick(r, H_L, m), _pick(r, H_V, m), _pick(r, H_T, m)]
        elif k == 6: out += [C12.S_BASE + r.below(C12.L_COUNT * C12.V_COUNT) * C12.T_COUNT]
        elif k == 7: out += [C12.S_BASE + r.below(C12.S_COUNT)]
        elif k == 8: out += [C12.S_BASE + r.below(C12.L_COUNT * C12.V_COUNT) * C12.T_COUNT, _pick(r, H_T, m)]
        else: out += [r.choice([_pick(r, H_L, m), _pick(r, H_V, m), _pick(r, H_T, m)])]
        for _ in range(r.choice([0, 0, 1, 1, 1, 2])):
            out.append(r.choice(H_TONES))
        if r.chance(1, 5): out.append(r.choice([0x41, 0x20, 0x25CC, 0x3131]))
    return out[:12]


def hangul_pair_requests(r, per_font):
    """per support variant of C12.FONTS (all syllables / none / LV only / LVT only / mixed / jamo missing / zero-width or
    spacing tone marks / no dotted circle): structured texts, each at the three levels and under a relabelling"""
    import C12
    groups = []
    for fname in sorted(C12.FONTS):
        reg = [f"hangul font {fname} {C12.FONTS[fname]}"]
        reqs = []
        for _ in range(per_font):
            cps = hangul_text(r)
            cl = C02.input_clusters(r, len(cps), r.choice([0, 0, 1, 2, 3]))
            d = r.choice(["l", "l", "l", "-", "r", "t"])
            flags = r.choice([0, 0, 0x10, 3, 4])
            mk = lambda cl_, lv_: " ".join(["shape", fname, d, "Hang", "-", str(flags), str(lv_), "-", "-", "-",
                                           ",".join(f"{c:x}:{k}" for c, k in zip(cps, cl_))])
            name, f = make_map(r)
            lv = r.below(3)
            reqs.append(("relabel", name, f, cl, False, mk(cl, lv), mk([f(x) for x in cl], lv)))
            reqs.append(("levels", "aligned", None, cl, None, mk(cl, 0), mk(cl, 1), mk(cl, 2)))
        groups.append((reg, reqs))
    return groups


def hangul_pre_lines(r, n):
    """`hangul pre` hook requests (preprocess_text_hangul alone, crate and Lean model): the same structured text and support
    spec at the three levels"""
    import C12
    lines = []
    for _ in range(n):
        cps = hangul_text(r)
        cl = C02.input_clusters(r, len(cps), r.choice([0, 0, 1, 2, 3]))
        spec = r.choice(sorted(C12.FONTS.values())) if r.chance(1, 2) else C12.rand_spec(r, cps)
        nodc = 1 if r.chance(1, 5) else 0
        for lv in (0, 1, 2):
            lines.append(C12.pre_line(lv, nodc, spec, cps, cl))
    return lines


def hangul_pre_levels(ctx, shim, r, n):
    """correspondence of the Hangul preprocess model at the three levels + crate-side oracle: the (code point, jamo feature)
    sequence that comes out does not depend on the level (statement of Props/C15.lean, C15_hangul_levels_and_labels)"""
    import C12
    lines = hangul_pre_lines(r, n)
    ctx.correspond("hangul-pre-levels", lines=lines, classify=C12.classify_pre)
    outs = vlib.run_lines(shim, lines)
    bad = []
    for i in range(0, len(lines), 3):
        reps = outs[i:i + 3]
        ks = []
        for x in reps:
            p = C12.parse_pre(x)
            ks.append(None if p is None else [(c, t) for c, _, t in p])
        if not (ks[0] == ks[1] == ks[2]):
            bad.append((len(lines[i]), lines[i:i + 3], reps))
    bad.sort(key=lambda x: x[0])
    for _, ls, reps in bad[:1]:
        ctx.violation(f"preprocess_text_hangul: the cluster level changes the glyph sequence / jamo features ({len(bad)} texts): "
                      f"{ls[0].split()[-1]} -> " + " | ".join(reps),
                      {"stage": "search", "stream": "hangul-pre-levels", "requests": ls, "observed": reps, "count": len(bad)})
    ctx.note_search("hangul-pre-levels", len(lines) // 3, len(lines) // 3, differences=len(bad),
                    rule="structured Hangul texts x support specs through the preprocess hook at levels 0, 1, 2: code points and jamo "
                         "features identical in the same order")


# ------------------------------------------------------------------------------------------------
# AAT: fonts with BOTH morx and feat (no corpus font has one), so that ranged user features reach the AAT map

GAPPY = [1, 2, 3, 4]      # make_map kinds that leave gaps between consecutive labels (3c+7, a*c+b, random gaps, c*c+c)


def relabel_morx_line(ln, f):
    """`morx run ... I <dir> <level> <maxops> <maxlen> <feats> <glyphs>`: clusters of the glyph string and the bounds of
    the ranged features mapped by f"""
    t = ln.split(" ")
    i = t.index("I")
    if t[i + 5] != "-":
        fs = []
        for x in t[i + 5].split(","):
            tag, v, a, b = x.split(":")
            a, b = int(a), int(b)
            if not (a == 0 and b == U32MAX):
                a, b = f(a), f(b)
            fs.append(f"{tag}:{v}:{a}:{b}")
        t[i + 5] = ",".join(fs)
    if t[i + 6] != "-":
        t[i + 6] = ",".join(f"{g}:{f(int(c))}" for g, c in (x.split(":") for x in t[i + 6].split(",")))
    return " ".join(t)


def _morx_glyphs(rep):
    """(successful, glyph string) of a `morx run` reply; the compiled chain flags after ` F ` hold `end - 1` values, which
    are not images under f and are not compared"""
    o = rep.split()
    if not rep.startswith("ok") or len(o) < 4:
        return None
    gl = [] if o[3] == "-" else [tuple(int(v) for v in x.split(":")) for x in o[3].split(",")]
    return o[1], gl


def directed_morx_lines(shim, r, n, per_font=6):
    """`morx run` requests on the directed fonts of aat_font (tags that really switch subtables), glyph strings with
    ascending (consecutive / gapped / repeated) clusters and 1-3 ranged user features with bounds at cluster values"""
    import C17
    fm = featmap(shim)
    lines = []
    while len(lines) < n:
        hexf, tags, _ = aat_font(r, fm)
        rec = aat_font.recipe
        for _ in range(per_font):
            k = r.range(2, 9)
            cl = C02.input_clusters(r, k, r.choice([0, 0, 0, 1, 2, 3]))
            gs = ",".join(f"{1 + r.below(C17.NG - 1)}:{c}" for c in cl)
            fs = []
            for _ in range(r.range(1, 3)):
                i = r.below(k); j = r.choice(list(range(i + 1, k)) + [None])
                a = cl[i]; b = U32MAX if j is None else cl[j]
                fs.append(f"{corpus.tag_hex(r.choice(tags))}:{r.choice([1, 1, 0])}:{a}:{b}")
            lines.append(f"morx run {hexf} R {rec} I {r.choice(['l', 'l', 'r'])} {r.below(3)} - - {','.join(fs)} {gs}")
    return lines[:n]


def morx_relabel(ctx, shim, r, n):
    """hook level (hb_aat_layout_substitute on generated morx + feat fonts, C17's generator): every request and its image
    under a strictly increasing map with gaps — model vs crate on the relabelled requests, crate vs crate for the pair"""
    import C17
    base = C17.run_lines(r, n // 2, with_feat=True, per_font=4) + directed_morx_lines(shim, r, n - n // 2)
    maps = [make_map(r, r.choice(GAPPY + [0])) for _ in base]
    rel = [relabel_morx_line(ln, f) for ln, (_, f) in zip(base, maps)]
    ctx.correspond("morx-run-relabelled", lines=rel, classify=C17.classify_run, canon=C17.canon)
    oa = vlib.run_lines(shim, base, timeout=300)
    ob = vlib.run_lines(shim, rel, timeout=300)
    bad = []
    nontriv = 0
    for ln, ln2, (name, f), a, b in zip(base, rel, maps, oa, ob):
        ga, gb = _morx_glyphs(a), _morx_glyphs(b)
        if ga is None or gb is None:
            if C17.canon(a).split(" F ")[0] != C17.canon(b).split(" F ")[0]:
                bad.append((len(ln), ln, ln2, name, a, b, "replies differ"))
            continue
        if len(a.split()[5].split(",")) > 1: nontriv += 1
        if ga[0] != gb[0] or [(g, f(c)) for g, c in ga[1]] != gb[1]:
            what = "glyphs" if [g for g, _ in ga[1]] != [g for g, _ in gb[1]] else "cluster values"
            bad.append((len(ln), ln, ln2, name, a, b, what))
    # contradicting overlapping settings of one AAT feature type: resolved by activation order (see aat_pair_requests);
    # counted and reported separately
    fm = {corpus.tag_hex(t[0]): t[1:] for t in featmap(shim)}
    def conflicting(ln):
        t = ln.split(); fs = t[t.index("I") + 5]
        fl = [x.split(":") for x in fs.split(",")] if fs != "-" else []
        for i1, (t1, v1, a1, b1) in enumerate(fl):
            for t2, v2, a2, b2 in fl[i1 + 1:]:
                if t1 in fm and t2 in fm and fm[t1][0] == fm[t2][0] and int(a1) < int(b2) and int(a2) < int(b1):
                    if (fm[t1][1] if int(v1) else fm[t1][2]) != (fm[t2][1] if int(v2) else fm[t2][2]): return True
        return False
    # a difference on a request with contradicting settings is attributed to the contradiction only if the image in which the
    # sentinel start 0 of global features is mapped too (same activation order as the original) agrees with the original
    cand = [x for x in bad if conflicting(x[1])]
    bad = [x for x in bad if not conflicting(x[1])]
    confl = []
    if cand:
        def full(ln, f):
            t = ln.split(" "); i = t.index("I")
            t[i + 5] = ",".join(f"{tag}:{v}:{f(int(a))}:{b if int(b) == U32MAX else f(int(b))}" for tag, v, a, b in (x.split(":") for x in t[i + 5].split(",")))
            if t[i + 6] != "-":
                t[i + 6] = ",".join(f"{g}:{f(int(c))}" for g, c in (x.split(":") for x in t[i + 6].split(",")))
            return " ".join(t)
        fmap = {ln: f for ln, (_, f) in zip(base, maps)}
        fo = vlib.run_lines(shim, [full(x[1], fmap[x[1]]) for x in cand], timeout=300)
        for x, o in zip(cand, fo):
            ga, gc = _morx_glyphs(x[4]), _morx_glyphs(o)
            if ga is not None and gc is not None and ga[0] == gc[0] and [(g, fmap[x[1]](c)) for g, c in ga[1]] == gc[1]:
                confl.append(x)
            else:
                bad.append(x)
    bad.sort(key=lambda x: x[0])
    seen = set()
    for _, ln, ln2, name, a, b, what in bad:
        if what in seen: continue
        seen.add(what)
        i = ln.split().index("I")
        ctx.violation(f"morx (hb_aat_layout_substitute): relabelling the clusters by {name} changes {what} ({len(bad)} request pairs): "
                      f"{' '.join(ln.split()[i + 1:])} -> {a.split(' F ')[0]}  but  {' '.join(ln2.split()[i + 1:])} -> {b.split(' F ')[0]}",
                      {"stage": "search", "stream": "morx-relabel", "request": ln, "relabelled_request": ln2, "map": name,
                       "observed": a[:2000], "observed_relabelled": b[:2000], "count": len(bad)})
    ctx.note_search("morx-relabel", len(base), nontriv, deviations=len(bad), conflicting_settings_differences=len(confl),
                    conflicting_settings_note="differences explained by two contradicting overlapping settings of one AAT feature (they "
                                              "vanish when the global features' start is mapped too): the behaviour reported as kind "
                                              "relabel-conflict by shape-relabel/aat; counted here",
                    conflicting_settings_example=({"request": confl[0][1][-200:], "relabelled": confl[0][2][-200:], "map": confl[0][3],
                                                   "replies": [confl[0][4][:300], confl[0][5][:300]]} if confl else None),
                    rule="half: C17's generated morx + feat fonts (all five subtable kinds, random feature tables); half: directed fonts in "
                         "which 2-4 tags really switch subtables (see shape-relabel/aat); glyph strings with ascending / descending / "
                         "repeated / random clusters, 0-3 user features (global, [a,a+k), [a,end), [0,a)), 4 directions, 3 levels; the "
                         "request and its image under c+k / 3c+7 / a*c+b / random gaps / c*c+c (clusters and feature bounds) through the "
                         "substitute hook: same success flag and glyph ids, clusters = f(clusters); non-trivial = a chain compiled to "
                         "more than one range")


_featmap = None


def featmap(shim):
    """[(ot tag, aat feature type, selector to enable, selector to disable)] as the crate has it (`morx featmap` hook)"""
    global _featmap
    if _featmap is None:
        out = vlib.run_lines(shim, ["morx featmap"], nproc=1)[0]
        _featmap = []
        for t in out.split():
            p = t.split(":")
            if len(p) == 4:
                _featmap.append((int(p[0]).to_bytes(4, "big").decode("latin1"), int(p[1]), int(p[2]), int(p[3])))
    return _featmap


def aat_font(r, fm):
    """a morx + feat font in which 2-4 OpenType tags really switch subtables: tag i owns the flag bit 2<<i; its AAT
    (type, selector-to-enable) sets the bit, (type, selector-to-disable) clears it; 1-5 subtables (non-contextual most
    often, also contextual / ligature / rearrangement) are keyed to one of the bits or to the always-on bit 1.
    Returns (font hex, tags, {aat type: exclusive})"""
    import C17
    tags = []
    for t in r.shuffle(fm):
        if len(tags) < r.range(2, 4) and t[0] != "aalt":
            tags.append(t)
    chains = []
    for _ in range(r.choice([1, 1, 2])):
        feats, default = [], 1
        for i, (tag, ty, on, off) in enumerate(tags):
            bit = 2 << i
            feats.append((ty, on, bit, 0xFFFFFFFF))
            feats.append((ty, off, 0, 0xFFFFFFFF ^ bit))
            if r.chance(1, 3): default |= bit
        subs = []
        for _ in range(r.range(1, 5)):
            st = C17.rand_subtable(r, (4, 4, 4, 4, 1, 2, 0), wf=True)
            st["flags"] = r.choice([2 << r.below(len(tags)), 2 << r.below(len(tags)), 1, (2 << r.below(len(tags))) | (2 << r.below(len(tags)))])
            st["coverage"] = st["coverage"] & 0x7F     # horizontal
            subs.append(st)
        chains.append({"default": default, "features": r.shuffle(feats) if r.chance(1, 4) else feats, "subtables": subs})
    morx, tok = C17.build_morx(r, chains, C17.NG)
    rows = sorted({ty: (ty, max(on, off) + 1, r.chance(1, 2)) for _, ty, on, off in tags}.values())
    ftok = [C17.NG, 1, len(rows)]
    for ty, ns, ex in rows:
        ftok += [ty, ns, 1 if ex else 0]
    aat_font.recipe = " ".join(map(str, ftok + tok))      # the same tables as tokens, for the Lean driver (`morx run`)
    return C17.build_font(C17.NG, morx, C17.build_feat(rows)).hex(), [t[0] for t in tags], {ty: ex for ty, _, ex in rows}


def aat_pair_requests(shim, r, nfonts, per_font):
    """texts over the font's letters with 1-3 ranged user features (bounds at input cluster values) x {the three levels;
    two relabellings, one of them always with gaps}"""
    import C17
    fm = featmap(shim)
    other = ["kern", "liga", "smcp", "zero", "calt"]
    groups = []
    for k in range(nfonts):
        hexf, tags, excl = aat_font(r, fm)
        fid = f"A{k}"
        reqs = []
        for _ in range(per_font):
            n = r.range(2, 9)
            text = [0x61 + r.below(C17.NG - 1) for _ in range(n)]
            cl = C02.input_clusters(r, n, r.choice([0, 0, 0, 1, 2, 3]))
            starts = [i for i in range(n) if i == 0 or cl[i - 1] < cl[i]]
            feats = []
            for _ in range(r.range(1, 3)):
                i = r.choice(starts); j = r.choice([x for x in starts if x > i] + [None])
                a = cl[i]; b = U32MAX if j is None else cl[j]
                if a == cl[0] and b == U32MAX and r.chance(1, 2): a = 0
                feats.append((r.choice(tags) if r.chance(5, 6) else r.choice(other), r.choice([1, 1, 0]), a, b))
            if r.chance(1, 6):     # the same tag once more with the opposite value, globally or from the first cluster on
                t0, v0, a0, b0 = feats[0]
                feats.insert(r.below(len(feats) + 1), (t0, 1 - v0, 0, U32MAX if r.chance(2, 3) else max(b0, cl[-1] + 1)))
            # two overlapping settings of one AAT feature that contradict each other (same type; exclusive, or the same
            # even/odd selector pair): hb_aat_map_builder_t::compile keeps the one that became active first, ties by list
            # order - "first" compares a ranged start with the sentinel start 0 of a global feature numerically
            conflict = False
            sel = {t[0]: (t[1], t[2], t[3]) for t in fm}
            for i1, (t1, v1, a1, b1) in enumerate(feats):
                for t2, v2, a2, b2 in feats[i1 + 1:]:
                    if t1 in sel and t2 in sel and sel[t1][0] == sel[t2][0] and a1 < b2 and a2 < b1:
                        s1 = sel[t1][1] if v1 else sel[t1][2]; s2 = sel[t2][1] if v2 else sel[t2][2]
                        if s1 != s2 and (excl.get(sel[t1][0]) or (s1 & ~1) == (s2 & ~1)): conflict = True
            d = r.choice(["l", "l", "l", "r", "-"])
            flags = r.choice([0, 0, 3])
            mk = lambda cl_, feats_, lv_: " ".join(["shape", fid, d, "-", "-", str(flags), str(lv_),
                                                     ",".join(f"{corpus.tag_hex(t)}:{v}:{x}:{y}" for t, v, x, y in feats_), "-", "-",
                                                     ",".join(f"{c:x}:{q}" for c, q in zip(text, cl_))])
            lv = r.below(3)
            for kind in (r.choice(GAPPY), None):
                name, f = make_map(r, kind)
                reqs.append(("relabel", name, f, cl, "conflict" if conflict else True, mk(cl, feats, lv),
                             mk([f(x) for x in cl], map_feats(feats, f), lv)))
            reqs.append(("levels", "aligned", None, cl, None, mk(cl, feats, 0), mk(cl, feats, 1), mk(cl, feats, 2)))
        groups.append(([f"font {fid} {hexf}"], reqs))
    return groups



# ------------------------------------------------------------------------------------------------
# multi-character graphemes that are NOT base + combining mark, point / pixel sizes, AAT tracking (trak)
#
# `form_clusters` merges a grapheme into one cluster only at level 0; any later step that groups by cluster value where it
# means "grapheme" (or the other way round) makes positions depend on the level.  Continuation characters that keep a glyph and
# a position of their own to the end are the ones that show it: regional-indicator pairs, emoji ZWJ sequences, emoji
# modifiers, halfwidth voiced marks, tag sequences, variation selectors, Hangul jamo, prepended concatenation marks.

G_EMOJI = [0x1F469, 0x1F468, 0x1F4BB, 0x1F44B, 0x1F466, 0x2764, 0x1F3F3, 0x1F308, 0x1F9D1]
G_MODS = list(range(0x1F3FB, 0x1F400))
G_RI = list(range(0x1F1E6, 0x1F200))
G_KANA = [0xFF76, 0xFF77, 0xFF8A, 0x30AB, 0x304B]
G_MARKS = [0x301, 0x308, 0x323, 0x20DD]
G_TAGS = list(range(0xE0061, 0xE007B))


def grapheme_chunk(r, letters):
    """one extended grapheme cluster (a list of code points) of a random kind"""
    k = r.below(12)
    if k == 0: return [r.choice(G_RI), r.choice(G_RI)]
    if k == 1:
        out = [r.choice(G_EMOJI)]
        for _ in range(r.range(1, 2)):
            out += [0x200D, r.choice(G_EMOJI)]
        return out
    if k == 2: return [r.choice(G_EMOJI), r.choice(G_MODS)]
    if k == 3: return [r.choice(G_KANA), r.choice([0xFF9E, 0xFF9F])]
    if k == 4: return [0x1F3F4] + [r.choice(G_TAGS) for _ in range(r.range(1, 3))] + [0xE007F]
    if k == 5: return [r.choice(G_EMOJI + letters), 0xFE0F] + ([0x20E3] if r.chance(1, 3) else [])
    if k == 6: return [r.choice(letters)] + [r.choice(G_MARKS) for _ in range(r.range(1, 2))]
    if k == 7: return [r.choice([0x1100, 0x1112, 0x115F]), r.choice([0x1161, 0x1175, 0x1160])] + ([r.choice([0x11A8, 0x11C2])] if r.chance(1, 2) else [])
    if k == 8: return [r.choice(letters), 0x200D, r.choice(letters)] if r.chance(1, 2) else [r.choice(letters), 0x034F]
    if k == 9: return [r.choice(G_EMOJI), r.choice(G_MODS), 0x200D, r.choice(G_EMOJI), 0xFE0F]
    return [r.choice(letters)]


def grapheme_text(r, letters):
    """1-4 graphemes: mostly multi-character ones of the kinds above, single letters of the font in between"""
    out = []
    for _ in range(r.range(1, 4)):
        out += grapheme_chunk(r, letters) if r.chance(3, 4) else [r.choice(letters)]
    return out[:14]


def cp_grapheme_starts(cps):
    """indices at which an extended grapheme cluster starts (python rendering of the rules that matter for the generated texts:
    no break before Extend / ZWJ / SpacingMark / emoji modifier / tag / VS / halfwidth voiced marks, none after ZWJ before a
    pictograph, regional indicators pair up, Hangul L V T)"""
    import unicodedata
    ok = [0]
    ri_run = 0
    for i in range(1, len(cps)):
        c, p = cps[i], cps[i - 1]
        ri_run = ri_run + 1 if 0x1F1E6 <= p <= 0x1F1FF else 0
        cat = unicodedata.category(chr(c))
        if cat in ("Mn", "Mc", "Me") or c in (0x200D, 0x200C, 0xFF9E, 0xFF9F) or 0x1F3FB <= c <= 0x1F3FF or 0xE0020 <= c <= 0xE007F \
                or 0xFE00 <= c <= 0xFE0F:
            continue
        if p == 0x200D: continue           # conservative: never cut after a joiner
        if 0x1F1E6 <= c <= 0x1F1FF and 0x1F1E6 <= p <= 0x1F1FF and ri_run % 2 == 1: continue
        if 0x1160 <= c <= 0x11FF and 0x1100 <= p <= 0x11FF: continue
        ok.append(i)
    return ok


def aligned_feats(r, cps, cl, tags):
    """0-2 ranged features whose bounds are input cluster values at grapheme starts"""
    starts = [i for i in cp_grapheme_starts(cps) if i == 0 or cl[i - 1] < cl[i]] or [0]
    feats = []
    for _ in range(r.below(3)):
        i = r.choice(starts); j = r.choice([x for x in starts if x >= i] + [None])
        s_ = cl[i]; e_ = U32MAX if j is None else cl[j]
        if s_ == cl[0] and e_ == U32MAX: s_, e_ = 0, U32MAX
        feats.append((r.choice(tags), r.choice([0, 1, 1, 2]), s_, e_))
    return feats


def size_extras(r):
    """ptem= / ppem= of a shape request (the point size switches AAT tracking on)"""
    ex = []
    if r.chance(3, 4): ex.append("ptem=" + r.choice(["9", "12", "24", "72", "144", "0", "11.5", "1000"]))
    if r.chance(1, 3): ex.append("ppem=" + r.choice(["8", "12", "100"]))
    return ex


def trak_table(r):
    """AAT `trak`: horizontal and / or vertical track data, one of the tracks is the normal one (value 0.0)"""
    import struct
    def data(off):
        sizes = sorted(r.sample([6, 9, 12, 18, 24, 72, 144, 288], r.range(1, 5)))
        tracks = sorted(set([0] + [r.choice([-1, 1, 2]) for _ in range(r.below(3))]))
        ns, nt = len(sizes), len(tracks)
        size_off = off + 8 + 8 * nt
        val_off = size_off + 4 * ns
        recs = b"".join(struct.pack(">iHH", t << 16, 256 + k, val_off + 2 * ns * k) for k, t in enumerate(tracks))
        vals = b"".join(struct.pack(">h", r.choice([-120, -60, -15, 7, 30, 85, 160, 333])) for _ in range(ns * nt))
        return struct.pack(">HHI", nt, ns, size_off) + recs + b"".join(struct.pack(">i", z << 16) for z in sizes) + vals
    k = r.below(4)
    hor = data(12) if k != 1 else b""
    ver = data(12 + len(hor)) if k in (1, 2) else b""
    return struct.pack(">IHHHH", 0x00010000, 0, 12 if hor else 0, 12 + len(hor) if ver else 0, 0) + hor + ver


TRAK_LETTERS = [0x41, 0x42, 0x43, 0x20, 0x644, 0x5D0]


def trak_font(r):
    """a font with a trak table and glyphs for every character the grapheme texts use; optionally kern / GPOS kerning / a GDEF
    that classes the marks, so that tracking is applied after each kind of positioning"""
    import fontbuild
    cps = sorted(set(TRAK_LETTERS + G_EMOJI + G_MODS + G_RI[:6] + G_KANA + G_MARKS + G_TAGS[:8] + [0xE007F, 0x1F3F4, 0x200D, 0x200C,
                     0xFE0F, 0x20E3, 0x034F, 0xFF9E, 0xFF9F, 0x1100, 0x1112, 0x115F, 0x1161, 0x1175, 0x1160, 0x11A8, 0x11C2]))
    if r.chance(1, 3):
        cps = [c for c in cps if not r.chance(1, 6)]       # some characters missing: .notdef / fallbacks
    cmap = {c: i + 1 for i, c in enumerate(cps)}
    ng = len(cps) + 1
    rec = {"num_glyphs": ng, "cmap": cmap, "advances": [400 + 7 * g for g in range(ng)],
           "vadvances": [900 + 3 * g for g in range(ng)] if r.chance(1, 2) else None,
           "tables": {"trak": trak_table(r)}}
    if rec["vadvances"] is None: del rec["vadvances"]
    k = r.below(4)
    gl = lambda: r.range(1, ng - 1)
    if k == 1:
        rec["kern"] = [{"pairs": [(gl(), gl(), r.range(-80, 80)) for _ in range(6)]}]
    elif k == 2:
        first = sorted(set(gl() for _ in range(4)))
        rec["gpos"] = {"features": [{"tag": "kern", "lookups": [0]}],
                       "lookups": [{"type": 2, "flag": 0, "subtables": [{"format": 1, "coverage": first, "pairsets": [
                           [(s2, {"xAdvance": r.range(-70, 70)}, None) for s2 in sorted(set(gl() for _ in range(4)))] for _ in first]}]}]}
    if r.chance(1, 2):
        rec["gdef"] = {"classes": {cmap[c]: 3 for c in G_MARKS + [0xFF9E, 0xFF9F] if c in cmap and r.chance(3, 4)}}
    return fontbuild.build(rec).hex()


def grapheme_pair_requests(r, ncorpus, nsynth, per_font):
    """the corpus TRAK.ttf, `nsynth` generated trak fonts and `ncorpus` corpus fonts (with the script / language / features of
    one of their fixtures) x grapheme texts x point / pixel sizes: three levels, and one relabelling"""
    import os
    groups = []
    fonts = []
    trakttf = os.path.join(vlib.REPO, "tests", "fonts", "in-house", "TRAK.ttf")
    if os.path.exists(trakttf):
        fonts.append(("T0", [f"fontfile T0 {trakttf} 0"], [0x41, 0x42, 0x43], None, 3))
    for k in range(nsynth):
        fonts.append((f"S{k}", [f"font S{k} {trak_font(r)}"], TRAK_LETTERS, None, 1))
    cg = corpus.font_groups(corpus.load())
    for fid, reg, cs in r.sample(cg, ncorpus):
        letters = sorted({ord(ch) for c in cs for ch in c.text})[:200]
        fonts.append((fid, [reg], letters, cs, 1))
    for fid, reg, letters, cs, weight in fonts:
        reqs = []
        for _ in range(per_font * weight):
            cps = grapheme_text(r, letters)
            text = "".join(map(chr, cps))
            cl = C02.input_clusters(r, len(cps), r.choice([0, 0, 1, 2, 3]))
            d = r.choice(["l", "l", "r", "t", "b", None])
            flags = r.choice([0, 0, 0, 3, 8, 0x10])
            feats = aligned_feats(r, cps, cl, ["trak", "kern", "liga", "mark", "ccmp", "smcp"])
            if r.chance(1, 8): feats.append(("trak", 0, 0, U32MAX))
            ex = size_extras(r)
            if cs is None:
                mk = lambda cl_, feats_, lv_: " ".join(["shape", fid, d or "-", "-", "-", str(flags), str(lv_),
                                                         ",".join(f"{corpus.tag_hex(t)}:{v}:{x}:{y}" for t, v, x, y in feats_) or "-",
                                                         "-", "-", ",".join(f"{c:x}:{q}" for c, q in zip(cps, cl_))] + ex)
            else:
                c = r.choice(cs)
                # the fixture's global features; its ranged ones are numbered for the fixture's own text
                base = [x for x in (explicit_feats(c) or []) if x[2] == 0 and x[3] == U32MAX]
                exx = [kv for kv in other_extra(c) if not kv.startswith(("ptem=", "ppem="))] + ex
                mk = lambda cl_, feats_, lv_, c=c, base=base, exx=exx: c.shape_line(fid, text=text, clusters=cl_, dir=d or c.dir, level=lv_,
                                                                                      flags=flags, feats=base + feats_, extra=exx)
            ranged = any(not (a == 0 and b == U32MAX) for _, _, a, b in feats)
            name, f = make_map(r)
            lv = r.below(3)
            reqs.append(("relabel", name, f, cl, ranged, mk(cl, feats, lv), mk([f(x) for x in cl], map_feats(feats, f), lv)))
            reqs.append(("levels", "aligned", None, cl, None, mk(cl, feats, 0), mk(cl, feats, 1), mk(cl, feats, 2)))
        groups.append((reg, reqs))
    return groups


# ------------------------------------------------------------------------------------------------
# generated GSUB(+GPOS) fonts that DELETE glyphs, followed by lookups of RANGED user features
#
# Glyph deletion (MultipleSubst to the empty sequence, directly or nested in a contextual lookup) is where the buffer
# has to merge a cluster *backward* (delete_glyph): which earlier glyphs are touched depends on which glyphs share a cluster
# value, i.e. on the cluster level.  Whatever such a merge writes besides cluster values and glyph flags (feature bits of the
# mask, glyph properties …) makes a later lookup act on level-dependent glyphs.  The buffer runs with descending clusters in
# every non-native direction, so all directions are drawn for every script.

DEL_ALPHABETS = {
    # name: (letters, combining marks (all Mn: grapheme continuations), script tag, native horizontal direction)
    "latin": (list(range(0x61, 0x68)), [0x301, 0x308, 0x323, 0x327], "Latn", "l"),
    "cyrillic": (list(range(0x430, 0x437)), [0x301, 0x306, 0x308], "Cyrl", "l"),
    "hebrew": (list(range(0x5D0, 0x5D7)), [0x5B4, 0x5B7, 0x5BC, 0x5C1], "Hebr", "r"),
    "arabic": ([0x628, 0x62A, 0x62C, 0x633, 0x644, 0x645, 0x646], [0x64E, 0x650, 0x651, 0x652], "Arab", "r"),
}
DEL_ON_TAGS = ["ccmp", "liga", "calt", "rlig", "locl", "clig", "rclt"]            # on by default in every shaper
DEL_USER_TAGS = ["ss01", "ss02", "ss03", "ss04", "ss05", "smcp", "salt", "dlig", "hist", "swsh", "c2sc", "zero"]


def del_recipe(r):
    """a fontbuild recipe + (letters, marks, script, native dir, feature tags in lookup order, tags of deleting features).
    Glyphs 1..k are letters, k+1..k+m combining marks (optionally GDEF class 3), further ids are FRESH glyphs that only one
    substitution produces (the output glyph tells which lookup acted on which glyph).  3-7 lookups in random order with at
    least one deleting lookup that is not the last and a one-for-one substitution after it:
      del      MultipleSubst, empty sequence for 1-3 letters / marks / derived glyphs (sometimes also 1-2 glyph sequences)
      ctxdel   (Chain)Context format 3 over letters / marks whose record applies a deleting leaf to one input position
      single   SingleSubst letters / marks / derived -> fresh glyphs          multi    MultipleSubst -> two fresh glyphs
      lig      LigatureSubst letter + letter | letter + mark -> fresh glyph   ctxsingle  contextual wrapper of a single leaf
    each top-level lookup belongs to one feature: an on-by-default tag or an off-by-default (user) tag; in half of the fonts
    a GPOS table with 1-2 SinglePos lookups (advance / placement of letters, marks and derived glyphs) under user tags or
    kern / dist.  No font has a space glyph: invisible default ignorables are deleted in place before GPOS."""
    import fontbuild
    alpha = r.choice(sorted(DEL_ALPHABETS))
    letters_cp, marks_cp, script, native = DEL_ALPHABETS[alpha]
    k = r.range(3, 6); m = r.range(2, 3)
    letters_cp = letters_cp[:k]; marks_cp = r.sample(marks_cp, m)
    L = list(range(1, k + 1)); Mk = list(range(k + 1, k + m + 1))
    nxt = [k + m + 1]
    def fresh():
        nxt[0] += 1
        return nxt[0] - 1
    derived = []
    lookups, top = [], []          # top: [(lookup index, kind)]
    def dom(lo, hi, pool=None):
        pool = (L + Mk + derived[-6:]) if pool is None else pool
        return sorted(set(r.sample(pool, r.range(lo, min(hi, len(pool))))))
    def leaf_del():
        cov = dom(1, 3)
        seqs = [[] if r.chance(4, 5) else [r.choice(L + Mk) for _ in range(r.range(1, 2))] for _ in cov]
        if all(seqs): seqs[r.below(len(seqs))] = []
        lookups.append({"type": 2, "flag": 0, "subtables": [{"coverage": cov, "sequences": seqs}]})
        return len(lookups) - 1
    def leaf_single():
        cov = dom(3, k + m + 2)
        sub = [fresh() for _ in cov]; derived.extend(sub)
        lookups.append({"type": 1, "flag": 0, "subtables": [{"format": 2, "coverage": cov, "subst": sub}]})
        return len(lookups) - 1
    def ctx(leaf):
        n_in = r.range(1, 3)
        inp = [dom(1, 4, L + Mk) for _ in range(n_in)]
        recs = [(r.below(n_in), leaf)]
        if r.chance(1, 2):
            st = {"format": 3, "coverages": inp, "lookups": recs}; t = 5
        else:
            st = {"format": 3, "backtrack": [dom(1, 5, L + Mk) for _ in range(r.below(2))], "coverages": inp,
                  "lookahead": [dom(1, 5, L + Mk) for _ in range(r.below(2))], "lookups": recs}; t = 6
        lookups.append({"type": t, "flag": r.choice([0, 0, 0, 8]) if gdef else 0, "subtables": [st]})
        return len(lookups) - 1
    gdef = r.chance(2, 3)
    nl = r.range(3, 7)
    kinds = [r.choice(["del", "ctxdel", "single", "single", "single", "multi", "lig", "ctxsingle"]) for _ in range(nl)]
    d = r.below(nl - 1)
    if not any(x in ("del", "ctxdel") for x in kinds[:nl - 1]): kinds[d] = r.choice(["del", "del", "ctxdel"])
    first_del = min(i for i, x in enumerate(kinds) if x in ("del", "ctxdel"))
    if not any(x in ("single", "ctxsingle") for x in kinds[first_del + 1:]): kinds[r.range(first_del + 1, nl - 1)] = "single"
    for kind in kinds:
        if kind == "del": top.append((leaf_del(), kind))
        elif kind == "ctxdel": top.append((ctx(leaf_del()), kind))
        elif kind == "single": top.append((leaf_single(), kind))
        elif kind == "ctxsingle": top.append((ctx(leaf_single()), kind))
        elif kind == "multi":
            cov = dom(1, 3)
            seqs = [[fresh(), fresh()] for _ in cov]; derived.extend(g for q in seqs for g in q)
            lookups.append({"type": 2, "flag": 0, "subtables": [{"coverage": cov, "sequences": seqs}]})
            top.append((len(lookups) - 1, kind))
        else:
            cov = dom(1, 3, L)
            sets = []
            for _ in cov:
                g = fresh(); derived.append(g)
                sets.append([{"components": [r.choice(L + Mk)], "glyph": g}])
            lookups.append({"type": 4, "flag": r.choice([0, 0, 8]) if gdef else 0, "subtables": [{"coverage": cov, "ligsets": sets}]})
            top.append((len(lookups) - 1, kind))
    # lookups are applied in lookup-list order = the order of `kinds` (a nested leaf sits right before its wrapper and is
    # not referenced by a feature)
    on = r.sample(DEL_ON_TAGS, r.range(1, 3)); user = r.sample(DEL_USER_TAGS, r.range(2, 5))
    feats, by_tag, del_tags = [], {}, set()
    for li, kind in top:
        deleting = kind in ("del", "ctxdel")
        t = r.choice(on + user) if deleting else (r.choice(user) if r.chance(4, 5) else r.choice(on))
        by_tag.setdefault(t, []).append(li)
        if deleting: del_tags.add(t)
    for t in on + user:
        if t in by_tag: feats.append({"tag": t, "lookups": by_tag[t]})
    n = nxt[0]
    rec = {"num_glyphs": n, "cmap": {**{c: g for c, g in zip(letters_cp, L)}, **{c: g for c, g in zip(marks_cp, Mk)}},
           "advances": [300 + 23 * g for g in range(n)], "gsub": {"features": feats, "lookups": lookups}}
    if gdef:
        rec["gdef"] = {"classes": {**{g: 1 for g in L}, **{g: 3 for g in Mk}}}
    gpos_tags = []
    if r.chance(1, 2):
        gpos_tags = r.sample(user + ["kern", "dist"], r.range(1, 2))
        gl = []
        for _ in gpos_tags:
            cov = sorted(set(r.sample(list(range(1, n)), r.range(3, min(10, n - 1)))))
            gl.append({"type": 1, "flag": 0, "subtables": [{"format": 2, "coverage": cov, "values": [
                {"xAdvance": r.range(5, 90)} if r.chance(2, 3) else {"xPlacement": r.range(5, 90), "yPlacement": r.range(5, 90)} for _ in cov]}]})
        rec["gpos"] = {"features": [{"tag": t, "lookups": [i]} for i, t in enumerate(gpos_tags)], "lookups": gl}
    tags = [f["tag"] for f in feats] + [t for t in gpos_tags if t not in by_tag]
    return rec, letters_cp, marks_cp, script, native, tags, on, sorted(del_tags)


DEL_IGNORABLES = [0x200B, 0x00AD, 0x2060, 0x034F, 0x200C, 0xFE00]     # ZWSP, SHY, WJ (graphemes of their own); CGJ, ZWNJ, VS1 (continuations)


def del_text(r, letters, marks):
    """2-5 graphemes: letter + 0-2 combining marks (at least one grapheme of several characters in 5 of 6 texts); in one text
    of three, 1-2 default ignorables after some grapheme or inside it (the generated fonts have no space glyph, so
    hide_default_ignorables deletes them IN PLACE — delete_glyphs_inplace — between GSUB and GPOS)"""
    while True:
        out = []
        di = r.choice([0, 0, 1, 2])
        for _ in range(r.range(2, 5)):
            out.append(r.choice(letters))
            for _ in range(r.choice([0, 0, 1, 1, 1, 2])):
                out.append(r.choice(marks))
                if di and r.chance(1, 4): out.append(r.choice(DEL_IGNORABLES[3:])); di -= 1
            if di and r.chance(1, 2): out.append(r.choice(DEL_IGNORABLES)); di -= 1
        if len(out) <= 12 and (len(out) > sum(1 for c in out if c in letters) or r.chance(1, 6)):
            return out


def del_pair_requests(r, nfonts, per_font):
    """generated deleting fonts x texts of base + mark graphemes x five directions (explicit script or guessed) x input
    numberings x feature lists: every feature of the font absent / global on / global off / on or off on 1-2 ranges whose
    bounds are input cluster values at grapheme starts; the deleting features are kept active somewhere.  Each request at the
    three levels and under one relabelling."""
    import fontbuild
    groups = []
    stats = {"fonts": 0, "non-native": 0, "ranged": 0}
    for fi in range(nfonts):
        rec, letters, marks, script, native, tags, on, del_tags = del_recipe(r)
        fid = f"D{fi}"
        reqs = []
        for _ in range(per_font):
            cps = del_text(r, letters, marks)
            cl = C02.input_clusters(r, len(cps), r.choice([0, 0, 1, 2, 3]))
            starts = [i for i in cp_grapheme_starts(cps) if i == 0 or cl[i - 1] < cl[i]] or [0]
            d = r.choice(["l", "r", "t", "b", "l", "r", None])
            feats = []
            for t in tags:
                must = t in del_tags and t not in on
                k = r.below(8)
                if k == 0 and not must: continue                         # absent: the shaper's default
                if k == 1 or (k == 0 and must): feats.append((t, 1, 0, U32MAX)); continue
                if k == 2 and not must: feats.append((t, 0, 0, U32MAX)); continue
                for _ in range(r.choice([1, 1, 2])):                     # ranged
                    i = r.choice(starts); j = r.choice([x for x in starts if x > i] + [None])
                    s_ = cl[i]; e_ = U32MAX if j is None else cl[j]
                    if s_ == cl[0] and e_ == U32MAX: s_, e_ = 0, U32MAX
                    feats.append((t, r.choice([1, 1, 1, 0, 2]) if not must else 1, s_, e_))
            if r.chance(1, 3): feats = r.shuffle(feats)
            flags = r.choice([0, 0, 0, 3, 4, 8, 0x40])
            sc = script if r.chance(3, 4) else "-"
            mk = lambda cl_, feats_, lv_: " ".join(["shape", fid, d or "-", sc, "-", str(flags), str(lv_),
                                                     ",".join(f"{corpus.tag_hex(t)}:{v}:{x}:{y}" for t, v, x, y in feats_) or "-",
                                                     "-", "-", ",".join(f"{c:x}:{q}" for c, q in zip(cps, cl_))])
            ranged = any(not (a == 0 and b == U32MAX) for _, _, a, b in feats)
            name, f = make_map(r)
            lv = r.below(3)
            reqs.append(("relabel", name, f, cl, ranged, mk(cl, feats, lv), mk([f(x) for x in cl], map_feats(feats, f), lv)))
            reqs.append(("levels", "aligned", None, cl, None, mk(cl, feats, 0), mk(cl, feats, 1), mk(cl, feats, 2)))
            if d is not None and ((d in "lr" and d != native) or d == "b"): stats["non-native"] += 1
            if ranged: stats["ranged"] += 1
        stats["fonts"] += 1
        groups.append(([f"font {fid} {fontbuild.build(rec).hex()}"], reqs))
    del_pair_requests.stats = stats
    return groups


def trak_streams(ctx, shim, r, nfonts, per_font):
    """AAT tracking alone (hook: hb_aat_layout_track on a bare buffer prepared by set_unicode_props + form_clusters at each of
    the three levels).  Correspondence: the crate against the model `Trak.trackAll` the theorems C15_trak_opaque /
    C15_trak_levels are about (the tracking amount, which the crate interpolates in floats, is read off a one-glyph probe and
    handed to the model).  Oracle on the crate alone: the positions after tracking are the same at the three levels."""
    import os
    fonts = []
    trakttf = os.path.join(vlib.REPO, "tests", "fonts", "in-house", "TRAK.ttf")
    if os.path.exists(trakttf):
        fonts.append(open(trakttf, "rb").read().hex())
    fonts += [trak_font(r) for _ in range(nfonts)]
    texts, preps = [], []
    for fi, hexf in enumerate(fonts):
        for _ in range(per_font):
            cps = grapheme_text(r, TRAK_LETTERS)
            cl = C02.input_clusters(r, len(cps), r.choice([0, 0, 1, 2, 3]))
            ptem = r.choice(["9", "12", "24", "72", "144", "11.5", "1000", "0"])
            d = r.choice(["l", "l", "r", "t", "b"])
            on = [not r.chance(1, 6) for _ in cps]
            # the mask is set per cluster range by set_masks: constant inside a grapheme for ranges aligned to graphemes
            st = set(cp_grapheme_starts(cps))
            for i in range(len(cps)):
                if i not in st: on[i] = on[i - 1]
            texts.append((fi, cps, cl, ptem, d, on))
            for lv in (0, 1, 2):
                preps.append(f"trak prep {lv} " + ",".join(f"{c:x}:{k}" for c, k in zip(cps, cl)))
    pr = vlib.run_lines(shim, preps)
    probes = sorted({(fi, ptem, d) for fi, _, _, ptem, d, _ in texts})
    po = vlib.run_lines(shim, [f"trak apply {fonts[fi]} {ptem} {d} 0 0 0.0.1" for fi, ptem, d in probes])
    amount = {}
    for (fi, ptem, d), x in zip(probes, po):
        v = [int(z) for z in x.split()[1].split(":")] if x.startswith("ok") else None
        amount[(fi, ptem, d)] = None if v is None else (v[0] - 1000 if d in "lr" else v[1] - 1000)
    lines, meta = [], []
    for ti, (fi, cps, cl, ptem, d, on) in enumerate(texts):
        t = amount[(fi, ptem, d)]
        if t is None: continue
        for lv in (0, 1, 2):
            p = pr[3 * ti + lv]
            if not p.startswith("ok"): continue
            items = [f"{kc}.{1 if o else 0}" for kc, o in zip(p.split()[1].split(","), on)]
            lines.append(f"trak apply {fonts[fi]} {ptem} {d} {lv} {t} " + ",".join(items))
            meta.append((ti, lv, t))
    def classify(ln, out):
        q = ln.split()
        return ["level:" + q[5], "dir:" + q[4], "amount:" + ("0" if q[6] == "0" else "nonzero"),
                "multi-char-grapheme" if ".1." in q[7] else "single-char-graphemes"]
    ctx.correspond("trak-apply", lines=lines, classify=classify)
    outs = vlib.run_lines(shim, lines)
    by_text = {}
    for (ti, lv, t), ln, x in zip(meta, lines, outs):
        by_text.setdefault(ti, {})[lv] = (ln, x, t)
    bad = []
    nontriv = 0
    for ti, d3 in by_text.items():
        if len(d3) < 3: continue
        if d3[0][2] != 0 and ".1." in d3[1][0].split()[7]: nontriv += 1
        if not (d3[0][1] == d3[1][1] == d3[2][1]):
            bad.append((len(texts[ti][1]), ti, d3))
    bad.sort(key=lambda z: z[0])
    for _, ti, d3 in bad[:1]:
        fi, cps, cl, ptem, d, on = texts[ti]
        ctx.violation(f"AAT tracking depends on the cluster level ({len(bad)} texts): text {' '.join(f'{c:04X}' for c in cps)} clusters {cl} "
                      f"ptem {ptem} dir {d} amount {d3[0][2]}: level 0 -> {d3[0][1]} | level 1 -> {d3[1][1]} | level 2 -> {d3[2][1]}",
                      {"stage": "search", "stream": "trak-levels", "text": [f"{c:04X}" for c in cps], "clusters": cl, "ptem": ptem,
                       "dir": d, "requests": [d3[lv][0] for lv in (0, 1, 2)], "observed": [d3[lv][1] for lv in (0, 1, 2)],
                       "count": len(bad)})
    ctx.note_search("trak-levels", len(by_text), nontriv, differences=len(bad),
                    rule="TRAK.ttf + generated trak fonts x grapheme texts (see shape-levels/graphemes) x sizes x 4 directions; the "
                         "buffer is prepared by the crate itself (set_unicode_props, form_clusters) at each level, trak bits constant "
                         "per grapheme; hb_aat_layout_track through the hook: positions identical at the levels 0, 1, 2; non-trivial = "
                         "non-zero tracking amount and a multi-character grapheme")

def run(ctx):
    ctx.assumptions += [
        "theorems are about the Lean model of the buffer primitives (Buf.lean) and the cluster pipeline pieces (Cluster.lean); the tie "
        "to the crate is the cluster-prims-relabelled correspondence stream (and C02's cluster-prims stream)",
        "that the cluster level changes clusters and flags only rests, inside the buffer, on C15_prims_keep_feature_bits (merges, flag "
        "routines, form_clusters and both deletions write cluster values and glyph flags only: glyph ids and the feature bits of every "
        "mask stay) — checked on the crate by the prims-feature-bits oracle over the same walks (random feature bits in the masks)",
        "of the shapers' own code two pieces that look at clusters / the level are covered by theorems on their models: Hangul "
        "preprocessing (C15_hangul_levels_and_labels; tie: hangul-pre-levels) and the morx non-contextual feature-range lookup "
        "(C15_enabledAt_relabel, C15_relabel_noncontextual; tie: morx-run-relabelled); the other shapers and the GSUB/GPOS "
        "interpreters rest on the paired shape() search (corpus fonts; structured Hangul; generated morx+feat fonts)",
        "outside the hypothesis, counted and shown in the evidence: ranged feature bounds inside a grapheme (OpenType) or inside a "
        "cluster that an earlier morx subtable merges at levels 0/1 (morx looks ranges up by the cluster a glyph carries when "
        "the subtable runs); two overlapping contradicting settings of one AAT feature (resolved by activation order)",
        "relabelling commutes exactly except for records zero-padded by Vec::resize, which are not relabelled (dead slots)",
    ]
    ctx.regen()
    ctx.prove(MODULE)
    shim = vlib.build_harness()
    prim_relabel(ctx, shim, ctx.rng("prims"), ctx.budget(20000, 300000))
    shape_pairs(ctx, shim, ctx.rng("shape"), ctx.budget(400, 2128), ctx.budget(4, 16))
    hangul_pre_levels(ctx, shim, ctx.rng("hangul-pre"), ctx.budget(3000, 60000))
    eval_pairs(ctx, shim, hangul_pair_requests(ctx.rng("hangul"), ctx.budget(300, 6000)), gen="hangul",
               what_relabel="structured Hangul texts (old / modern / extended jamo, composable and not, precomposed syllables, <LV,T>, "
                            "0-2 tone marks per chunk) on 11 support variants (tone marks spacing or zero-width, with / without "
                            "U+25CC), direction l/r/t/guessed, flags",
               what_levels="the same structured Hangul requests")
    eval_pairs(ctx, shim, grapheme_pair_requests(ctx.rng("graphemes"), ctx.budget(40, 300), ctx.budget(8, 60), ctx.budget(10, 40)),
               gen="graphemes",
               what_relabel="texts of 1-4 extended grapheme clusters (regional-indicator pairs, emoji ZWJ sequences, emoji modifiers, "
                            "halfwidth voiced marks, tag sequences, variation selectors / keycaps, base + marks, Hangul jamo, joiners, "
                            "single letters) on tests/fonts/in-house/TRAK.ttf, on generated fonts with an AAT trak table (horizontal "
                            "and / or vertical tracks, 2-5 sizes, optionally kern / GPOS kern / GDEF marks / vmtx / missing glyphs) and "
                            "on a sample of corpus fonts with the script / language / features of one of their fixtures; ptem= "
                            "(9 .. 1000, 0, fractional) and ppem= drawn per request; 5 directions; 0-2 ranged features (trak, kern, "
                            "liga, mark, ccmp, smcp) with bounds at grapheme starts, sometimes trak=0",
               what_levels="the same grapheme requests")
    eval_pairs(ctx, shim, del_pair_requests(ctx.rng("gsub-del"), ctx.budget(300, 4000), ctx.budget(10, 16)), gen="gsub-del",
               what_relabel="generated GSUB fonts (letters + combining marks of Latin / Cyrillic / Hebrew / Arabic, optional GDEF mark "
                            "classes, optional GPOS SinglePos under a user tag) with 3-7 lookups in random order: glyph DELETION "
                            "(MultipleSubst to the empty sequence, directly or nested in a (Chain)Context format 3 lookup) followed by "
                            "single / multiple / ligature / contextual substitutions to fresh glyph ids, each under an on-by-default or "
                            "an off-by-default tag; texts of 2-5 graphemes (letter + 0-2 marks), directions l / r / t / b / guessed "
                            "(so the buffer also runs with descending clusters), script explicit or guessed, every feature absent / "
                            "global on / global off / on or off on 1-2 ranges with bounds at grapheme starts",
               what_levels="the same requests on the deleting GSUB fonts")
    ctx.note_search("shape-levels/gsub-del", 0, 0, generator_stats=del_pair_requests.stats)
    trak_streams(ctx, shim, ctx.rng("trak"), ctx.budget(8, 80), ctx.budget(40, 150))
    morx_relabel(ctx, shim, ctx.rng("morx"), ctx.budget(4000, 60000))
    eval_pairs(ctx, shim, aat_pair_requests(shim, ctx.rng("aat"), ctx.budget(150, 2000), ctx.budget(12, 24)), gen="aat",
               what_relabel="generated AAT fonts with morx AND feat in which 2-4 OpenType tags switch subtables (non-contextual, "
                            "contextual, ligature, rearrangement; 1-2 chains), texts of 2-9 letters, consecutive / gapped / repeated "
                            "input clusters, 1-3 ranged user features with bounds at input cluster values, two maps per request (one "
                            "always with gaps)",
               what_levels="the same AAT requests", runtime_clusters=True)


def replay(ctx, rp):
    shim = vlib.build_harness()
    if rp.get("stream") == "hangul-pre-levels":
        import C12
        o = vlib.run_lines(shim, rp["requests"], nproc=1)
        ks = []
        for q, x in zip(rp["requests"], o):
            print("request:", q); print("reply  :", x)
            p = C12.parse_pre(x); ks.append(None if p is None else [(c, t) for c, _, t in p])
        return 0 if ks[0] == ks[1] == ks[2] else 1
    if rp.get("stream") == "trak-levels":
        o = vlib.run_lines(shim, rp["requests"], nproc=1)
        for lv, (q, x) in enumerate(zip(rp["requests"], o)):
            print(f"level {lv}:", " ".join(q.split()[3:7]), q.split()[7], "->", x)
        return 0 if o[0] == o[1] == o[2] else 1
    if rp.get("stream") == "prims-feature-bits":
        a = vlib.run_lines(shim, [rp["request"]], nproc=1)[0]
        print("request:", rp["request"]); print("reply  :", a[:3000])
        ds = feature_bits_trace(rp["request"], a)
        for d in ds: print("deviation:", d)
        return 1 if ds else 0
    if rp.get("stream") == "prims-relabel":
        a, b = vlib.run_lines(shim, [rp["request"], rp["relabelled_request"]], nproc=1)
        print("request    :", rp["request"]); print("reply      :", a[:3000])
        print("relabelled :", rp["relabelled_request"]); print("reply      :", b[:3000])
        print("map:", rp["map"], "(recorded deviation:", rp["deviation"], ")")
        return 1
    if rp.get("stream", "").startswith("shape-"):
        fl = rp["font_line"] if isinstance(rp["font_line"], list) else [rp["font_line"]]
        o = vlib.run_groups(shim, [fl + rp["requests"]], nproc=1)[0]
        print("font:", [x[:200] for x in fl])
        gls = []
        for q, x in zip(rp["requests"], o[len(fl):]):
            print("request:", q); print("reply  :", x[:3000]); gls.append(C02.parse_shape(x))
        if any(g is None for g in gls): return 1
        if rp["stream"] == "shape-levels":
            s = [sig(g, with_flags=False) for g in gls]
            return 0 if s[0] == s[1] == s[2] else 1
        m = dict(map(tuple, rp["cluster_map"]))
        want = [(g[0], m.get(g[1], -1)) + g[2:] for g in gls[0]]
        print("expected second reply clusters:", [w[1] for w in want], "got:", [g[1] for g in gls[1]])
        return 0 if want == gls[1] else 1
    print(rp); return 1
