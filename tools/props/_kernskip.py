"""Pair kerning ACROSS SKIPPED GLYPHS through shape() (C07): legacy `kern` (OpenType / Apple flavour, format 0) and `kerx`
(formats 0 / 2 / 6) fonts whose pair tables are drawn over ALL glyphs of the font — letters, combining marks, ZWJ / ZWNJ /
soft hyphen / word joiner / variation selectors, CGJ (a HIDDEN default ignorable: skipped all the same in a GPOS context) and
the space glyph on either side — and texts with 0-3 skipped glyphs between the letters.

Oracle (crate alone, two shape() calls on the SAME font): kerning on minus kerning off (`kern=0` over the whole text) is
exactly what the pair walk of the MODEL (PairFlag.lean::machineKernLoopF / Kern.lean::machineKern) gives on the glyphs of
the output in visual order:

    i = 0
    while i < n:  glyph i without the kern mask -> i += 1
                  j = next glyph after i that is neither a GDEF (or synthesised) mark nor a non-hidden default ignorable
                  no such j, or j without the kern mask -> i += 1
                  else kern(gid_i, gid_j): xa[i] += k >> 1, xa[j] += k - (k >> 1), xo[j] += k - (k >> 1);  i = j     (NOT i + 1)

followed by what the pipeline does to every glyph after kerning, whatever its advance is made of: a mark whose advance is
zeroed (zero_mark_widths_by_gdef: seen on the kerning-off reply, every glyph of these fonts has a non-zero hmtx advance)
loses the kerning in its advance too (and, when the zeroing shifts the offset by the advance, the offset takes it), and a
default ignorable that is not preserved is zeroed altogether.  Cluster level 2 (characters): the cluster of an output
glyph is its text index, so the character (hence mark / ignorable / kern-mask status) of every output glyph is known
whatever the normalizer's mark reordering did.

The same oracle judges `pf mk` / `kern mk` requests on which crate and model DISAGREE (promotion): the request's buffer is
rebuilt as a text over a font whose cmap sends a letter / a combining mark / a default ignorable / CGJ to the request's
glyph id, the request's pair table becomes a `kern` table, masked-out glyphs become `kern=0` ranges."""
import vlib
import fontbuild
import _kerx as KX

TAG = lambda t: t.encode().hex()

SCRIPTS = {
    "latn": ([0x41, 0x54, 0x56, 0x57, 0x59, 0x61, 0x6F, 0x72, 0x76], [0x301, 0x308, 0x327, 0x323, 0x30A]),
    "hebr": ([0x5D0, 0x5D1, 0x5D3, 0x5D5, 0x5DC, 0x5DE, 0x5E9, 0x5EA], [0x5B4, 0x5B7, 0x5B8, 0x5BC, 0x5C1]),
    "arab": ([0x627, 0x62F, 0x631, 0x648, 0x628, 0x644, 0x645], [0x64E, 0x650, 0x651, 0x652, 0x670]),
    "pua": ([0xE000 + k for k in range(8)], [0x301, 0x308, 0x327]),
}
MARKS = {m for _, ms in SCRIPTS.values() for m in ms} | set(range(0x300, 0x340))        # general category Mn, not ignorable
DI_SKIPPED = [0x200D, 0x200C, 0xAD, 0x2060, 0xFE00, 0xFE0F, 0x2061, 0x2062, 0x2063, 0xFE01, 0xFE02, 0xFE03]
DI_HIDDEN = [0x34F] + [0xE0020 + k for k in range(12)]       # CGJ, TAG characters: default ignorable AND hidden (GSUB does not
                                                             # skip them; the GPOS-context iterator of the kern machine does)
SPACE = 0x20
PRESERVE, REMOVE = 4, 8


def is_di(cp):
    return cp in DI_SKIPPED or cp in DI_HIDDEN


def glyph_class(sem, cp):
    """-> (GDEF-mark as the kern iterator and the mark zeroing see it, skipped as a default ignorable)"""
    gid = sem["cmap"][cp]
    if sem["gdef"] is None:
        mark = cp in MARKS and not is_di(cp)                 # ot_shape.rs::hb_synthesize_glyph_classes
    else:
        mark = sem["gdef"].get(gid, 0) == 3
    return mark, is_di(cp)


def kern_bytes(kind, subs):
    """C07.kern_table_ot / kern_table_aat over _kerx-style subtable dicts (format 0 only)"""
    import C07
    ks = [{"v": s["v"], "h": s["h"], "c": s["c"], "s": 0,
           "pairs": [((l << 16) | rr, v) for (l, rr), v in sorted(s["pairs"].items())]} for s in subs]
    return C07.kern_table_ot(ks) if kind == "kern-ot" else C07.kern_table_aat(ks)


def skip_font(r):
    script = r.choice(["latn", "latn", "hebr", "hebr", "arab", "arab", "pua"])
    bases_all, marks_all = SCRIPTS[script]
    bases = r.sample(bases_all, r.range(2, 5))
    marks = r.sample(marks_all, r.range(1, 3))
    dis = r.sample(DI_SKIPPED[:6], r.range(1, 3))
    hid = [0x34F] if r.chance(1, 3) else []
    space = [SPACE] if r.chance(2, 3) else []
    chars = r.shuffle(bases + marks + dis + hid + space)
    cmap = {c: k + 1 for k, c in enumerate(chars)}
    ng = len(chars) + 2
    adv = [0] + [r.range(300, 900) for _ in range(ng - 1)]
    rec = {"num_glyphs": ng, "cmap": cmap, "advances": adv}
    g = r.below(10)
    gdef = None
    if g == 0:
        gdef = {0: 1}                                          # a GDEF without a single mark: nothing is skipped as a mark
    elif g < 5:
        gdef = {}
        for c in chars:
            k = cmap[c]
            if c in marks: cl = 3 if r.chance(3, 4) else r.choice([0, 1, 2])
            elif c in bases: cl = 3 if r.chance(1, 6) else r.choice([0, 1, 1, 2])
            elif c == SPACE: cl = r.choice([0, 1, 1, 3])
            else: cl = 3 if r.chance(1, 5) else r.choice([0, 1])
            if cl: gdef[k] = cl
        gdef = gdef or {0: 1}
    if gdef is not None:
        rec["gdef"] = {"classes": dict(gdef)}
    kind = r.choice(["kern-ot", "kern-ot", "kern-ot", "kern-aat", "kerx", "kerx"])
    gl = list(range(1, len(chars) + 1))
    universe = list(range(0, ng + 1))
    subs = []
    for _ in range(r.choice([1, 1, 2, 2, 3])):
        s = KX.rand_sub(r, gl, universe, simple_only=True, fmts=(0, 0, 0, 2, 6) if kind == "kerx" else (0,))
        s["v"], s["c"] = 0, 0
        s["h"] = 0 if r.chance(1, 8) else 1
        if kind == "kern-ot" and not s["h"]: s["h"] = 1
        subs.append(s)
    if kind == "kerx":
        rec["tables"] = {"kerx": KX.kerx_table(subs).hex()}
    else:
        rec["tables"] = {"kern": kern_bytes(kind, subs).hex()}
    sem = {"kind": kind, "script": script, "cmap": cmap, "gdef": gdef, "adv": adv, "subs": subs,
           "bases": bases, "marks": marks, "dis": dis, "hid": hid, "space": space}
    return rec, sem


def skip_text(r, sem):
    """2-4 letters (rarely the space / a hidden ignorable in a letter's place) with 0-3 marks / default ignorables after
    each, sometimes some before the first"""
    skippers = sem["marks"] + sem["dis"] + (sem["hid"] if r.chance(1, 4) else [])

    def run(lo):
        return [r.choice(skippers) for _ in range(r.choice([lo, 1, 1, 2, 3]))]
    text = run(0) if r.chance(1, 4) else []
    for _ in range(r.range(2, 4)):
        text.append(r.choice(sem["bases"]) if r.chance(7, 8) else r.choice(sem["bases"] + sem["space"] + sem["hid"]))
        text += run(0)
    return text


def skip_case(r, sem):
    text = skip_text(r, sem)
    n = len(text)
    d = r.choice(["l", "r", "-", "l", "r", "-", "l", "r", "-", "l", "r", "-", "t", "b"])
    flags = r.choice([0, 0, 0, PRESERVE, PRESERVE, REMOVE])
    k = r.below(6)
    if k < 3: feat = None
    elif k < 4: feat = (1, 0, None)
    else:
        a = r.below(n); b = r.range(a + 1, n)
        feat = (0, a, b)                                    # kern off over [a, b): those glyphs lose the kern mask
    return text, d, flags, feat


def request(fid, d, flags, feats, text):
    t = ",".join(f"{c:x}:{i}" for i, c in enumerate(text))
    return f"shape {fid} {d} - - {flags} 2 {feats} - - {t}"


def feat_token(feat):
    if feat is None: return "-"
    if isinstance(feat, list) and feat and isinstance(feat[0], (list, tuple)):
        return ",".join(f"{TAG('kern')}:{v}:{a}:{b}" for v, a, b in feat) or "-"
    v, a, b = feat
    return f"{TAG('kern')}:{v}:{a if b is not None else 0}:{b if b is not None else 4294967295}"


OFF = f"{TAG('kern')}:0:0:4294967295"


def kern_on(feat, idx):
    if feat is None: return True
    if isinstance(feat, list) and (not feat or isinstance(feat[0], (list, tuple))):
        on = True
        for v, a, b in feat:
            if a <= idx < b: on = bool(v)
        return on
    v, a, b = feat
    if b is None: return bool(v)
    return bool(v) if a <= idx < b else True


def parse_shape(o):
    t = o.split()
    if not t or t[0] != "ok":
        return None
    out = []
    for x in t[2:]:
        g, cl, fl, xa, ya, xo, yo = x.split(":")
        out.append((int(g), int(cl), int(xa), int(ya), int(xo), int(yo)))
    return out


def applicable(s):
    return not s["v"] and s["h"] and s["fmt"] not in (1, 4)


def walk_sub(pairs, gids, skip, on, facts=None):
    """one run of the kern machine as the MODEL runs it -> per-glyph [dxa, dxo]"""
    n = len(gids)
    K = [[0, 0] for _ in range(n)]
    i = 0
    while i < n:
        if not on[i]:
            i += 1; continue
        j = next((q for q in range(i + 1, n) if not skip[q]), None)
        if j is None or not on[j]:
            i += 1; continue
        kv = pairs.get((gids[i], gids[j]), 0)
        if kv:
            k1 = kv >> 1; k2 = kv - k1
            K[i][0] += k1; K[j][0] += k2; K[j][1] += k2
            if facts is not None:
                facts["pairs"] += 1
                if j > i + 1: facts["across_skipped"] += 1
        if facts is not None and any(on[q] and pairs.get((gids[q], gids[j]), 0) for q in range(i + 1, j)):
            facts["tempting"] += 1           # a skipped glyph has a pair of its own with the right glyph
        i = j                                # NOT i + 1: a skipped glyph never starts a pair
    return K


def kern_view(sem, text, d, feat, off):
    """(gids, skip, on, mark, di) of the glyphs the kern pass sees; on = all False when nothing is kerned at all"""
    cls = [glyph_class(sem, text[g[1]]) for g in off]
    on = [d in "lr-" and kern_on(feat, g[1]) for g in off]
    # vertical text: the `vkrn` mask of a font without GPOS is 0, nothing is kerned
    return [g[0] for g in off], [m or di for m, di in cls], on, [m for m, _ in cls], [di for _, di in cls]


def model_walk(sem, text, d, feat, off):
    """the pair walk of the model over the glyphs the kern pass sees, `off` (the kerning-off reply with default ignorables
    preserved: own gid, cluster = text index, ..., in visual order), every applicable subtable in turn
    -> (per-glyph [dxa, dxo] before the zeroing passes, facts)"""
    n = len(off)
    K = [[0, 0] for _ in range(n)]
    facts = {"pairs": 0, "across_skipped": 0, "tempting": 0}
    gids, skip, on, _, _ = kern_view(sem, text, d, feat, off)
    if not any(on):
        return K, facts
    for s in sem["subs"]:
        if not applicable(s):
            continue
        for k, (a, b) in enumerate(walk_sub(s["pairs"], gids, skip, on, facts)):
            K[k][0] += a; K[k][1] += b
    return K, facts


def check(sem, text, d, flags, feat, s_on, s_off, s_full, stats=None):
    """s_on / s_off: the text with kerning as requested / with kern=0; s_full: kern=0 with PRESERVE_DEFAULT_IGNORABLES — the
    glyphs the kern pass walks over (default ignorables are hidden or deleted AFTER positioning) in visual order
    -> (kind, message) or None"""
    a, b, full = parse_shape(s_on), parse_shape(s_off), parse_shape(s_full)
    if a is None or b is None or full is None:
        return ("fail", f"shape() failed on a {sem['kind']} font: {s_on[:80]} / {s_off[:80]} / {s_full[:80]}")
    if [(x[0], x[1]) for x in a] != [(x[0], x[1]) for x in b]:
        return ("order", f"{sem['kind']} font, direction {d}: glyphs / clusters with kerning on differ from kerning off: "
                         f"{[(x[0], x[1]) for x in a]} vs {[(x[0], x[1]) for x in b]}")
    if sorted(x[1] for x in full) != list(range(len(text))) or any(x[0] != sem["cmap"][text[x[1]]] for x in full):
        return ("fail", f"cluster level 2 output with preserved default ignorables is not one glyph per character: "
                        f"{[(x[0], x[1]) for x in full]}")
    # after positioning the default ignorables are deleted (REMOVE_DEFAULT_IGNORABLES, or no space glyph to show instead:
    # the clusters of the neighbours may merge, even at level 2), replaced by the space glyph, or preserved
    space = sem["cmap"].get(SPACE)
    gone = not flags & PRESERVE and (bool(flags & REMOVE) or space is None)
    surv = [k for k, x in enumerate(full) if not (gone and is_di(text[x[1]]))]
    want = [(space if is_di(text[full[k][1]]) and not flags & PRESERVE else full[k][0]) for k in surv]
    if want != [x[0] for x in b]:
        return ("order", f"{sem['kind']} font, direction {d}, flags {flags}: hiding / removing the default ignorables after positioning "
                         f"does not leave the other glyphs in place: glyphs {[x[0] for x in b]}, expected {want} (from "
                         f"{[(x[0], x[1]) for x in full]})")
    Kf, facts = model_walk(sem, text, d, feat, full)
    exp = []
    for k, g in zip(surv, b):
        cp = text[full[k][1]]
        dxa, dxo = Kf[k]
        if g[2] == 0:
            # the glyph's advance is zeroed after kerning (zero_mark_widths_by_gdef, the fallback mark positioning; every hmtx
            # advance of these fonts is >= 300): the kerning in the advance goes with it — into the offset when the zeroing
            # shifts the offset by the advance (seen on the kerning-off reply: offset = -hmtx advance)
            if g[4] == -sem["adv"][sem["cmap"][cp]]:
                dxo -= dxa
            dxa = 0
        if is_di(cp) and not flags & PRESERVE:                # zero_width_default_ignorables
            dxa = dxo = 0
        exp.append([dxa, 0, dxo, 0])
    got = [[x[2] - y[2], x[3] - y[3], x[4] - y[4], x[5] - y[5]] for x, y in zip(a, b)]
    if stats is not None:
        if any(any(v) for v in exp): stats["with_nonzero_delta"] += 1
        for key in facts: stats[key] += 1 if facts[key] else 0
    if got != exp:
        k = next(i for i in range(len(exp)) if got[i] != exp[i])
        cps = " ".join(f"{c:04X}" for c in text)
        return ("delta", f"{sem['kind']} font, direction {d}, flags {flags}, text <{cps}>: output glyph {k} (gid {a[k][0]}, character "
                         f"U+{text[full[surv[k]][1]]:04X}) changes by {got[k]} when kerning is turned on, but the pairs the model selects "
                         f"(skipping marks / default ignorables, the next pair starting at the right glyph) give {exp[k]} "
                         f"(dxa, dya, dxo, dyo); all glyphs: {got} vs {exp}")
    return None


def sem_json(sem):
    return {**sem, "subs": [{**s, "pairs": [[l, rr, v] for (l, rr), v in sorted(s["pairs"].items())], "cls": None}
                            for s in sem["subs"]]}


def sem_unjson(sem):
    sem = dict(sem)
    sem["cmap"] = {int(k): v for k, v in sem["cmap"].items()}
    sem["gdef"] = None if sem["gdef"] is None else {int(k): v for k, v in sem["gdef"].items()}
    sem["subs"] = [{**s, "pairs": {(l, rr): v for l, rr, v in s["pairs"]}} for s in sem["subs"]]
    return sem


def violation_replay(stream, sem, rec, g, t, text, d, flags, feat, res, sx, sp, sf, extra=None):
    rp = {"stage": "search", "stream": stream, "font_line": g[0], "request": g[1 + 3 * t], "off_request": g[2 + 3 * t],
          "full_request": g[3 + 3 * t], "observed": sx, "kerning_off": sp, "kerning_off_preserved": sf,
          "text": text, "dir": d, "flags": flags, "feature": feat, "kind": res[0],
          "sem": sem_json(sem), "recipe": rec}
    if extra: rp.update(extra)
    return rp


def up_of(cp, mark):
    """unicode_props as buffer.rs computes them, as far as the iterator reads them (ignorable / hidden / ZWJ / ZWNJ bits)"""
    if cp == 0x200D: return 0x121
    if cp == 0x200C: return 0x221
    if cp in DI_HIDDEN: return 0x6C if cp == 0x34F else 0x61
    if cp in DI_SKIPPED: return 0xAC if 0xFE00 <= cp <= 0xFE0F else 0x21
    return 0x8C if cp in MARKS else 7


def tie_requests(sem, text, d, feat, full):
    """`pf mk` requests (one per applicable subtable, zero positions) for the glyphs the kern pass saw, and python's walk"""
    gids, skip, on, mark, di = kern_view(sem, text, d, feat, full)
    if not any(on):
        return []
    infos = ",".join(f"{g}:{256 if o else 0}:{8 if m else 2}:{up_of(text[x[1]], m)}:{k}"
                     for k, (g, o, m, x) in enumerate(zip(gids, on, mark, full)))
    out = []
    for s in sem["subs"]:
        if not applicable(s):
            continue
        pt = ",".join(f"{a}:{b}:{v}" for (a, b), v in sorted(s["pairs"].items()) if v) or "-"
        ln = f"pf mk l {len(gids)} 256 0 0 2 {pt} {infos} | " + " ".join("0:0:0:0:0:0" for _ in gids)
        out.append((ln, walk_sub(s["pairs"], gids, skip, on)))
    return out


def model_tie(ctx, shim, ties):
    """python's walk (the oracle of the two searches) against the Lean model AND the crate's private machine_kern on the very
    glyph lists the searches judged"""
    lines = [ln for ln, _ in ties]
    if not lines:
        ctx.note_search("kern-skip-oracle-tie", 0, 0, rule="nothing to tie"); return
    model = vlib.build_model()
    om, oc = vlib.run_lines(model, lines), vlib.run_lines(shim, lines)
    nbad, nz = 0, 0
    for (ln, K), m, c in zip(ties, om, oc):
        want = " ".join(f"{a}:0:{b}:0:0:0" for a, b in K)
        got = {"model": " ".join(m.split()[4:]) if m.startswith("ok ") else m, "crate": " ".join(c.split()[4:]) if c.startswith("ok ") else c}
        if any(a or b for a, b in K): nz += 1
        for who in ("model", "crate"):
            if got[who] != want:
                nbad += 1
                if nbad <= 2:
                    ctx.violation(f"the pair walk of the kern-skip-shape oracle and the {who}'s machine_kern disagree on a glyph list "
                                  f"the search judged: {got[who][:300]} vs {want[:300]}",
                                  {"stage": "search", "stream": "kern-skip-oracle-tie", "request": ln, "side": who,
                                   "oracle_positions": want, "model": m[:600], "impl": c[:600]})
    ctx.note_search("kern-skip-oracle-tie", len(lines), nz, deviations=nbad,
                    rule="the glyph lists the kern pass saw in the kern-skip-shape / promoted-kern-machine cases (own glyph ids, kern "
                         "mask per glyph from the feature ranges, mark / default-ignorable status as the oracle derives it from the "
                         "recipe) as `pf mk` requests, one per applicable subtable, zero positions: the Lean model "
                         "(PairFlag.machineKernF) and the crate's private machine_kern must both give the positions of python's "
                         "pair walk — the oracle's walk IS the model's; non-trivial = some pair kerned")


def run_cases(ctx, shim, stream, cases, stats, limit=2, extra=None, ties=None, ntie=0):
    """cases: [(rec, sem, [(text, d, flags, feat), ...])] -> number of deviations; reports the shortest `limit`"""
    groups = []
    for f, (rec, sem, ms) in enumerate(cases):
        lines = [f"font K{f} {fontbuild.hexfont(rec)}"]
        for text, d, flags, feat in ms:
            lines += [request(f"K{f}", d, flags, feat_token(feat), text), request(f"K{f}", d, flags, OFF, text),
                      request(f"K{f}", d, (flags | PRESERVE) & ~REMOVE, OFF, text)]
        lines.append(f"fontdrop K{f}")
        groups.append(lines)
    outs = vlib.run_groups(shim, groups, timeout=900)
    bad = []
    for f, ((rec, sem, ms), o, g) in enumerate(zip(cases, outs, groups)):
        if o[0] != "ok":
            ctx.violation(f"generated {sem['kind']} font rejected: {o[0]}", {"stage": "search", "stream": stream,
                          "font_line": g[0][:200]}); continue
        for t, (text, d, flags, feat) in enumerate(ms):
            sx, sp, sf = o[1 + 3 * t], o[2 + 3 * t], o[3 + 3 * t]
            stats["shapes"] += 1
            for key, v in (("per_kind", sem["kind"]), ("per_script", sem["script"]), ("per_dir", d), ("per_flags", str(flags))):
                stats[key][v] = stats[key].get(v, 0) + 1
            res = check(sem, text, d, flags, feat, sx, sp, sf, stats)
            if ties is not None and len(ties) < ntie:
                ties += tie_requests(sem, text, d, feat, parse_shape(sf))
            if res is not None:
                bad.append((len(text), len(g[0]), f, t, res))
    bad.sort()
    for _, _, f, t, res in bad[:limit]:
        rec, sem, ms = cases[f]
        text, d, flags, feat = ms[t]
        g, o = groups[f], outs[f]
        ctx.violation(res[1] + f" ({len(bad)} of {stats['shapes']} shapes)",
                      violation_replay(stream, sem, rec, g, t, text, d, flags, feat, res, o[1 + 3 * t], o[2 + 3 * t],
                                       o[3 + 3 * t], extra(f) if extra else None))
    return len(bad)


def new_stats():
    return {"shapes": 0, "with_nonzero_delta": 0, "pairs": 0, "across_skipped": 0, "tempting": 0,
            "per_kind": {}, "per_script": {}, "per_dir": {}, "per_flags": {}}


def search(ctx, shim, r, nfonts, ntexts, ntie=600):
    cases = []
    for _ in range(nfonts):
        rec, sem = skip_font(r)
        cases.append((rec, sem, [skip_case(r, sem) for _ in range(ntexts)]))
    stats = new_stats()
    ties = []
    nbad = run_cases(ctx, shim, "kern-skip-shape", cases, stats, ties=ties, ntie=ntie)
    model_tie(ctx, shim, ties)
    ctx.note_search("kern-skip-shape", stats["shapes"], stats["tempting"], detail=stats, deviations=nbad,
                    rule="generated cmap+hmtx fonts (Latin / Hebrew / Arabic / private-use letters, 1-3 combining marks, 1-3 of ZWJ / "
                         "ZWNJ / SHY / WJ / VS1 / VS16, CGJ, space; GDEF absent (classes synthesised), without marks, or with classes "
                         "drawn independently of the characters) with a `kern` (OpenType / Apple flavour, format 0) or `kerx` "
                         "(formats 0 / 2 / 6) table of 1-3 subtables whose pairs are drawn over ALL glyphs on either side x texts of "
                         "2-4 letters with 0-3 marks / default ignorables after each and before the first x directions l / r / "
                         "guessed (RTL-native for Hebrew / Arabic) / t / b x buffer flags none / PRESERVE / REMOVE_DEFAULT_IGNORABLES x "
                         "kern absent / 1 / ranged 0, cluster level 2; each shaped with kerning as requested and with kern=0 on the "
                         "same font; oracle: same glyphs, and the per-glyph difference equals the kerning of the pairs the MODEL "
                         "selects (marks and non-hidden default ignorables skipped, the next pair starts at the right glyph), "
                         "zeroed marks / default ignorables keep no kerning; non-trivial = a skipped glyph between the two glyphs "
                         "of a selected pair has a non-zero pair of its own with the right glyph")


# ------------------------------------------------------------------------------------------------
# promotion of `pf mk` / `kern mk` disagreements

P_BASES = [0x61 + k for k in range(26)]
P_MARKS = [0x300 + k for k in range(0x30)]


def parse_mk(ln):
    """`pf mk` / `pf kx` / `kern mk` request -> (dir, cross, pairs {(l, r): v}, [(gid, kern-mask on, class)], table kind) with
    class in base / mark / di / hid; None when the request has no shape()-level counterpart"""
    t = ln.split()
    kind = "kern-ot"
    if t[:2] == ["pf", "mk"] or t[:2] == ["pf", "kx"]:
        if t[1] == "mk":
            d, n, mask, cross, pt, it = t[2], int(t[3]), int(t[4]), t[5], t[8], t[9]
        else:
            d, n, mask, cross, pt, it = t[4], None, int(t[6]), t[7], t[10], t[11]
            kind = "kerx"
        infos = [] if it == "-" else [tuple(int(x) for x in e.split(":")) for e in it.split(",")]
        if n is None: n = len(infos)
        if mask & 7:
            return None                       # a kern mask on the glyph-flag bits: no feature map produces it
        glyphs = []
        for g, m, gp, up, cl in infos[:n]:
            subst = bool(gp & 0x10)
            if gp & 8: c = "mark"
            elif up & 0x20 and not subst: c = "hid" if up & 0x40 else "di"
            else: c = "base"
            glyphs.append((g, bool(m & mask), c))
    elif t[:2] == ["kern", "mk"]:
        d, n, mask, cross, pt, it = t[2], int(t[3]), int(t[4]), t[5], t[6], t[7]
        infos = [] if it == "-" else [tuple(int(x) for x in e.split(":")) for e in it.split(",")]
        glyphs = [(g, bool(m & mask), "mark" if mk else "di" if di else "base") for g, m, mk, di in infos[:n]]
    else:
        return None
    pairs = {} if pt == "-" else {(int(a), int(b)): int(v) for a, b, v in (e.split(":") for e in pt.split(","))}
    return d, cross == "1", pairs, glyphs, kind


def promote_case(ln):
    """-> (recipe, sem, (text, d, flags, feat)) or None"""
    p = parse_mk(ln)
    if p is None:
        return None
    d, cross, pairs, glyphs, kind = p
    if cross or len(glyphs) < 2 or d not in "lr":
        return None
    pools = {"base": list(P_BASES), "mark": list(P_MARKS), "di": list(DI_SKIPPED), "hid": list(DI_HIDDEN)}
    cp_of, text = {}, []
    for g, on, c in glyphs:
        if (g, c) not in cp_of:
            if not pools[c]:
                return None
            cp_of[(g, c)] = pools[c].pop(0)
        text.append(cp_of[(g, c)])
    cmap = {cp: g for (g, c), cp in cp_of.items()}
    ng = max([g for g, _, _ in glyphs] + [l for l, _ in pairs] + [rr for _, rr in pairs]) + 1
    adv = [0] + [400 + 37 * k for k in range(1, ng)]
    sub = {"v": 0, "h": 1, "c": 0, "fmt": 0, "pairs": {k: v for k, v in pairs.items() if v}}
    tbl = {"kerx": KX.kerx_table([sub]).hex()} if kind == "kerx" else {"kern": kern_bytes("kern-ot", [sub]).hex()}
    rec = {"num_glyphs": ng, "cmap": cmap, "advances": adv, "tables": tbl}
    sem = {"kind": kind, "script": "latn", "cmap": cmap, "gdef": None, "adv": adv, "subs": [sub]}
    feat = [(0, k, k + 1) for k, (_, on, _) in enumerate(glyphs) if not on]
    flags = PRESERVE if any(c in ("di", "hid") for _, _, c in glyphs) else 0
    return rec, sem, (text, "l", flags, feat or None)


def promote(ctx, shim, dis, limit):
    """requests of the kern-machine / kern-machine-flags correspondences on which crate and model disagree are candidate
    failing inputs: each is rebuilt as font + text and judged by the oracle above (nothing is assumed about WHY they disagreed)"""
    cases, src = [], []
    for dd in sorted(dis, key=lambda x: len(x["request"])):
        c = promote_case(dd["request"])
        if c is None:
            continue
        cases.append((c[0], c[1], [c[2]])); src.append(dd)
        if len(cases) >= limit:
            break
    stats = new_stats()
    nbad = 0
    if cases:
        nbad = run_cases(ctx, shim, "promoted-kern-machine", cases, stats,
                         extra=lambda f: {"from_correspondence": src[f]["request"][:400], "impl": src[f]["impl"][:400],
                                          "model": src[f]["model"][:400]})
    ctx.note_search("promoted-kern-machine", stats["shapes"], stats["pairs"], disagreements=len(dis), deviations=nbad,
                    rule="the shortest `pf mk` / `pf kx` / `kern mk` requests on which crate and model disagree (horizontal, not cross-stream, "
                         "kern mask above the flag bits), rebuilt as a text over a kern-table (kerx-table for `pf kx`) font (the request's glyph ids reached "
                         "through letters / combining marks / default ignorables / CGJ and TAG characters, its pair table as the "
                         "kern subtable, masked-out glyphs as kern=0 ranges, PRESERVE_DEFAULT_IGNORABLES) and judged by the "
                         "kern-skip-shape oracle; nothing to promote on an unchanged tree")


def replay(rp, shim):
    o = vlib.run_groups(shim, [[rp["font_line"], rp["request"], rp["off_request"], rp["full_request"]]], nproc=1)[0]
    feat = rp["feature"]
    if isinstance(feat, list) and feat and not isinstance(feat[0], list): feat = tuple(feat)
    res = check(sem_unjson(rp["sem"]), rp["text"], rp["dir"], rp["flags"], feat, o[1], o[2], o[3])
    print("kerning on :", o[1]); print("kerning off:", o[2]); print("kern pass sees:", o[3])
    print("oracle:", res[1] if res else "difference equals the kerning of the pairs the model selects")
    return 1 if res else 0
