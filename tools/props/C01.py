"""C01 — shaping is total: no panic, abort or hang; output length bounded by max(64 n, 16384)."""
import json, os, re, struct, unicodedata
import vlib, corpus, bufgen

MODULE = "RbModel.Props.C01"
LEVEL = "proof"

# crashes that belong to a defect repaired on another branch (DESIGN.md §4: "handled elsewhere"); they are
# printed and recorded, and stop being tolerated as soon as the entry is removed
HANDLED_ELSEWHERE = []     # D10 (tag.rs lang_cmp) was the only entry; it is repaired on main

# crash families written up as findings of this property.  Nothing is suppressed here: the list only groups the sites of a
# family under one replay whose key "signature" is the family id (known_findings.json matches on that key) and orders the
# output so that a NEW site is always reported before these.  F-coverage-unwrap and F-morx-lig were repaired on main
# (8e4cc4f, 457582f): their minimal inputs stay in seed_lines() and must pass.
REPORTED = [
    ("F-attach-i16", r"panic src/hb/ot_layout_gpos_table\.rs:\d+ assertion failed: j < i",
     "attach_chain is i16: a mark more than 32767 glyphs after its base wraps and trips assert!(j < i)"),
    ("F-nfvs", r"panic src/hb/buffer\.rs:\d+ assertion failed: self\.glyph_id <= u32::from\(u16::MAX\)",
     "debug_assert in as_glyph(): set_not_found_variation_selector_glyph(> 65535) then serialize (checked build only)"),
    ("F-ttf-parser", r"panic ttf-parser-[0-9.]+/src/",
     "dependency ttf-parser: debug assertions / arithmetic overflow on malformed tables or non-finite variation values "
     "(checked build only)"),
]

LIMIT_MS = {"release": 60_000, "checked": 600_000}


def fdir():
    return os.path.join(vlib.REPO, "tests", "fonts")


def all_fonts():
    out = []
    for dp, dn, fn in os.walk(fdir()):
        for f in sorted(fn):
            if f.lower().endswith((".ttf", ".otf", ".ttc", ".dfont")):
                out.append(os.path.join(dp, f))
    return sorted(out)


# ---------------------------------------------------------------------------------------------------------
# sfnt helpers (only to aim the mutations and to build the one synthetic seed font)


def sfnt_dir(data):
    """[(tag, dir_record_offset, table_offset, length)] of the first face"""
    if len(data) < 12:
        return []
    off = 0
    if data[:4] == b"ttcf" and len(data) >= 16:
        off = struct.unpack(">I", data[12:16])[0]
    if off + 12 > len(data):
        return []
    n = struct.unpack(">H", data[off + 4:off + 6])[0]
    recs = []
    for i in range(n):
        p = off + 12 + 16 * i
        if p + 16 > len(data):
            break
        tag, cs, o, l = struct.unpack(">4sIII", data[p:p + 16])
        recs.append((tag.decode("latin1"), p, o, l))
    return recs


def add_table(data, tag, body):
    """rebuild an sfnt with one more table (checksums are not verified by the parser)"""
    recs = sfnt_dir(data)
    tabs = [(t, data[o:o + l]) for t, p, o, l in recs] + [(tag, body)]
    tabs.sort(key=lambda x: x[0])
    n = len(tabs)
    es = max(0, n.bit_length() - 1)
    out = bytearray(data[:4] + struct.pack(">HHHH", n, (1 << es) * 16, es, n * 16 - (1 << es) * 16))
    pos = 12 + 16 * n
    bodies = bytearray()
    for t, b in tabs:
        out += struct.pack(">4sIII", t.encode("latin1"), 0, pos + len(bodies), len(b))
        bodies += b + b"\0" * (-len(b) % 4)
    return bytes(out + bodies)


def feat_table():
    """AAT `feat` exposing feature type 17 (character alternatives) with one setting"""
    hdr = struct.pack(">IHHI", 0x00010000, 1, 0, 0)
    name = struct.pack(">HHIHh", 17, 1, 12 + 12, 0, 256)
    setting = struct.pack(">Hh", 0, 257)
    return hdr + name + setting


def cache_dir():
    d = os.path.join(vlib.HARN, "target", "c01fonts")
    os.makedirs(d, exist_ok=True)
    return d


def synth_feat_font():
    src = os.path.join(fdir(), "text-rendering-tests", "TestMORXOne.ttf")
    if not os.path.exists(src):
        return None
    p = os.path.join(cache_dir(), "TestMORXOne+feat.ttf")
    body = add_table(open(src, "rb").read(), "feat", feat_table())
    if not os.path.exists(p) or open(p, "rb").read() != body:
        open(p, "wb").write(body)
    return p


LAYOUT = ("GSUB", "GPOS", "GDEF", "morx", "mort", "kern", "kerx", "cmap", "hmtx", "vmtx", "hhea", "vhea", "maxp", "head",
          "ankr", "trak", "feat", "fvar", "avar", "HVAR", "MVAR", "gvar", "glyf", "loca", "CFF ", "CFF2", "post", "name",
          "OS/2", "VORG", "COLR", "BASE", "morx")


def mutate(r, data):
    """one random byte mutation -> list of spec suffixes (`t<len>` / `w<off>:<hex>`)"""
    recs = sfnt_dir(data)
    k = r.below(10)
    if not recs or k == 0:
        # anywhere
        o = r.below(max(1, len(data)))
        return [f"w{o}:{data[o] ^ (1 << r.below(8)):02x}"] if data else []
    lay = [x for x in recs if x[0] in LAYOUT and x[3] > 0] or recs
    tag, p, o, l = r.choice(lay)
    if k in (1, 2, 3):      # bit flip inside a table the shaper reads, biased towards its header
        span = l if r.chance(1, 2) else min(l, 64)
        q = o + r.below(max(1, span))
        if q >= len(data): return []
        return [f"w{q}:{data[q] ^ (1 << r.below(8)):02x}"]
    if k == 4:              # truncation: at a table boundary, inside a table, or the directory
        cut = r.choice([o, o + r.below(max(1, l)), o + l, p + r.below(16), len(data) - 1 - r.below(64)])
        return [f"t{max(0, min(len(data), cut))}"]
    if k in (5, 6):         # a 16-bit field +-1 (offsets, counts, glyph ids): even position in the table
        q = o + 2 * r.below(max(1, min(l, 512 if r.chance(2, 3) else l) // 2))
        if q + 2 > len(data): return []
        v = (struct.unpack(">H", data[q:q + 2])[0] + r.choice([1, -1, 2, -2, 0x100])) & 0xFFFF
        return [f"w{q}:{v:04x}"]
    if k == 7:              # a 16-bit field := extreme value
        q = o + 2 * r.below(max(1, min(l, 256) // 2))
        if q + 2 > len(data): return []
        return [f"w{q}:{r.choice([0, 1, 0x7fff, 0x8000, 0xfffe, 0xffff]):04x}"]
    if k == 8:              # table-directory splice: record points at another table's data / shifted / resized
        t2, p2, o2, l2 = r.choice(recs)
        how = r.below(4)
        if how == 0: return [f"w{p + 8}:{o2:08x}{l2:08x}"]
        if how == 1: return [f"w{p + 8}:{(o + r.choice([1, 2, 4, -2, -4])) & 0xffffffff:08x}"]
        if how == 2: return [f"w{p + 12}:{r.choice([0, 1, 2, l // 2, l - 1, l + 1, 0xffffffff]) & 0xffffffff:08x}"]
        return [f"w{p}:{t2.encode('latin1').hex()}"]
    # several flips in one table
    out = []
    for _ in range(r.range(2, 6)):
        q = o + r.below(max(1, l))
        if q < len(data):
            out.append(f"w{q}:{data[q] ^ (1 << r.below(8)):02x}")
    return out


# ---------------------------------------------------------------------------------------------------------
# texts and configurations

DI = [0xad, 0x34f, 0x61c, 0x115f, 0x1160, 0x17b4, 0x180b, 0x180e, 0x200b, 0x200c, 0x200d, 0x200e, 0x202a, 0x2060, 0x2064,
      0x206f, 0x3164, 0xfe00, 0xfe0f, 0xfeff, 0xffa0, 0x1bca0, 0x1d173, 0xe0001, 0xe0020, 0xe0100, 0xe01ef]
CONJ = [(0x915, 0x94d), (0x995, 0x9cd), (0xa15, 0xa4d), (0xb95, 0xbcd), (0xc15, 0xc4d), (0xd15, 0xd4d), (0x1780, 0x17d2),
        (0x1000, 0x1039), (0xa95, 0xacd), (0xd9a, 0xdca)]
MARKS = [0x301, 0x323, 0x64e, 0x650, 0x5b4, 0x93c, 0xe48, 0x20d7, 0x1ab0]
LETTERS = [0x61, 0x41, 0x628, 0x5d0, 0x915, 0xe01, 0x1100, 0xac00, 0x4e00, 0x1f600, 0x20, 0x0, 0x10ffff, 0xfffd]
LANGS = ["-", "en", "a", "x", "é", "a-é", "ü-x", "zh-hans", "x-hbot-12345678", "x-hbotABCD", "x-hbsc-64657661", "en-x-hbot", "-", "en-",
         "q" * 300, "sr-Cyrl-RS", "ZH", "日本語"]
SCRIPTS = ["-", "Latn", "Arab", "Deva", "Beng", "Hang", "Thai", "Khmr", "Mymr", "Zyyy", "Zinh", "Zzzz", "Qaai", "Hebr", "Syrc",
           "Mong", "Tibt", "Knda", "Sinh", "Java", "Adlm", "Aran", "latn", "\x01\x01\x01\x01", "~~~~"]


def tag_hex(t):
    return "".join(f"{ord(c) & 0xff:02x}" for c in (t + "    ")[:4])


def rand_feats(r):
    k = r.below(8)
    if k < 3:
        return "-"
    fs = []
    tags = ["kern", "liga", "aalt", "calt", "ccmp", "mark", "mkmk", "curs", "rand", "smcp", "frac", "init", "vert", "ss01", "locl",
            "\0\0\0\0", "\xff\xff\xff\xff", "zzzz"]
    for _ in range(r.choice([1, 1, 2, 5, 40]) if k < 7 else 200):
        t = r.choice(tags)
        val = r.choice([0, 1, 2, 3, 255, 256, 65535, 65536, 70000, 0x7fffffff, 0xffffffff])
        a = r.choice([0, 0, 1, 5, 0xfffffffe, 0xffffffff])
        b = r.choice([0xffffffff, 0xffffffff, 0, 1, 3, a])
        fs.append(f"{tag_hex(t)}:{val}:{a}:{b}")
    return ",".join(fs)


def rand_config(r, wild=True):
    """dir script lang flags level feats pre post  +  extras"""
    d = r.choice(["-", "-", "l", "r", "t", "b"])
    s = r.choice(SCRIPTS) if r.chance(1, 2) else "-"
    if any(ord(c) <= 0x20 or ord(c) >= 0x7f for c in s):
        s = "-"     # the request line is space separated ascii; odd tags go through the 4 printable bytes only
    lang = r.choice(LANGS) if r.chance(1, 2) else "-"
    lang = "-" if lang == "-" else "x" + lang.encode().hex()
    flags = r.choice([0, 0, 1, 2, 3, 4, 8, 0x10, 0x20, 0x40, 0x80, 0xC3, 0xFF, 0xFFFFFFFF, r.below(256)])
    level = r.below(3)
    feats = rand_feats(r)
    cp = lambda l: ",".join(f"{c:x}" for c in l) or "-"
    pre = cp([r.choice(LETTERS + MARKS + DI) for _ in range(r.below(7))]) if r.chance(1, 4) else "-"
    post = cp([r.choice(LETTERS + MARKS + DI) for _ in range(r.below(7))]) if r.chance(1, 4) else "-"
    ex = []
    if wild:
        if r.chance(1, 6): ex.append(f"ppem={r.choice([0, 1, 12, 65535])}")
        if r.chance(1, 6): ex.append(f"ptem={r.choice(['0', '1', '12.5', '1e9', '-5', 'NaN', 'inf'])}")
        if r.chance(1, 6):
            vs = [f"{tag_hex(r.choice(['wght', 'wdth', 'opsz', 'slnt', 'zzzz']))}:{r.choice(['0', '400', '900', '-1e9', '1e9', 'NaN', 'inf', '1.5'])}"
                  for _ in range(r.range(1, 3))]
            ex.append("var=" + ",".join(vs))
        if r.chance(1, 10): ex.append(f"nfvs={r.choice([0, 1, 65535, 70000])}")
        if r.chance(1, 3): ex.append("mode=plan")
        if r.chance(1, 4): ex.append(f"rep={r.range(1, 2)}")
    ex.append("ser=1")
    return f"{d} {s} {lang} {flags} {level} {feats} {pre} {post}", ex


def rle(cps):
    """run-length text syntax of the c01 request"""
    out = []
    for c in cps:
        if isinstance(c, tuple):
            out.append(f"{c[0]:x}*{c[1]}")
        else:
            out.append(f"{c:x}")
    return ",".join(out) or "-"


def degenerate_texts(r, own):
    """short / odd texts; `own` = code points of the font's own fixture text"""
    o = own or [0x61]
    k = r.below(12)
    if k == 0: return []
    if k == 1: return [r.choice(o)]
    if k == 2: return [r.choice(LETTERS)]
    if k == 3: return [r.choice(MARKS)] * r.range(1, 4)
    if k == 4: return [r.choice(DI) for _ in range(r.range(1, 12))]
    if k == 5: return [r.choice(o)] + [r.choice(MARKS + DI) for _ in range(r.range(1, 8))]
    if k == 6: return r.shuffle(o)[:8]
    if k == 7: return [r.choice(o + LETTERS + MARKS + DI) for _ in range(r.range(1, 16))]
    if k == 8:
        c, v = r.choice(CONJ)
        return [c, v] * r.range(1, 6) + [c]
    if k == 9: return [0x200d, 0x200c, 0xfe0f, r.choice(o), 0x200d, r.choice(o)]
    if k == 10: return [r.below(0xd800) for _ in range(r.range(1, 8))]
    return o[:24]


def long_texts(r, own, sizes):
    o = own or [0x61]
    n = r.choice(sizes)
    k = r.below(7)
    if k == 0: return [(r.choice(o), n)]
    if k == 1: return [(r.choice(LETTERS[:9]), n)]
    if k == 2: return [r.choice(o + LETTERS[:6]), (r.choice(MARKS), min(n, 70000))]
    if k == 3:
        c, v = r.choice(CONJ)
        m = r.choice([127, 128, 140, 255, 256, 300, 2000])
        return [c, v] * m + [c]
    if k == 4: return [(r.choice(DI), min(n, 65536))]
    if k == 5: return [r.choice(o), (0x200d, 1), (r.choice(o), n // 2), (r.choice(MARKS), 100), (r.choice(o), n // 2)]
    return [(c, max(1, n // max(1, len(o[:16])))) for c in o[:16]]


# ---------------------------------------------------------------------------------------------------------
# running and judging


class Judge:
    def __init__(self, ctx):
        self.ctx = ctx
        self.sites = {}         # signature -> [count, smallest (len, build, line, reply)]
        self.elsewhere = {}
        self.stats = {}
        self.slow = []

    def see(self, stream, build, line, reply):
        st = self.stats.setdefault(stream, {"cases": 0, "ok": 0, "reject": 0, "nonempty": 0, "max_ms": 0, "max_out": 0,
                                            "limit_reached": 0})
        st["cases"] += 1
        sig = None
        if reply.startswith("ok "):
            st["ok"] += 1
            d = dict(t.split("=", 1) for t in reply.split()[1:] if "=" in t)
            n, m, ms = int(d["in"]), int(d["out"]), int(d.get("cpu", d["ms"]))
            st["max_ms"] = max(st["max_ms"], ms)
            st["max_out"] = max(st["max_out"], m)
            if m: st["nonempty"] += 1
            bound = max(64 * n, 16384)
            if m > n and m * 2 >= bound: st["limit_reached"] += 1
            if m > bound:
                sig = f"output length {m} > max(64*{n},16384)"
                sig = "bound: output longer than max(64n,16384)"
            elif ms > LIMIT_MS[build]:
                # above the limit: a hang only if halving the text does not explain it (at most quadratic growth)
                self.slow.append((stream, build, line, ms))
                return
        elif reply == "reject":
            st["reject"] += 1
        elif reply.startswith("panic"):
            m = re.match(r"panic (\S+?):(\d+) (.*)", reply)
            loc = m.group(1) + ":" + m.group(2) if m else reply[:80]
            if "/registry/" in loc:
                loc = re.sub(r"^.*/registry/src/[^/]+/", "", loc)      # <crate>-<version>/src/…
            else:
                loc = re.sub(r"^.*/(src/)", r"\1", loc)
            msg = re.sub(r"the len is \d+ but the index is \d+", "the len is N but the index is M", m.group(3) if m else "")
            # one site = one group whatever the sizes in the message are (the smallest input of the group is reported)
            msg = re.sub(r"range (end|start) index \d+ out of range for slice of length \d+",
                         r"range \1 index N out of range for slice of length M", msg)
            sig = f"panic {loc} {msg[:70]}"
        elif reply.startswith("abort"):
            sig = f"abort ({reply}: {'stack overflow / signal' if '-' in reply else 'exit'})"
        elif reply == "timeout":
            sig = "hang: chunk time limit exceeded"
        else:
            sig = f"harness: unexpected reply {reply[:60]}"
        if sig:
            for e in HANDLED_ELSEWHERE:
                if re.search(e["re"], reply):
                    self.elsewhere.setdefault(e["id"], [0, e["what"], line[:400]])[0] += 1
                    return
            ent = self.sites.setdefault(sig, [0, None, set()])
            ent[0] += 1
            ent[2].add(build)
            cand = (len(line), build, line, reply, stream)
            if ent[1] is None or cand[0] < ent[1][0]:
                ent[1] = cand

    def judge_slow(self):
        """cases above the time limit: re-run with every run length halved; t(n) <= 5 t(n/2) is (at most) quadratic growth —
        slow, recorded, not a hang; otherwise halved once more: t(n) <= 36 t(n/4) (exponent below 2.6) is still polynomial;
        anything steeper, or a halved case that is itself above the limit, is a violation"""
        notes = []
        for stream, build, line, ms in self.slow:
            # the measurement above the limit was taken with all cores busy: the request is measured once more on its own and the
            # smaller CPU time counts (the limit itself stays)
            o1 = vlib.run_lines(vlib.build_harness(build), [line], nproc=1, timeout=LIMIT_MS[build] // 1000 * 3)[0]
            d1 = dict(x.split("=", 1) for x in o1.split()[1:] if "=" in x) if o1.startswith("ok ") else {}
            ms1 = int(d1.get("cpu", d1.get("ms", 10 ** 9)))
            if ms1 <= LIMIT_MS[build]:
                notes.append({"build": build, "request": line[:400], "cpu_ms_under_load": ms, "cpu_ms_alone": ms1})
                print(f"# NOTE above the limit only under load ({build}): {ms} ms, {ms1} ms alone: {line[:200]}")
                continue
            ms = min(ms, ms1)
            t = line.split()
            t[10] = ",".join((f"{x.split('*')[0]}*{max(1, int(x.split('*')[1]) // 2)}" if "*" in x else x) for x in t[10].split(","))
            half = " ".join(t)
            o = vlib.run_lines(vlib.build_harness(build), [half], nproc=1, timeout=LIMIT_MS[build] // 1000 * 3)[0]
            d = dict(x.split("=", 1) for x in o.split()[1:] if "=" in x) if o.startswith("ok ") else {}
            hm = int(d.get("cpu", d.get("ms", 10 ** 9)))
            if o.startswith("ok ") and hm <= LIMIT_MS[build] and ms <= 5 * max(hm, 1):
                notes.append({"build": build, "request": line[:400], "cpu_ms": ms, "cpu_ms_half_length": hm})
                print(f"# NOTE slow but polynomial ({build}): {ms} ms, {hm} ms at half the length: {line[:200]}")
                continue
            # one halving is a noisy estimate of the growth exponent (cache effects put honest quadratic loops at ratios 4 - 5.5):
            # before calling it steeper than quadratic, halve once more; quadratic growth gives t(n) / t(n/4) = 16, cubic 64 —
            # the verdict "polynomial" needs the exponent over the two halvings to stay below 2.6 (ratio <= 36)
            qm = 10 ** 9
            if o.startswith("ok ") and hm <= LIMIT_MS[build]:
                t4 = half.split()
                t4[10] = ",".join((f"{x.split('*')[0]}*{max(1, int(x.split('*')[1]) // 2)}" if "*" in x else x) for x in t4[10].split(","))
                oq = vlib.run_lines(vlib.build_harness(build), [" ".join(t4)], nproc=1, timeout=LIMIT_MS[build] // 1000 * 3)[0]
                dq = dict(x.split("=", 1) for x in oq.split()[1:] if "=" in x) if oq.startswith("ok ") else {}
                qm = int(dq.get("cpu", dq.get("ms", 10 ** 9)))
            if qm < 10 ** 9 and ms <= 36 * max(qm, 1):
                notes.append({"build": build, "request": line[:400], "cpu_ms": ms, "cpu_ms_half_length": hm, "cpu_ms_quarter_length": qm})
                print(f"# NOTE slow but polynomial ({build}): {ms} ms, {hm} ms at half, {qm} ms at a quarter of the length: {line[:200]}")
            else:
                sig = f"time: more than {LIMIT_MS[build] // 1000}s in the {build} build and not explained by quadratic growth"
                ent = self.sites.setdefault(sig, [0, None, set()])
                ent[0] += 1; ent[2].add(build)
                if ent[1] is None or len(line) < ent[1][0]:
                    ent[1] = (len(line), build, line, f"{o[:100]} (full length: cpu={ms} ms)", stream)
        self.ctx.cov["slow_cases"] = notes

    def report(self):
        ctx = self.ctx
        self.judge_slow()
        for eid, (n, what, line) in sorted(self.elsewhere.items()):
            print(f"KNOWN-ELSEWHERE: property=C01 {eid} ({n} cases) {what}; e.g. {line[:200]}")
        ctx.cov["handled_elsewhere"] = {k: {"cases": v[0], "what": v[1], "example": v[2]} for k, v in self.elsewhere.items()}
        ctx.cov["c01_crash_sites"] = {sig: {"cases": e[0], "builds": sorted(e[2]), "smallest": e[1][2][:600]} for sig, e in self.sites.items()}
        # group the sites that are already written up; new sites first, one replay per group
        groups = {}
        for sig, ent in self.sites.items():
            gid, what = sig, None
            for fid, rx, w in REPORTED:
                if re.search(rx, sig):
                    gid, what = fid, w
                    break
            g = groups.setdefault(gid, {"what": what, "cases": 0, "builds": set(), "sites": [], "best": None})
            g["cases"] += ent[0]; g["builds"] |= ent[2]; g["sites"].append(sig)
            if g["best"] is None or ent[1][0] < g["best"][0]:
                g["best"] = ent[1]
        order = sorted(groups.items(), key=lambda kv: (0 if kv[1]["what"] is None else 1, kv[1]["best"][0]))
        ctx.cov["c01_groups"] = {k: {"reported": v["what"] is not None, "cases": v["cases"], "builds": sorted(v["builds"]),
                                     "sites": sorted(v["sites"])} for k, v in groups.items()}
        for gid, g in order:
            ln, build, line, reply, stream = g["best"]
            head = f"{gid}: {g['what']} — {'; '.join(sorted(g['sites']))[:300]}" if g["what"] else g["sites"][0]
            rp = {"stage": "search", "stream": stream, "build": build, "request": line, "observed": reply[:500], "signature": gid}
            gm = re.search(r"@(\S*/c01fonts/(?:xaat|ggr|markruns)/\S+?\.ttf)@", line)
            if gm and os.path.exists(gm.group(1)) and os.path.getsize(gm.group(1)) < 20000:
                rp["font_hex"] = open(gm.group(1), "rb").read().hex()       # generated font: the replay is self-contained
                if os.path.exists(gm.group(1)[:-4] + ".json"):
                    rp["recipe"] = json.load(open(gm.group(1)[:-4] + ".json"))     # what the font holds (cmap: U+E000 + gid - 1)
            ctx.violation(f"shaping is not total — {head} [{g['cases']} cases, builds: {','.join(sorted(g['builds']))}]", rp)
        for name, st in self.stats.items():
            ctx.note_search(name, st["cases"], st["nonempty"], ok=st["ok"], rejected=st["reject"], max_ms=st["max_ms"],
                            max_out=st["max_out"], within_factor_2_of_bound=st["limit_reached"], rule=RULES.get(name, ""))


RULES = {
    "synthetic": "adversarial fonts from tools/fontbuild.py (Extension lookup mixing reverse and forward subtables, self / mutually "
                 "recursive context lookups, insertion bombs, 70 nested lookups, cursive on every glyph, all marks on one base, "
                 "morx don't-advance loop and insertion bomb) x short and long private-use texts, 2 configurations, both builds; "
                 "a request that does not answer within 40 s (release) / 120 s (checked) is a hang",
    "seeds": "permanent inputs of the property's rationale (200k Arabic letters on the Nastaliq font, base + 70k marks, 281-char "
             "Devanagari conjunct, aalt=70000 with a feat table, 4-letter ASCII on the TestMORX fonts, non-ASCII language tags), "
             "both builds; non-trivial = output has glyphs",
    "config": "corpus (font,text) x random public configuration (direction, script, language incl. non-ASCII / 1-byte / 300-byte, "
              "feature lists with huge values and ranges, undefined flag bits, cluster level, contexts, ppem/ptem incl. NaN/inf, "
              "variations, not-found glyph, plan mode, recycled buffer), serialize in 4 flag sets; both builds",
    "mutants": "corpus fonts x one byte mutation (bit flip biased to layout tables, truncation, 16-bit field +-1 / extreme value, "
               "table-directory splice, multi-flip) x the font's own fixture text / degenerate text x random configuration; both "
               "builds; rejected = Face::from_slice refused the bytes",
    "sweep-syllabic": "every script the compiled crate sends to the Indic / Khmer / Myanmar / Universal shaper (asked through the hooks "
                      "segprops / scripttags / shaper: ~95 scripts) x generated fonts {each GSUB script tag that selects the shaper, no "
                      "GSUB at all} x {with, without U+25CC} x {with, without space + joiner glyphs} (+ a font whose form features hold "
                      "<C,virama> / <virama,C> ligatures and whose presentation features rewrite every glyph) x every code point of the "
                      "script (+ the Common / Inherited characters the syllable machines know) first / last / alone / doubled / after a "
                      "space / next to a consonant, virama, joiner, dotted circle, vowel sign, random character (22 templates) x a walk "
                      "through all 64 subsets of BOT, EOT, PRESERVE / REMOVE default ignorables, DO_NOT_INSERT_DOTTED_CIRCLE, "
                      "PRODUCE_UNSAFE_TO_CONCAT x directions l r t x cluster levels 0 1 2 x script given / guessed; both builds",
    "extreme-clusters": "every family of request (corpus fonts: OpenType GSUB/GPOS, Arabic, Hangul, syllabic shapers, fonts without "
                        "layout tables, AAT morx / kerx / trak fonts as they are and with an added `feat` table exposing every mapped AAT "
                        "feature type; generated morx+feat fonts whose OpenType tags really switch subtables) x input cluster values "
                        "drawn from {0, 1, u32::MAX, u32::MAX-1, 2^31, 2^31+-1, 0xFFFF, 0x10000} mixed with ordinary ones (all equal, "
                        "ascending to / from an extreme, descending, single positions replaced, random, sorted; Hangul also generated jamo "
                        "strings; syllabic texts also cut right after a virama) x 0-4 user features (common tags, the tags of the font's own "
                        "GSUB / GPOS FeatureLists, the tags the AAT map knows, the tags the dedicated shaper allocates itself) whose "
                        "range bounds come from the same set and from the input clusters +-1 (global, start == end, start > end, end == "
                        "start + 1, overlapping) x 4 directions x 3 cluster levels; both builds; oracle: no panic / abort / hang, "
                        "len <= max(64n,16384)",
    "gsub-gpos-random": "generated fonts that combine a random GSUB — profiles: chain (every stage draws its inputs from what the "
                        "earlier stages produce: ligatures, ligatures of ligatures, multiple substitution / deletion / renaming of "
                        "ligature glyphs and of multiplied glyphs, chained contexts calling earlier lookups), expansion, uniformly "
                        "random (also deletion-heavy) — with a GDEF that is absent / agrees with the lookups / is drawn at random, and a "
                        "random GPOS of every lookup type 1-8 whose coverages are drawn without looking at GDEF (marks in base "
                        "coverages, bases and ligature outputs in mark coverages), partly aimed at glyphs and adjacent pairs the GSUB "
                        "really produces; a third of the fonts with skewed tables (class count off by one, matrices / arrays shorter or "
                        "longer than their coverage, ligatures with 0 / 1 / 15-17 components, mark class past the class count) x texts "
                        "from the rule sequences and over the whole cmap x 4 directions x 3 cluster levels, the font's features on; "
                        "both builds; oracle: no panic / abort / hang, len <= max(64n,16384)",
    "mark-run-lengths": "every shaper of the compiled crate (dispatch asked through the hooks segprops / scripttags / shaper; up to two "
                        "scripts each, the syllabic ones through a generated font with the script's GSUB tag) x every modified combining "
                        "class (asked from the crate) among the script's marks, U+0301 / U+0323 / U+0327 / U+0345 and the marks named in "
                        "literal code-point lists of the shaper's own source (MODIFIER_COMBINING_MARKS, dagesh forms, ...) x run shapes "
                        "{one mark repeated (listed and unlisted marks), different marks of the class, the class alternating with 220 / "
                        "230 / the next class, two blocks of two classes, all classes descending / ascending} x run lengths 1, 2, 31-34, "
                        "63-65, 127-129, 255-257, 1000 x {after a base, at the start of the text, after a space, between two bases} x "
                        "{generated cmap-only font, corpus font of the script} x flags {0, BOT|EOT} x directions x cluster levels "
                        "(quick: position / font / flags in rotation, thorough: the whole product); both builds; oracle: no panic / "
                        "abort / hang, len <= max(64n,16384)",
    "long": "all corpus fonts x long texts (1 / 64k / 300k x one letter, base + up to 70k marks, conjuncts of 127..2000 consonants, "
            "64k default ignorables, mixed runs); monitors: crash, abort, CPU time of the request (60 s release / 600 s checked; a case "
            "above the limit is re-run at half the length and counts as a hang unless t(n) <= 5 t(n/2)), len <= max(64n,16384)",
}


def run_both(judge, stream, lines, timeout, builds=("release", "checked"), nproc=None):
    for b in builds:
        exe = vlib.build_harness(b)
        # self-contained lines: any chunking is fine; a crash only loses the line that crashed
        outs = vlib.run_lines(exe, lines, timeout=timeout, nproc=nproc)
        for ln, o in zip(lines, outs):
            judge.see(stream, b, ln, o)


def spec(path, idx=0, muts=()):
    return "@" + path + "@" + str(idx) + "".join("@" + m for m in muts)


def synthetic_recipes():
    """adversarial fonts built by tools/fontbuild.py (private-use alphabet U+E000.. -> glyph 1..): name -> (recipe, [texts])"""
    P = 0xE000
    multi8 = {"type": 2, "subtables": [{"coverage": [1], "sequences": [[1] * 8]}]}
    R = {}
    # Extension lookup mixing a reverse-chaining subtable with a forward one: the forward driver never advanced (hang)
    R["ext-mixed-reverse"] = ({"num_glyphs": 3, "cmap": "pua", "gsub": {"features": [{"tag": "ccmp", "lookups": [0]}], "lookups": [
        {"type": 7, "subtables": [{"ext_type": 8, "extension": {"coverage": [1], "backtrack": [], "lookahead": [], "subst": [1]}},
                                  {"ext_type": 1, "extension": {"format": 1, "coverage": [2], "delta": 0}}]}]}},
        [[P], [P, P + 1, P], [(P, 1000)]])
    R["ext-mixed-reverse-2"] = ({"num_glyphs": 3, "cmap": "pua", "gsub": {"features": [{"tag": "ccmp", "lookups": [0]}], "lookups": [
        {"type": 7, "subtables": [{"ext_type": 1, "extension": {"format": 1, "coverage": [2], "delta": 0}},
                                  {"ext_type": 8, "extension": {"coverage": [1], "backtrack": [[2]], "lookahead": [], "subst": [2]}}]}]}},
        [[P], [P + 1, P, P + 1, P]])
    # a context lookup that calls itself
    R["self-recursive"] = ({"num_glyphs": 4, "cmap": "pua", "gsub": {"features": [{"tag": "ccmp", "lookups": [0]}], "lookups": [
        {"type": 5, "subtables": [{"format": 3, "coverages": [[1]], "lookups": [(0, 0)]}]}]}},
        [[P], [(P, 1000)], [(P, 70000)]])
    # mutual recursion through chain context
    R["mutual-recursion"] = ({"num_glyphs": 4, "cmap": "pua", "gsub": {"features": [{"tag": "ccmp", "lookups": [0]}], "lookups": [
        {"type": 6, "subtables": [{"format": 3, "backtrack": [], "coverages": [[1], [1]], "lookahead": [], "lookups": [(0, 1), (1, 1)]}]},
        {"type": 5, "subtables": [{"format": 3, "coverages": [[1]], "lookups": [(0, 0)]}]}]}},
        [[P, P], [(P, 3000)]])
    # insertion bomb: 1 -> 1 x 8, re-applied recursively and by eight features
    R["insertion-bomb"] = ({"num_glyphs": 4, "cmap": "pua", "gsub": {
        "features": [{"tag": t, "lookups": [0]} for t in ("ccmp", "liga", "calt", "clig", "rlig", "locl", "rclt", "kern")],
        "lookups": [{"type": 5, "subtables": [{"format": 3, "coverages": [[1]], "lookups": [(0, 1), (0, 0), (1, 0), (7, 1)]}]}, multi8]}},
        [[P], [(P, 100)], [(P, 5000)], [(P, 65536)]])
    # 70 nested context lookups (nesting budget is 64), the last one substitutes
    n = 70
    R["nesting-70"] = ({"num_glyphs": 4, "cmap": "pua", "gsub": {"features": [{"tag": "ccmp", "lookups": [0]}], "lookups":
        [{"type": 5, "subtables": [{"format": 3, "coverages": [[1]], "lookups": [(0, i + 1)]}]} for i in range(n)]
        + [{"type": 1, "subtables": [{"format": 2, "coverage": [1], "subst": [2]}]}]}},
        [[P], [(P, 2000)]])
    # GPOS: cursive attachment on every glyph and mark-to-base with every mark on one base
    R["cursive-all"] = ({"num_glyphs": 4, "cmap": "pua", "gpos": {"features": [{"tag": "curs", "lookups": [0]}], "lookups": [
        {"type": 3, "flag": 1, "subtables": [{"coverage": [1, 2], "entry_exit": [((0, 10), (500, 20)), ((0, 30), (500, 40))]}]}]}},
        [[(P, 70000)], [(P, 40000), (P + 1, 40000)]])
    R["marks-on-one-base"] = ({"num_glyphs": 4, "cmap": "pua", "gdef": {"classes": {1: 1, 2: 3, 3: 3}}, "gpos": {
        "features": [{"tag": "mark", "lookups": [0]}], "lookups": [
            {"type": 4, "subtables": [{"mark_coverage": [2, 3], "base_coverage": [1], "class_count": 1,
                                       "marks": [(0, (0, 0)), (0, (10, 10))], "bases": [[(100, 500)]]}]}]}},
        [[P, (P + 1, 100)], [P, (P + 1, 32767)]])
    # morx: don't-advance loops and an insertion bomb (budget: max_ops / max_len)
    R["morx-dont-advance"] = ({"num_glyphs": 4, "cmap": "pua", "morx": {"version": 2, "chains": [{"default_flags": 1, "features": [],
        "subtables": [{"kind": "rearrangement", "classes": {1: 4}, "states": [[0, 0, 0, 0, 1], [0, 0, 0, 0, 1]],
                       "entries": [{"new_state": 0, "flags": 0}, {"new_state": 0, "flags": 0x4000 | 0x8000 | 1}]}]}]}},
        [[P], [(P, 5000)]])
    R["morx-insertion-bomb"] = ({"num_glyphs": 4, "cmap": "pua", "morx": {"version": 2, "chains": [{"default_flags": 1, "features": [],
        "subtables": [{"kind": "insertion", "classes": {1: 4}, "states": [[0, 0, 0, 0, 1], [0, 0, 0, 0, 1]],
                       "entries": [{"new_state": 0, "flags": 0, "current_insert_index": 0xFFFF, "marked_insert_index": 0xFFFF},
                                   {"new_state": 0, "flags": 0x4000 | 0x0800 | 0x03E0, "current_insert_index": 0, "marked_insert_index": 0xFFFF}],
                       "insert_glyphs": [1] * 31}]}]}},
        [[P], [(P, 600)]])
    # ligatures of ligatures: component counts far beyond 15 per glyph and 255 in total (u8 arithmetic, D54), with marks carried along
    def lig(first, comps, out, flag=0):
        return {"type": 4, "flag": flag, "subtables": [{"coverage": [first], "ligsets": [[{"components": comps, "glyph": out}]]}]}
    R["ligature-of-ligatures"] = ({"num_glyphs": 8, "cmap": "pua", "gdef": {"classes": {1: 1, 2: 2, 3: 2, 4: 2, 5: 3}}, "gsub": {
        "features": [{"tag": "liga", "lookups": [0, 1, 2]}],
        "lookups": [lig(1, [1] * 14, 2, 8), lig(2, [2] * 17, 3, 8), lig(3, [3] * 2, 4, 8)]}},
        [[(P, 270)], [(P, 273)], [(P, 15), P + 4] * 18 + [P + 4], [(P, 270), P + 4, (P, 270), P + 4, (P, 270), P + 4], [(P, 2000)]])
    # AAT tracking with degenerate size lists (one size: D55; two equal sizes; descending sizes), a point size set
    import struct as _st
    def trak(sizes, vals):
        ns = len(sizes)
        size_off = 12 + 8 + 8
        recs = _st.pack(">iHH", 0, 256, size_off + 4 * ns)
        hor = _st.pack(">HHI", 1, ns, size_off) + recs + b"".join(_st.pack(">i", z << 16) for z in sizes) + b"".join(_st.pack(">h", v) for v in vals)
        return _st.pack(">IHHHH", 0x00010000, 0, 12, 0, 0) + hor
    for nm, sizes, vals in (("one-size", [12], [85]), ("equal-sizes", [12, 12], [85, -40]), ("descending-sizes", [24, 12, 6], [10, 20, 30])):
        R["trak-" + nm] = ({"num_glyphs": 4, "cmap": "pua", "tables": {"trak": trak(sizes, vals)}}, [[P, P + 1], [(P, 50)]], "ptem=12")
        R["trak-" + nm + "-small"] = ({"num_glyphs": 4, "cmap": "pua", "tables": {"trak": trak(sizes, vals)}}, [[P, P + 1]], "ptem=1")
        R["trak-" + nm + "-large"] = ({"num_glyphs": 4, "cmap": "pua", "tables": {"trak": trak(sizes, vals)}}, [[P, P + 1]], "ptem=4000")
    return R


def synthetic_lines():
    import fontbuild
    L = []
    for name, item in sorted(synthetic_recipes().items()):
        recipe, texts = item[0], item[1]
        extra = (" " + item[2]) if len(item) > 2 else ""
        try:
            data = fontbuild.build(recipe)
        except Exception as e:          # a recipe the builder cannot serialise is a harness problem, not a finding
            L.append(f"c01 @/nonexistent/{name}:{type(e).__name__}@0 - - - 0 0 - - - 61")
            continue
        p = os.path.join(cache_dir(), f"syn-{name}.ttf")
        if not os.path.exists(p) or open(p, "rb").read() != data:
            open(p, "wb").write(data)
        for t in texts:
            for cfg in ("- - - 0 0 - - -", "r - - 3 1 - - -"):
                L.append(f"c01 {spec(p)} {cfg} {rle(t)} ser=1{extra}")
    return L


def run_synthetic(judge, timeout):
    """every line in its own process group with a short wall limit: these inputs are tiny, anything above it is a hang"""
    lines = synthetic_lines()
    for b in ("release", "checked"):
        exe = vlib.build_harness(b)
        outs = vlib.run_groups(exe, [[ln] for ln in lines], timeout=timeout * (1 if b == "release" else 3), flush=True)
        for ln, o in zip(lines, outs):
            judge.see("synthetic", b, ln, o[0] if o else "timeout")


def seed_lines():
    F = fdir()
    nast = os.path.join(F, "in-house", "NotoNastaliqUrdu-Regular.ttf")
    L = []
    plain = "- - - 0 0 - - -"
    if os.path.exists(nast):
        L.append(f"c01 {spec(nast)} {plain} 628*200000")
        L.append(f"c01 {spec(nast)} {plain} 628,64e*70000")
        L.append(f"c01 {spec(nast)} r Arab - 0 0 - - - 644,627*3000 ser=1")
    for c in corpus.load():
        if any(0x900 <= ord(ch) <= 0x97f for ch in c.text):
            L.append(f"c01 {spec(c.font, c.index)} {plain} " + ",".join(["915,94d"] * 140 + ["915"]) + " ser=1")
            break
    marks_fonts = []
    for c in corpus.load():
        if any(0x300 <= ord(ch) <= 0x36f for ch in c.text) and c.font not in marks_fonts:
            marks_fonts.append(c.font)
    for f in marks_fonts[:3]:
        L.append(f"c01 {spec(f)} {plain} 61,301*70000")
        L.append(f"c01 {spec(f)} {plain} 61,301*35000,323*35000")
    ff = synth_feat_font()
    if ff:
        L.append(f"c01 {spec(ff)} - - - 0 0 {tag_hex('aalt')}:70000:0:4294967295 - - 61,62,63 ser=1")
        L.append(f"c01 {spec(ff)} - - - 0 0 {tag_hex('aalt')}:3:0:4294967295 - - 61,62,63 ser=1")
    morx = sorted(f for f in all_fonts() if "TestMORX" in f)
    for f in morx:
        for t in ("6c,4c,41,76,41", "41,42,43,44", "61,62,63,64", "78,79,7a,7a"):
            L.append(f"c01 {spec(f)} {plain} {t} ser=1")
    # minimised inputs of crashes found by the streams below (kept so that every run re-checks them)
    past = [
        ("in-house/3998336402905b8be8301ef7f47cf7e050cbb1bd.ttf", [], f"{plain} 1789,200d,17bc*32768,1ab0,17bc*32768"),   # gpos_table.rs assert!(j < i): i16 attach_chain wrap
        ("text-rendering-tests/TestGSUBOne.otf", ["w1701:52"], f"{plain} 61,20"),                                         # gsubgpos.rs chain context format 3 coverage unwrap
        ("aots/gpos_chaining1_boundary_f3.otf", [], f"{plain} 61,fe0f nfvs=70000 ser=1"),                                 # buffer.rs as_glyph debug_assert (serialize)
        ("in-house/fd07ea46e4d8368ada1776208c07fd596f727852.ttf", ["w68:000000bd"], f"{plain} d4e ser=1"),                # face.rs glyph_extents i16 (fixed)
        ("text-rendering-tests/TestMORXThirtytwo.ttf", ["w2438:0153", "w250:8000"], "b - - 4 1 - - - 41 mode=plan ser=1"),  # face.rs ascender - descender (fixed)
        ("text-rendering-tests/NotoSerifKannada-Regular.ttf", ["w96924:81", "w93167:52", "w94567:61", "w94766:01", "w93694:01", "w93699:50"],
         f"{plain} caa,ccc ser=1"),                                                                                      # set_digest add_range a > b (fixed)
        ("rb_custom/NotoSansSinhala.subset1.otf", ["w2476:0013"], f"{plain} dc1,200d,dca,200d,dbb,dd3"),                      # context format 3 coverage unwrap
        ("rb_custom/Linefont.ttf", ["w59206:40", "w33827:cd", "w53245:ba", "w30462:00", "w41887:a4"], f"{plain} 21f,61"),      # reverse chain coverage unwrap
        ("in-house/TRAK.ttf", ["w426:01"], "- - - 255 2 - - feff,5b4,200d,3164 41,42,43 ppem=0 ptem=1e9 mode=plan ser=1"),       # serialize pen accumulation (fixed)
        ("in-house/MORXTwentyeight.ttf", ["w2650:fffe"], f"{plain} 41,78,45,79,44,79,79 ser=1"),                           # morx ligature_idx u16 +=
        ("in-house/55e2910dbc9ef5dd89f4e146e7e0152169545b6a.ttf", [], f"- - - 0 0 {tag_hex('pref')}:1:0:4294967295 - - d17,d4d ser=1"),   # indic final reordering: failed 'pref' candidate at the end of the syllable, info[len] (fixed)
        ("rb_custom/Rasa.subset1.otf", [], "l - - 64 1 - - - abc*65536"),                                                 # quadratic in a run of marks (2 s here, 88 s at 300k)
    ]
    for f, muts, rest in past:
        pth = os.path.join(F, f)
        if os.path.exists(pth):
            L.append(f"c01 {spec(pth, 0, muts)} {rest}")
    anyf = marks_fonts[0] if marks_fonts else None
    if anyf:
        for lang in ("a-é", "é", "x", "日本語", "a", "ü-x"):
            L.append(f"c01 {spec(anyf)} - - x{lang.encode().hex()} 0 0 - - - 61,62 ser=1")
    return L


def own_texts():
    """font -> list of (index, code points) of its fixture texts"""
    by = {}
    for c in corpus.load():
        by.setdefault(c.font, []).append((c.index, [ord(ch) for ch in c.text]))
    return by


def config_lines(r, n):
    cs = r.shuffle(corpus.load())[:n]
    L = []
    for c in cs:
        cfg, ex = rand_config(r)
        text = [ord(ch) for ch in c.text]
        if r.chance(1, 5):
            text = degenerate_texts(r, text)
        L.append(f"c01 {spec(c.font, c.index)} {cfg} {rle(text)} " + " ".join(ex))
    return L


def mutant_lines(r, n):
    own = own_texts()
    fonts = [f for f in all_fonts() if os.path.getsize(f) < 1_000_000]
    L = []
    cache = {}
    for _ in range(n):
        f = r.choice(fonts)
        if f not in cache:
            cache[f] = open(f, "rb").read()
        muts = mutate(r, cache[f])
        if r.chance(1, 6):
            muts += mutate(r, cache[f])
        texts = own.get(f)
        idx, text = r.choice(texts) if texts else (0, [0x61, 0x62, 0x66, 0x69])
        if r.chance(1, 4):
            text = degenerate_texts(r, text)
        if r.chance(1, 3):
            cfg, ex = rand_config(r, wild=r.chance(1, 2))
        else:
            cfg, ex = "- - - 0 0 - - -", ["ser=1"]
        L.append(f"c01 {spec(f, idx, muts)} {cfg} {rle(text)} " + " ".join(ex))
    return L


def long_lines(r, nfonts, per, sizes):
    own = own_texts()
    fonts = all_fonts()
    pick = r.sample(fonts, min(nfonts, len(fonts)))
    L = []
    for f in pick:
        texts = own.get(f)
        for _ in range(per):
            idx, text = r.choice(texts) if texts else (0, [0x61])
            t = long_texts(r, text, sizes)
            cfg = f"{r.choice(['-', '-', 'l', 'r', 't'])} - - {r.choice([0, 3, 0x40])} {r.below(3)} - - -"
            L.append(f"c01 {spec(f, idx)} {cfg} {rle(t)}" + (" mode=plan" if r.chance(1, 4) else ""))
    return L



# ---------------------------------------------------------------------------------------------------------
# structured streams added after the seeded changes C01a / C01b (see DESIGN.md §6)

SWEEP_SCRIPTS = [("Arab", 0x0628), ("Syrc", 0x0710), ("Adlm", 0x0628), ("Mong", 0x0628), ("Deva", 0x0915), ("Mlym", 0x0D15),
                 ("Khmr", 0x1780), ("Mymr", 0x1000), ("Thai", 0x0E01), ("Hang", 0xAC00), ("Hebr", 0x05D0), ("Tibt", 0x0915),
                 ("Java", 0x1780), ("Latn", 0x0061), ("-", 0x0061)]


def sweep_lines(r, chunk, planes):
    """every code point of the given planes, in runs of `chunk` consecutive code points (as text and as pre / post context), under
    every dedicated shaper (script forced): per-code-point table lookups (joining types, categories, syllable classes,
    decompositions, mirroring …) are total"""
    own = own_texts()
    fonts = {}
    for sc, probe in SWEEP_SCRIPTS:
        best = None
        for f, texts in sorted(own.items()):
            if os.path.getsize(f) > 600_000: continue
            for idx, t in texts:
                if any(probe <= c < probe + 0x60 for c in t):
                    best = (f, idx); break
            if best: break
        fonts[sc] = best or (sorted(own)[0], 0)
    L = []
    for pl in planes:
        lo = pl << 16
        for a in range(lo, lo + 0x10000, chunk):
            cps = [c for c in range(a, a + chunk) if not (0xD800 <= c <= 0xDFFF)]
            if not cps: continue
            ctxt = ",".join(f"{c:x}" for c in cps[:4]) or "-"
            for sc, _ in SWEEP_SCRIPTS:
                f, idx = fonts[sc]
                d = r.choice(["-", "-", "l", "r", "t"])
                lvl = r.below(3)
                pre, post = (ctxt, "-") if r.chance(1, 2) else ("-", ctxt)
                L.append(f"c01 {spec(f, idx)} {d} {sc} - {r.choice([0, 0, 3, 0x10])} {lvl} - {pre} {post} {rle(cps)} ser=1")
    return L



def run_sweep_syllabic(ctx, judge, shim, r, per_case, max_cps):
    """`sweep-syllabic` (added after the seeded change C01e): tools/syllabic.py::sweep_batches"""
    import syllabic
    import flagslib
    bf = dict(flagslib.constants(shim)[1])
    bits = [bf[n] for n in syllabic.SWEEP_FLAGS]
    stat = {}
    for lines in syllabic.sweep_batches(shim, r, per_case, max_cps, bits, rle, stat):
        run_both(judge, "sweep-syllabic", lines, timeout=900)
    ctx.cov["sweep_syllabic"] = stat


def markrun_lines(ctx, shim, r, full):
    """`mark-run-lengths` (added after the seeded change C01h): tools/markruns.py::lines"""
    import markruns
    stat = {}
    L = markruns.lines(shim, r, own_texts(), rle, spec, full, stat)
    ctx.cov["mark_run_lengths"] = stat
    return L


def metric_lines(r, shim, ncases):
    """per-glyph metric mutants: shape each fixture once, then give ONE glyph that occurs in its output an extreme horizontal
    advance (0, 1, 0x7fff, 0x8000, 0xffff) — arithmetic on the advances of specific glyphs (stretching, justification, fallback
    positioning, origins) must not trap or divide by zero"""
    cases = r.shuffle([c for c in corpus.load() if os.path.getsize(c.font) < 1_500_000])[:ncases]
    groups = corpus.font_groups(cases)
    outs = vlib.run_groups(shim, [[reg] + [c.shape_line(fid) for c in cs] for fid, reg, cs in groups], timeout=600)
    L = []
    for (fid, reg, cs), o in zip(groups, outs):
        font, idx = cs[0].font, cs[0].index
        data = open(font, "rb").read()
        recs = {x[0]: x for x in sfnt_dir(data)}
        if "hmtx" not in recs or "hhea" not in recs or idx != 0: continue
        ho = recs["hhea"][2]
        if ho + 36 > len(data): continue
        nlong = struct.unpack(">H", data[ho + 34:ho + 36])[0]
        mo, ml = recs["hmtx"][2], recs["hmtx"][3]
        for c, rep in zip(cs, o[1:]):
            toks = rep.split()
            if len(toks) < 3 or toks[0] != "ok": continue
            gids = sorted({int(t.split(":")[0]) for t in toks[2:]})
            gids = [g for g in gids if g < nlong and 4 * g + 2 <= ml]
            text = [ord(ch) for ch in c.text]
            d = c.dir or "-"
            picks = [(g, 0) for g in (gids if len(gids) <= 12 else r.sample(gids, 12))]        # every output glyph once with advance 0
            picks += [(g, r.choice([1, 0x7fff, 0x8000, 0xffff])) for g in r.sample(gids, min(2, len(gids)))]
            for g, v in picks:
                L.append(f"c01 {spec(font, idx, [f'w{mo + 4 * g}:{v:04x}'])} {d} - - 0 0 - - - {rle(text)} ser=1")
    return L


def gsub_random_lines(r, nfonts):
    """random well-formed GSUB/GDEF fonts (tools/gsubgen.py: all lookup types incl. deletion, reverse chaining, nested and
    self-recursive contextual lookups, lookup flags) through shape() with short texts over the font's own alphabet, every
    feature switched on: the lookup interpreter is total on states only such fonts reach (e.g. a buffer emptied by deletions)"""
    import fontbuild, gsubgen
    d = os.path.join(cache_dir(), "rnd")
    os.makedirs(d, exist_ok=True)
    L = []
    for k in range(nfonts):
        rec = gsubgen.rand_recipe(r, max_lookups=6)
        # deletion-heavy variant: some sequences of the multiple substitutions become empty
        if r.chance(1, 3):
            for lk in rec["gsub"]["lookups"]:
                if lk["type"] == 2:
                    for st in lk["subtables"]:
                        st["sequences"] = [([] if r.chance(1, 2) else sq) for sq in st["sequences"]]
        try:
            data = fontbuild.build(rec)
        except Exception:
            continue
        p = os.path.join(d, f"rnd-{k}.ttf")
        if not os.path.exists(p) or open(p, "rb").read() != data:
            open(p, "wb").write(data)
        n = rec["num_glyphs"]
        feats = ",".join(f"{tag_hex(f['tag'])}:{r.choice([1, 1, 2, 3])}:0:4294967295" for f in rec["gsub"]["features"]) or "-"
        for _ in range(6):
            ln = r.choice([1, 1, 2, 2, 3, 4, 6])
            gl = [r.range(1, n - 1) for _ in range(ln)]
            if r.chance(1, 3):
                gl = [gl[0]] * ln                                  # one glyph repeated: "everything is deleted" cases
            text = [0xE000 + g - 1 for g in gl]                     # cmap "pua": U+E000 + gid - 1
            cfg = f"{r.choice(['-', 'l', 'r', 't'])} - - {r.choice([0, 3])} {r.below(3)} {feats} - -"
            L.append(f"c01 {spec(p)} {cfg} {rle(text)} ser=1")
    return L

# ---------------------------------------------------------------------------------------------------------
# `gsub-gpos-random` (added after the seeded change C01g): a random GSUB whose lookups feed each other TOGETHER WITH a random GPOS
# of every lookup type whose coverages are drawn without looking at GDEF — the positioning lookups then meet glyphs in states only
# substitution chains leave behind (ligature ids and component numbers on glyphs that are not marks, multiplied ligatures,
# ligatures of ligatures, everything deleted), and tables no font tool writes but every parser accepts

GG_DIRS = ["l", "r", "t", "b"]


def skew_gpos(r, gpos, stat):
    """rewrites part of the subtables into shapes the OpenType text forbids and no parser rejects: class count off by one (either
    way), anchor matrix / value / entry-exit / pair-set / mark arrays shorter or longer than their coverage, ligatures with no / one /
    up to 17 components (component numbers have 4 bits), mark classes at or past the class count, rows without any anchor"""
    def note(k): stat[k] = stat.get(k, 0) + 1
    for lk in gpos["lookups"]:
        for st in lk["subtables"]:
            t = lk["type"]
            if not isinstance(st, dict) or not r.chance(1, 2 if t == 5 else 3):
                continue
            if t in (4, 5, 6):
                key = {4: "bases", 5: "ligs", 6: "mark2"}[t]
                how = r.choice([0, 1, 2, 3, 4, 5, 6, 6, 6, 6, 7]) if t == 5 else r.below(8)
                if how == 0: st["class_count"] += 1; note("class-count+1")
                elif how == 1: st["class_count"] = max(0, st["class_count"] - 1); note("class-count-1")
                elif how == 2 and st[key]: st[key] = st[key][:-1]; note("matrix-shorter-than-coverage")
                elif how == 3: st[key] = st[key] + [st[key][0]] if st[key] else st[key]; note("matrix-longer-than-coverage")
                elif how == 4 and st["marks"]: st["marks"] = st["marks"][:-1]; note("mark-array-shorter-than-coverage")
                elif how == 5 and st["marks"]:
                    i = r.below(len(st["marks"]))
                    st["marks"][i] = (st["class_count"] + r.below(2), st["marks"][i][1]); note("mark-class-past-class-count")
                elif how == 6 and t == 5 and st[key]:
                    # the component count of every ligature (or of one) is redrawn: none at all, one, more than any ligature id
                    # can number (component numbers have 4 bits)
                    k = max(1, st["class_count"])
                    one = r.below(len(st[key])) if r.chance(1, 3) else None
                    for i in range(len(st[key])):
                        if one is not None and i != one: continue
                        nc = r.choice([0, 0, 1, 1, 4, 15, 16, 17])
                        st[key][i] = [[(r.range(-200, 200), r.range(-200, 200)) for _ in range(k)] for _ in range(nc)]
                        note(f"ligature-components:{nc}")
                elif st[key]:
                    i = r.below(len(st[key]))
                    st[key][i] = [[None] * max(1, st["class_count"])] if t == 5 else [None] * max(1, st["class_count"])
                    note("row-without-anchors")
            elif t == 3 and st.get("entry_exit"):
                st["entry_exit"] = st["entry_exit"][:-1]; note("entry-exit-shorter-than-coverage")
            elif t == 1 and st.get("format") == 2 and st.get("values"):
                st["values"] = st["values"][:-1]; note("values-shorter-than-coverage")
            elif t == 2 and st.get("format") == 1 and st.get("pairsets"):
                st["pairsets"] = st["pairsets"][:-1]; note("pairsets-shorter-than-coverage")


def gsub_gpos_recipe(r, stat):
    """one font: GSUB profile x GDEF mode x GPOS (all types 1-8, coverages independent of GDEF, partly aimed at the glyphs and
    adjacent pairs the GSUB really produces) x optional skewing"""
    import gsubgen, C10
    prof = r.choice(["chain", "chain", "chain", "expansion", "random", "random-deleting"])
    if prof == "chain":
        rec = gsubgen.chain_recipe(r)
    elif prof == "expansion":
        rec = gsubgen.expansion_recipe(r)
    else:
        rec = gsubgen.rand_recipe(r, max_lookups=6)
        if prof == "random-deleting":
            for lk in rec["gsub"]["lookups"]:
                if lk["type"] == 2:
                    for st in lk["subtables"]:
                        st["sequences"] = [([] if r.chance(1, 2) else sq) for sq in st["sequences"]]
    n = rec["num_glyphs"]
    gd = "none" if "gdef" not in rec else "present"
    if prof != "chain":
        # GDEF of the other profiles: as generated / dropped / replaced by classes drawn at random
        k = r.below(4)
        if k == 0 and "gdef" in rec:
            del rec["gdef"]; gd = "none"
            for lk in rec["gsub"]["lookups"]: lk.pop("mark_set", None)
        elif k == 1:
            ms = (rec.get("gdef") or {}).get("mark_sets")
            rec["gdef"] = {"classes": {g: r.choice([1, 2, 3, 3]) for g in range(1, n) if r.chance(3, 4)}}
            if ms: rec["gdef"]["mark_sets"] = ms
            gd = "random"
    if prof == "chain":
        pool = sorted({g for w in rec["final_words"] for g in w} | set(rec["text_glyphs"]))
        pairs = rec["final_pairs"]
        gpos = C10.rand_gpos(r, n, pool=pool or None, pairs=pairs or None, types=[1, 2, 3, 4, 4, 5, 5, 6, 7, 8])
    elif r.chance(1, 2):
        pool = sorted(set(rec.get("text_glyphs") or range(1, n)))
        gpos = C10.rand_gpos(r, n, pool=pool, pairs=[(r.choice(pool), r.choice(pool)) for _ in range(4)])
    else:
        gpos = C10.rand_gpos(r, n)
    skewed = r.chance(1, 3)
    if skewed:
        skew_gpos(r, gpos, stat.setdefault("skewed_tables", {}))
    rec["gpos"] = gpos
    for key in (f"gsub-profile:{prof}", f"gdef:{gd if prof != 'chain' else ('none' if 'gdef' not in rec else 'present')}",
                f"gpos-skewed:{int(skewed)}"):
        stat.setdefault("fonts", {})[key] = stat.setdefault("fonts", {}).get(key, 0) + 1
    for lk in gpos["lookups"]:
        stat.setdefault("gpos_lookup_types", {})[str(lk["type"])] = stat.setdefault("gpos_lookup_types", {}).get(str(lk["type"]), 0) + 1
    return rec


def gsub_gpos_lines(r, nfonts, ntexts, stat):
    import fontbuild, gsubgen
    d = os.path.join(cache_dir(), "ggr")
    os.makedirs(d, exist_ok=True)
    L = []
    built = 0
    for k in range(nfonts):
        rec = gsub_gpos_recipe(r, stat)
        try:
            data = fontbuild.build({x: v for x, v in rec.items() if x in ("num_glyphs", "cmap", "advances", "gdef", "gsub", "gpos")})
        except Exception:
            stat["unbuildable"] = stat.get("unbuildable", 0) + 1
            continue
        built += 1
        p = os.path.join(d, f"ggr-{k}.ttf")
        if not os.path.exists(p) or open(p, "rb").read() != data:
            open(p, "wb").write(data)
        json.dump({x: v for x, v in rec.items() if x not in ("advances", "seqs")}, open(p[:-4] + ".json", "w"), default=str)   # goes into the replay
        n = rec["num_glyphs"]
        tags = [f["tag"] for f in rec["gsub"]["features"]] + [f["tag"] for f in rec["gpos"]["features"]]
        feats = ",".join(f"{tag_hex(t)}:{r.choice([1, 1, 1, 2])}:0:4294967295" for t in sorted(set(tags)))
        for ti in range(ntexts):
            ln = r.choice([1, 2, 2, 3, 4, 6, 9])
            k2 = r.below(4)
            if rec.get("seqs") and k2 < 3:
                gl = gsubgen.rand_glyphs(r, rec, ln)                 # the sequences the rules wait for, strung together
                if k2 == 2:
                    gl = [g if r.chance(3, 4) else r.range(1, n - 1) for g in gl]
            else:
                gl = [r.range(1, n - 1) for _ in range(ln)]          # the whole cmap: produced glyphs can be typed directly
            text = [0xE000 + g - 1 for g in gl]
            cfg = f"{GG_DIRS[(k + ti) % 4]} - - {r.choice([0, 0, 3, 4])} {r.below(3)} {feats if r.chance(3, 4) else '-'} - -"
            L.append(f"c01 {spec(p)} {cfg} {rle(text)} ser=1")
    stat["fonts_built"] = built
    return L


# ---------------------------------------------------------------------------------------------------------
# `extreme-clusters` (added after the seeded change C01f): input cluster values and feature ranges at the edges of u32

U32M = 0xFFFFFFFF
XVALS = [0, 1, U32M, U32M - 1, 0x80000000, 0x7FFFFFFF, 0x80000001, 0xFFFF, 0x10000]
XDIRS = ["l", "r", "t", "b"]
# OpenType tags the engines look at (GSUB/GPOS fonts, the dedicated shapers, kern/kerx/trak switches)
XTAGS_OT = ["liga", "kern", "calt", "ccmp", "mark", "mkmk", "curs", "init", "medi", "fina", "isol", "rlig", "clig", "locl", "smcp",
            "frac", "numr", "dnom", "akhn", "rphf", "pref", "blwf", "half", "pstf", "abvs", "blws", "psts", "haln", "pres", "ljmo",
            "vjmo", "tjmo", "vert", "rand", "aalt", "trak", "dist", "abvm", "blwm", "rtlm", "ltrm", "ss01", "zero"]

# the tags the dedicated shapers allocate masks for themselves: a user feature of the same name changes which glyphs carry the mask
XTAGS_FAMILY = {
    "syllabic": ["nukt", "akhn", "rphf", "rkrf", "pref", "blwf", "abvf", "half", "pstf", "vatu", "cjct", "cfar", "init", "pres", "abvs",
                 "blws", "psts", "haln", "locl", "ccmp"],
    "arabic": ["init", "medi", "fina", "isol", "med2", "fin2", "fin3", "rlig", "calt", "mset", "stch", "ccmp", "locl", "rclt"],
    "hangul": ["ljmo", "vjmo", "tjmo", "ccmp", "calt"],
}

XFAMILIES = ["ot", "arabic", "hangul", "syllabic", "fallback", "aat", "aat+feat", "aat-generated"]


def extreme_clusters(r, n):
    """input cluster values of n characters: u32 extremes mixed with ordinary values — all equal, ascending up to / descending
    from an extreme, running index with some positions replaced, random draws, sorted draws. Returns (kind, list)."""
    if n == 0:
        return "empty", []
    k = r.below(8)
    e = r.choice(XVALS)
    if k == 0:
        return "all-equal", [e] * n
    if k == 1:      # ascending, the last character (or the last two / all from some point on) sits exactly on the extreme
        tail = r.choice([1, 1, 2, n])
        cl = [max(0, e - (n - tail - i)) if i < n - tail else e for i in range(n)]
        return "ascending-to-extreme", cl
    if k == 2:      # descending from the extreme
        head = r.choice([1, 1, 2])
        cl = [e if i < head else max(0, e - (i - head + 1) * r.choice([1, 1, 3])) for i in range(n)]
        return "descending-from-extreme", cl
    if k == 3:      # ascending from the extreme, saturating at u32::MAX
        return "ascending-from-extreme", [min(U32M, e + i) for i in range(n)]
    if k == 4:      # ordinary numbering with 1-2 positions replaced by extremes (non-monotone)
        cl = list(range(n))
        for _ in range(r.range(1, 2)):
            cl[r.below(n)] = r.choice(XVALS)
        return "replaced", cl
    if k == 5:
        return "random", [r.choice(XVALS) if r.chance(1, 2) else r.below(2 * n + 1) for _ in range(n)]
    cl = sorted(r.choice(XVALS) if r.chance(1, 2) else r.below(2 * n + 1) for _ in range(n))
    if k == 6:
        return "sorted-ascending", cl
    return "sorted-descending", cl[::-1]


def extreme_feats(r, tags, cl):
    """1-4 user features (1 in 8: none) whose range bounds are u32 extremes or input cluster values (+-1): global, start == end,
    start > end, end == start + 1, [0, x), [x, MAX], several features overlapping; values 0 / 1 / large"""
    if r.chance(1, 8) or not tags:
        return "-", "none"
    pool = XVALS + sorted(set(cl)) + [min(U32M, c + 1) for c in set(cl)] + [max(0, c - 1) for c in set(cl)]
    fs, kinds = [], set()
    for _ in range(r.choice([1, 1, 2, 2, 3, 4])):
        t = r.choice(tags)
        a, b = r.choice(pool), r.choice(pool)
        k = r.below(8)
        if k == 0: a, b, kind = 0, U32M, "global"
        elif k == 1: b, kind = a, "start=end"
        elif k == 2: a, b, kind = max(a, b), min(a, b), "start>=end"
        elif k == 3: b, kind = min(U32M, a + 1), "end=start+1"
        elif k == 4: a, kind = 0, "from-0"
        elif k == 5: b, kind = U32M, "to-max"
        else: a, b, kind = min(a, b), max(a, b), "start<=end"
        kinds.add(kind)
        fs.append(f"{tag_hex(t)}:{r.choice([1, 1, 1, 0, 2, 65535, U32M])}:{a}:{b}")
    if len(fs) > 1: kinds.add("several")
    return ",".join(fs), "+".join(sorted(kinds))


def text_family(cps):
    if any(0x600 <= c <= 0x6ff or 0x750 <= c <= 0x77f or 0x8a0 <= c <= 0x8ff or 0x700 <= c <= 0x74f or 0x1800 <= c <= 0x18af for c in cps):
        return "arabic"
    if any(0x1100 <= c <= 0x11ff or 0xac00 <= c <= 0xd7af or 0xa960 <= c <= 0xa97f or 0xd7b0 <= c <= 0xd7ff for c in cps):
        return "hangul"
    if any(0x900 <= c <= 0xdff or 0x1000 <= c <= 0x109f or 0x1780 <= c <= 0x17ff or 0xf00 <= c <= 0xfff or 0x1a20 <= c <= 0x1aaf
           or 0xa980 <= c <= 0xa9df or 0x1b00 <= c <= 0x1b7f or 0x11000 <= c <= 0x11fff or 0xaa00 <= c <= 0xaa5f for c in cps):
        return "syllabic"
    return None


_tables = {}


def font_tables(path):
    if path not in _tables:
        try:
            _tables[path] = {x[0] for x in sfnt_dir(open(path, "rb").read())}
        except OSError:
            _tables[path] = set()
    return _tables[path]


_ftags = {}


def layout_feature_tags(path):
    """the feature tags of the font's own GSUB and GPOS FeatureLists (first face)"""
    if path not in _ftags:
        tags = set()
        try:
            data = open(path, "rb").read()
            for t, _, o, l in sfnt_dir(data):
                if t in ("GSUB", "GPOS") and l >= 10 and o + l <= len(data):
                    fl = o + struct.unpack(">H", data[o + 6:o + 8])[0]
                    if fl + 2 > o + l: continue
                    n = struct.unpack(">H", data[fl:fl + 2])[0]
                    for i in range(min(n, (o + l - fl - 2) // 6)):
                        tg = data[fl + 2 + 6 * i:fl + 6 + 6 * i]
                        if all(0x21 <= b < 0x7f for b in tg): tags.add(tg.decode("latin1"))
        except (OSError, struct.error):
            pass
        _ftags[path] = sorted(tags)
    return _ftags[path]


def with_feat(path, feat_body):
    """copy of an AAT corpus font with a `feat` table that exposes every AAT feature type the crate maps OpenType tags to"""
    p = os.path.join(cache_dir(), "feat+" + os.path.basename(path))
    body = add_table(open(path, "rb").read(), "feat", feat_body)
    if not os.path.exists(p) or open(p, "rb").read() != body:
        open(p, "wb").write(body)
    return p


def extreme_sources(shim, r, n_gen):
    """family -> [(font spec path, index, code points, script or None, feature tags that reach the engine)]"""
    import C15, C17
    fm = C15.featmap(shim)
    rows = {}
    for _, ty, on, off in fm:
        rows[ty] = max(rows.get(ty, 0), on + 1, off + 1)
    rows[17] = max(rows.get(17, 0), 4)          # character alternatives (`aalt`)
    feat_body = C17.build_feat([(ty, ns, ty in (17,)) for ty, ns in sorted(rows.items())])
    aat_tags = sorted({t[0] for t in fm})
    src = {f: [] for f in XFAMILIES}
    for c in corpus.load():
        if os.path.getsize(c.font) > 1_500_000: continue
        tb = font_tables(c.font)
        cps = [ord(ch) for ch in c.text][:24]
        aat = bool(tb & {"morx", "kerx", "trak"})
        if aat:
            src["aat"].append((c.font, c.index, cps, c.script, XTAGS_OT[:8] + aat_tags))
            if c.index == 0 and "morx" in tb and "feat" not in tb and os.path.getsize(c.font) < 400_000:
                src["aat+feat"].append((with_feat(c.font, feat_body), 0, cps, c.script, aat_tags))
            elif "feat" in tb:
                src["aat+feat"].append((c.font, c.index, cps, c.script, aat_tags))
            continue
        fam = text_family(cps)
        if fam:
            src[fam].append((c.font, c.index, cps, c.script, XTAGS_OT))
        elif tb & {"GSUB", "GPOS"}:
            src["ot"].append((c.font, c.index, cps, c.script, XTAGS_OT))
        else:
            src["fallback"].append((c.font, c.index, cps, c.script, XTAGS_OT))
    d = os.path.join(cache_dir(), "xaat")
    os.makedirs(d, exist_ok=True)
    for k in range(n_gen):
        hexf, tags, _ = C15.aat_font(r, fm)
        data = bytes.fromhex(hexf)
        p = os.path.join(d, f"xaat-{k}.ttf")
        if not os.path.exists(p) or open(p, "rb").read() != data:
            open(p, "wb").write(data)
        for _ in range(3):
            cps = [0x61 + r.below(C17.NG - 1) for _ in range(r.range(1, 9))]
            src["aat-generated"].append((p, 0, cps, None, tags + ["kern", "liga"]))
    return src


def extreme_lines(shim, r, per_family, n_gen, stat):
    """`extreme-clusters`: every family of request x input cluster values at the edges of u32 x user-feature ranges at the same
    edges x 4 directions x 3 cluster levels"""
    src = extreme_sources(shim, r, n_gen)
    L = []
    i = 0
    for fam in XFAMILIES:
        cases = src[fam]
        stat.setdefault("families", {})[fam] = {"sources": len(cases), "fonts": len({c[0] for c in cases})}
        if not cases: continue
        for _ in range(per_family * (4 if fam == "syllabic" else 1)):     # four shapers and ~50 scripts share this family
            font, idx, cps, script, tags = r.choice(cases)
            if fam in XTAGS_FAMILY and r.chance(1, 3):
                tags = XTAGS_FAMILY[fam]
            elif not fam.startswith("aat") and r.chance(1, 2):
                tags = layout_feature_tags(font) or tags                # the features the font itself has
            if fam == "hangul" and r.chance(1, 2):      # the corpus has three Hangul fixtures only: jamo / syllable / tone-mark strings
                cps = [r.choice([r.range(0x1100, 0x1112), r.range(0x1161, 0x1175), r.range(0x11A8, 0x11C2), r.range(0xAC00, 0xD7A3),
                                 0x302E, 0x302F, 0x115F, 0x1160]) for _ in range(r.range(1, 8))]
            viramas = [i for i, c in enumerate(cps) if unicodedata.combining(chr(c)) == 9]
            if viramas and r.chance(1, 3):              # a syllable left open at the end of the buffer: the text ends on a virama
                e = r.choice(viramas) + 1
                cps = cps[max(0, e - r.range(2, 6)):e]
            elif r.chance(1, 4) and len(cps) > 1:
                a = r.below(len(cps)); cps = cps[a:a + r.range(1, 6)]
            kind, cl = extreme_clusters(r, len(cps))
            feats, fkind = extreme_feats(r, tags, cl)
            d = XDIRS[i % 4] if r.chance(5, 6) else "-"
            level = (i // 4) % 3
            i += 1
            sc = script.strip() if script and len(script.strip()) == 4 and r.chance(1, 2) else "-"
            flags = r.choice([0, 0, 0, 3, 0x40, 8, 0x10])
            ex = ["ser=1"] + (["mode=plan"] if r.chance(1, 8) else []) + (["rep=1"] if r.chance(1, 8) else [])
            L.append(f"c01 {spec(font, idx)} {d} {sc} - {flags} {level} {feats} - - {rle(cps)} "
                     + "cl=" + ",".join(map(str, cl)) + " " + " ".join(ex))
            for key in (f"clusters:{kind}", f"feats:{fkind}" if "+" not in fkind else "feats:several", f"dir:{d}", f"level:{level}"):
                stat.setdefault("distribution", {})[key] = stat.setdefault("distribution", {}).get(key, 0) + 1
            if U32M in cl: stat["with_cluster_u32max"] = stat.get("with_cluster_u32max", 0) + 1
            if fam.startswith("aat") and U32M in cl and feats != "-" and any(x not in ("global", "start=end", "several") for x in fkind.split("+")):
                stat["aat_ranged_feature_and_cluster_u32max"] = stat.get("aat_ranged_feature_and_cluster_u32max", 0) + 1
    return L


FILL_TABLES = ("hmtx", "vmtx", "hhea", "vhea", "OS/2", "VORG", "post", "kern", "GDEF")


def fill_lines(r, nfonts):
    """table-level mutants: one whole metrics / class table filled with 00 or ff (all advances zero, all classes zero, …) — divisions
    and subtractions that take such quantities must not trap"""
    own = own_texts()
    fonts = [f for f in all_fonts() if os.path.getsize(f) < 400_000]
    L = []
    for f in r.sample(fonts, min(nfonts, len(fonts))):
        data = open(f, "rb").read()
        recs = [x for x in sfnt_dir(data) if x[0] in FILL_TABLES and 0 < x[3] <= 24_000 and x[2] + x[3] <= len(data)]
        texts = own.get(f) or [(0, [0x61, 0x62, 0x66, 0x69])]
        for tag, p, o, l in recs:
            if tag not in ("hmtx", "vmtx") and not r.chance(1, 3): continue
            for fill in ("00", "ff"):
                if tag not in ("hmtx", "vmtx") and r.chance(1, 2): continue
                skip = 0 if tag in ("hmtx", "vmtx", "VORG") else 4      # keep the version header of the other tables
                if l <= skip: continue
                idx, text = r.choice(texts)
                d = r.choice(["-", "-", "r", "t"])
                L.append(f"c01 {spec(f, idx, [f'w{o + skip}:' + fill * (l - skip)])} {d} - - 0 {r.below(2)} - - - {rle(text)} ser=1")
    return L

# ---------------------------------------------------------------------------------------------------------
# primitives: the len bound as an oracle on the crate, and the correspondence of budget-limited walks


def canon(x):
    if x.startswith("panic"):
        if "assertion" in x: return "panic assert"
        if any(k in x for k in ("index out of bounds", "out of range", "slice index", "range end", "range start")):
            return "panic oob"
    return x


def budget_walks(r, n):
    """walks of in/out primitives on buffers whose max_len is a few glyphs above their length"""
    lines = []
    for _ in range(n):
        if r.chance(1, 40):
            # the budget as enter() computes it (64 n above 256 glyphs, 16384 below), then a walk, then leave()
            k = r.choice([0, 1, 255, 256, 257, 300, 400])
            st = bufgen.fresh_state(r, k, mono="asc", maxlen=1073741823, slack=0)
            ops = ["enter"] + bufgen.gen_out_walk(r, st, r.range(1, 6)) + ["leave"]
            lines.append(bufgen.walk_line(st, ops))
            continue
        k = r.range(0, 7)
        st = bufgen.fresh_state(r, k, mono=r.choice(["asc", "asc", "desc", "rand"]), maxlen=r.range(k, k + 4))
        lines.append(bufgen.walk_line(st, bufgen.gen_out_walk(r, st, r.range(1, 12), adversarial=r.chance(1, 8))))
    return lines


def classify(ln, out):
    ks = ["panic" if out.startswith("panic") else "ok"]
    if " ok=0 " in out: ks.append("budget-refusal-reached")
    if " s=1 " in out: ks.append("separate-output-reached")
    for op in ln.split(" ; ")[1:]:
        ks.append("op:" + op.split()[0])
    return ks


def bound_search(ctx, shim, r, n):
    lines = budget_walks(r, n)
    outs = vlib.run_lines(shim, lines)
    bad = []
    refused = 0
    for ln, o in zip(lines, outs):
        tr = bufgen.parse_trace(o)
        if tr is None:
            continue
        M = int(re.search(r" M=(\d+) ", ln).group(1))
        n0 = int(re.search(r" n=(\d+) ", ln).group(1))
        if " ; enter ; " in ln:
            M = max(64 * n0, 16384)
            if tr[1] and tr[1][0]["M"] != M:
                ctx.violation(f"enter() sets max_len={tr[1][0]['M']} for {n0} items, the property's bound is max(64n,16384)={M}",
                              {"stage": "search", "stream": "prim-bound", "request": ln, "step": 0})
                continue
        if any(s["ok"] == 0 for s in tr[1]): refused += 1
        for i, s in enumerate(tr[1][:-1] if " ; enter ; " in ln else tr[1]):
            if s["n"] > max(M, n0) or s["o"] > max(M, n0):
                bad.append((len(ln), ln, i, s["n"], s["o"], M))
                break
    bad.sort()
    for _, ln, i, nn, oo, M in bad[:2]:
        ctx.violation(f"buffer grew past its budget: len={nn} out_len={oo} max_len={M} after step {i}",
                      {"stage": "search", "stream": "prim-bound", "request": ln, "step": i})
    ctx.note_search("prim-bound", len(lines), refused, deviations=len(bad),
                    rule="walks of in/out primitives on buffers with max_len within 4 of their length; after every primitive "
                         "len <= max_len and out_len <= max_len on the crate; non-trivial = the budget refused at least once")


def run(ctx):
    ctx.assumptions += [
        "proved: for every sequence of the modelled in/out primitives called within their contracts, len and out_len stay within "
        "max_len = max(64 n, 16384) fixed by enter(), and none of them panics on a buffer satisfying the representation invariant; "
        "everything else of the statement (syllabic shapers, lookup interpreter, AAT, font parsing, stack depth, running time) is "
        "reached only by the failing-input search on the two builds — the claim is PARTIAL there",
        "a case counts as a hang only above 60 s CPU (release) / 600 s (overflow-checked build) for texts of at most 300k characters "
        "and only if halving the text does not explain the time by at most quadratic growth (such cases are listed as slow_cases)",
    ]
    ctx.regen()
    ctx.prove(MODULE)
    shim = vlib.build_harness()
    ctx.correspond("budget-walks", lines=budget_walks(ctx.rng("walks"), ctx.budget(10000, 200000)), classify=classify, canon=canon)
    bound_search(ctx, shim, ctx.rng("bound"), ctx.budget(10000, 200000))
    j = Judge(ctx)
    run_synthetic(j, timeout=40)
    run_both(j, "seeds", seed_lines(), timeout=ctx.budget(900, 1800), nproc=8)
    run_both(j, "config", config_lines(ctx.rng("config"), ctx.budget(2128, 2128 * 4)), timeout=900)
    run_both(j, "mutants", mutant_lines(ctx.rng("mutants"), ctx.budget(120000, 1000000)), timeout=900)
    run_both(j, "sweep", sweep_lines(ctx.rng("sweep"), ctx.budget(256, 64), ctx.budget([0, 1, 14], [0, 1, 2, 3, 14, 15, 16])), timeout=900)
    run_sweep_syllabic(ctx, j, shim, ctx.rng("sweep-syllabic"), ctx.budget(4, 32), ctx.budget(200, 6000))
    run_both(j, "mark-run-lengths", markrun_lines(ctx, shim, ctx.rng("markruns"), ctx.budget(False, True)), timeout=900)
    run_both(j, "gsub-random", gsub_random_lines(ctx.rng("gsubrnd"), ctx.budget(500, 6000)), timeout=900)
    gstat = {}
    run_both(j, "gsub-gpos-random", gsub_gpos_lines(ctx.rng("gsubgpos"), ctx.budget(1500, 20000), ctx.budget(8, 10), gstat), timeout=900)
    ctx.cov["gsub_gpos_random"] = gstat
    run_both(j, "glyph-metric", metric_lines(ctx.rng("metric"), shim, ctx.budget(2128, 2128)), timeout=900)
    xstat = {}
    run_both(j, "extreme-clusters", extreme_lines(shim, ctx.rng("extreme"), ctx.budget(1500, 20000), ctx.budget(80, 800), xstat), timeout=900)
    ctx.cov["extreme_clusters"] = xstat
    run_both(j, "table-fill", fill_lines(ctx.rng("fill"), ctx.budget(150, 467)), timeout=900)
    run_both(j, "long", long_lines(ctx.rng("long"), ctx.budget(60, 467), ctx.budget(1, 3), ctx.budget([1, 65536], [1, 65536, 300000])),
             timeout=ctx.budget(900, 3000), nproc=8)
    j.report()


def replay(ctx, rp):
    if rp.get("stream") == "prim-bound":
        shim = vlib.build_harness()
        o = vlib.run_lines(shim, [rp["request"]], nproc=1)[0]
        print(o[:3000]); return 1
    if "build" in rp:
        m = re.search(r"@(\S*/syllabic-fonts/\S+?\.ttf)@", rp["request"])
        if m and not os.path.exists(m.group(1)):
            # generated fonts of sweep-syllabic live in a cache directory: rebuild them (they depend on the crate only)
            import syllabic
            for _ in syllabic.sweep_batches(vlib.build_harness(), vlib.Rng(1, "replay"), 0, 1, [], rle, {}): pass
        m = re.search(r"@(\S*/c01fonts/(?:xaat|ggr|markruns)/\S+?\.ttf)@", rp["request"])
        if m and "font_hex" in rp:
            os.makedirs(os.path.dirname(m.group(1)), exist_ok=True)
            open(m.group(1), "wb").write(bytes.fromhex(rp["font_hex"]))
        m = re.search(r"@(\S*/c01fonts/feat\+\S+?)@", rp["request"])
        if m and not os.path.exists(m.group(1)):
            extreme_sources(vlib.build_harness(), vlib.Rng(1, "replay"), 0)      # corpus fonts + feat: deterministic copies
        exe = vlib.build_harness(rp["build"])
        o = vlib.run_lines(exe, [rp["request"]], nproc=1, timeout=1800)[0]
        print("build  :", rp["build"]); print("request:", rp["request"][:1500]); print("reply  :", o[:600])
        j = Judge(ctx)
        j.see("replay", rp["build"], rp["request"], o)
        return 1 if j.sites else 0
    if "request" in rp:
        shim = vlib.build_harness(); model = vlib.build_model()
        a = vlib.run_lines(shim, [rp["request"]], nproc=1)[0]
        b = vlib.run_lines(model, [rp["request"]], nproc=1)[0]
        print("impl :", a[:3000]); print("model:", b[:3000])
        return 0 if canon(a) == b else 1
    print(rp); return 1
